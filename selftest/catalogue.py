"""Mutation catalogue: one-instance breakages (must fire) and benign twins
(must stay silent).  Edits are exact-text replacements applied to a scratch
copy; an edit whose pattern is no longer unique is skipped and counted."""

U = 'compiler/universe.py'
RT = 'compiler/rule_translate.py'
ET = 'compiler/expr_translate.py'
FU = 'compiler/functors.py'
DI = 'compiler/dialects.py'
PA = 'parser_py/parse.py'
INF = 'type_inference/research/infer.py'
RA = 'type_inference/research/reference_algebra.py'
SQ = 'common/sqlite3_logica.py'
CO = 'common/concertina_lib.py'
RL = 'compiler/dialect_libraries/recursion_library.py'
CPP = 'parser_cpp/logica_parse.cpp'

CATALOGUE = []


def M(id, prop, edits, rule=None, note=''):
  CATALOGUE.append(dict(id=id, prop=prop, kind='mutant', edits=edits,
                        rule=rule, note=note))


def T(id, prop, edits, note=''):
  CATALOGUE.append(dict(id=id, prop=prop, kind='twin', edits=edits, note=note))


# ---------------------------------------------------------------- C01
M('c01-drop-u2c', 'C01', [(U, """    s.ElliminateInternalVariables(assert_full_ellimination=True)
    s.UnificationsToConstraints()

    if self.annotations.ShouldTypecheck():""",
   """    s.ElliminateInternalVariables(assert_full_ellimination=True)

    if self.annotations.ShouldTypecheck():""")], 'C01-R1',
  'join conditions lost in SingleRuleSql')
M('c01-u2c-early', 'C01', [(U, """    self.RunInjections(s, allocator)
    s.ElliminateInternalVariables(assert_full_ellimination=True)
    s.UnificationsToConstraints()

    if self.annotations.ShouldTypecheck():""",
   """    s.UnificationsToConstraints()
    self.RunInjections(s, allocator)
    s.ElliminateInternalVariables(assert_full_ellimination=True)

    if self.annotations.ShouldTypecheck():""")], 'C01-R1')
M('c01-elim-partial', 'C01', [(U, """    self.RunInjections(s, allocator)
    s.ElliminateInternalVariables(assert_full_ellimination=True)
    s.UnificationsToConstraints()

    if self.annotations.ShouldTypecheck():""",
   """    self.RunInjections(s, allocator)
    s.ElliminateInternalVariables(assert_full_ellimination=False)
    s.UnificationsToConstraints()

    if self.annotations.ShouldTypecheck():""")], 'C01-R1')
M('c01-inject-unprepared', 'C01', [(U,
   "          rs.ElliminateInternalVariables(assert_full_ellimination=False, unfold_records=False)\n",
   "")], 'C01-R1')
M('c01-union', 'C01', [(U, "' UNION ALL\\n'.join(rules_sql)",
                        "' UNION\\n'.join(rules_sql)")], 'C01-R4')
M('c01-col-prefix', 'C01', [(RT, "    return 'col%d' % logica_field",
                             "    return 'c%d' % logica_field")], 'C01-R3')
M('c01-implication-branch', 'C01', [(ET, "    if 'implication' in expression:\n      implication = expression['implication']",
                                     "    if 'implic' in expression:\n      implication = expression['implication']")], 'C01-R2')
M('c01-value-field', 'C01', [(PA, """  if not operator_str:
    call['record']['field_value'].append({
        'field': 'logica_value',""", """  if not operator_str:
    call['record']['field_value'].append({
        'field': 'value',""")], 'C01-R3')
M('c01-groupby-always', 'C01', [(RT, "      if self.distinct_vars:\n        ordered_distinct_vars",
                                 "      if self.select:\n        ordered_distinct_vars")], 'C01-R4')
M('c01-inclusion-unhandled', 'C01', [(RT, "    elif 'inclusion' in c:\n      ExtractInclusionStructure(c['inclusion'], s)\n", "")], 'C01-R2')
T('c01-twin-union-layout', 'C01', [(U, "' UNION ALL\\n'.join(rules_sql)",
                                    "'\\nUNION  ALL\\n'.join(rules_sql)")])
T('c01-twin-message', 'C01', [(U, "'Single rule is nil for predicate %s. '",
                               "'The only rule is nil for predicate %s. '")])
T('c01-twin-extra-stmt', 'C01', [(U, "    self.RunInjections(s, allocator)\n    s.ElliminateInternalVariables(assert_full_ellimination=True)\n    s.UnificationsToConstraints()\n\n    if self.annotations.ShouldTypecheck():",
                                  "    self.RunInjections(s, allocator)\n    debug_tables = list(s.tables)\n    s.ElliminateInternalVariables(assert_full_ellimination=True)\n    s.UnificationsToConstraints()\n    del debug_tables\n\n    if self.annotations.ShouldTypecheck():")])
T('c01-twin-positional-elim', 'C01', [(U, "    s.ElliminateInternalVariables(assert_full_ellimination=True)\n    s.UnificationsToConstraints()\n\n    if self.annotations.ShouldTypecheck():",
                                       "    s.ElliminateInternalVariables(True)\n    s.UnificationsToConstraints()\n\n    if self.annotations.ShouldTypecheck():")])
