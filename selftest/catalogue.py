"""Mutation catalogue: one-instance breakages (must fire) and benign twins
(must stay silent).  Edits are exact-text replacements applied to a scratch
copy; an edit whose pattern is no longer unique is skipped and counted."""

U = 'compiler/universe.py'
RT = 'compiler/rule_translate.py'
ET = 'compiler/expr_translate.py'
FU = 'compiler/functors.py'
DI = 'compiler/dialects.py'
PA = 'parser_py/parse.py'
INF = 'type_inference/research/infer.py'
RA = 'type_inference/research/reference_algebra.py'
SQ = 'common/sqlite3_logica.py'
CO = 'common/concertina_lib.py'
RL = 'compiler/dialect_libraries/recursion_library.py'
CPP = 'parser_cpp/logica_parse.cpp'

CATALOGUE = []


def M(id, prop, edits, rule=None, note=''):
  CATALOGUE.append(dict(id=id, prop=prop, kind='mutant', edits=edits,
                        rule=rule, note=note))


def T(id, prop, edits, note=''):
  CATALOGUE.append(dict(id=id, prop=prop, kind='twin', edits=edits, note=note))


# ---------------------------------------------------------------- C01
M('c01-drop-u2c', 'C01', [(U, """    s.ElliminateInternalVariables(assert_full_ellimination=True)
    s.UnificationsToConstraints()

    if self.annotations.ShouldTypecheck():""",
   """    s.ElliminateInternalVariables(assert_full_ellimination=True)

    if self.annotations.ShouldTypecheck():""")], 'C01-R1',
  'join conditions lost in SingleRuleSql')
M('c01-u2c-early', 'C01', [(U, """    self.RunInjections(s, allocator)
    s.ElliminateInternalVariables(assert_full_ellimination=True)
    s.UnificationsToConstraints()

    if self.annotations.ShouldTypecheck():""",
   """    s.UnificationsToConstraints()
    self.RunInjections(s, allocator)
    s.ElliminateInternalVariables(assert_full_ellimination=True)

    if self.annotations.ShouldTypecheck():""")], 'C01-R1')
M('c01-elim-partial', 'C01', [(U, """    self.RunInjections(s, allocator)
    s.ElliminateInternalVariables(assert_full_ellimination=True)
    s.UnificationsToConstraints()

    if self.annotations.ShouldTypecheck():""",
   """    self.RunInjections(s, allocator)
    s.ElliminateInternalVariables(assert_full_ellimination=False)
    s.UnificationsToConstraints()

    if self.annotations.ShouldTypecheck():""")], 'C01-R1')
M('c01-inject-unprepared', 'C01', [(U,
   "          rs.ElliminateInternalVariables(assert_full_ellimination=False, unfold_records=False)\n",
   "")], 'C01-R1')
M('c01-union', 'C01', [(U, "' UNION ALL\\n'.join(rules_sql)",
                        "' UNION\\n'.join(rules_sql)")], 'C01-R4')
M('c01-col-prefix', 'C01', [(RT, "    return 'col%d' % logica_field",
                             "    return 'c%d' % logica_field")], 'C01-R3')
M('c01-implication-branch', 'C01', [(ET, "    if 'implication' in expression:\n      implication = expression['implication']",
                                     "    if 'implic' in expression:\n      implication = expression['implication']")], 'C01-R2')
M('c01-value-field', 'C01', [(PA, """  if not operator_str:
    call['record']['field_value'].append({
        'field': 'logica_value',""", """  if not operator_str:
    call['record']['field_value'].append({
        'field': 'value',""")], 'C01-R3')
M('c01-groupby-always', 'C01', [(RT, "      if self.distinct_vars:\n        ordered_distinct_vars",
                                 "      if self.select:\n        ordered_distinct_vars")], 'C01-R4')
M('c01-inclusion-unhandled', 'C01', [(RT, "    elif 'inclusion' in c:\n      ExtractInclusionStructure(c['inclusion'], s)\n", "")], 'C01-R2')
T('c01-twin-union-layout', 'C01', [(U, "' UNION ALL\\n'.join(rules_sql)",
                                    "'\\nUNION  ALL\\n'.join(rules_sql)")])
T('c01-twin-message', 'C01', [(U, "'Single rule is nil for predicate %s. '",
                               "'The only rule is nil for predicate %s. '")])
T('c01-twin-extra-stmt', 'C01', [(U, "    self.RunInjections(s, allocator)\n    s.ElliminateInternalVariables(assert_full_ellimination=True)\n    s.UnificationsToConstraints()\n\n    if self.annotations.ShouldTypecheck():",
                                  "    self.RunInjections(s, allocator)\n    debug_tables = list(s.tables)\n    s.ElliminateInternalVariables(assert_full_ellimination=True)\n    s.UnificationsToConstraints()\n    del debug_tables\n\n    if self.annotations.ShouldTypecheck():")])
T('c01-twin-positional-elim', 'C01', [(U, "    s.ElliminateInternalVariables(assert_full_ellimination=True)\n    s.UnificationsToConstraints()\n\n    if self.annotations.ShouldTypecheck():",
                                       "    s.ElliminateInternalVariables(True)\n    s.UnificationsToConstraints()\n\n    if self.annotations.ShouldTypecheck():")])

# ---------------------------------------------------------------- C18
M('c18-okinj-orderby', 'C18', [(U, "    if (self.OrderBy(predicate_name) or\n        self.LimitOf(predicate_name) is not None or",
                                "    if (self.LimitOf(predicate_name) is not None or")], 'C18-R1')
M('c18-limit-truthy', 'C18', [(U, "    if limit is not None:\n      return ' LIMIT %d' % limit",
                               "    if limit:\n      return ' LIMIT %d' % limit")], 'C18-R3')
M('c18-okinj-limit-truthy', 'C18', [(U, "        self.LimitOf(predicate_name) is not None or",
                                     "        self.LimitOf(predicate_name) or")], 'C18-R3')
M('c18-inject-unguarded', 'C18', [(U, "            ('distinct_denoted' not in rules[0]) and\n            self.annotations.OkInjection(table_predicate_rsql)):",
                                   "            ('distinct_denoted' not in rules[0])):")], 'C18-R1')
M('c18-inject-negated', 'C18', [(U, "            self.annotations.OkInjection(table_predicate_rsql)):",
                                 "            not self.annotations.OkInjection(table_predicate_rsql)):")], 'C18-R1')
M('c18-single-no-limit', 'C18', [(U, "          self.annotations.OrderByClause(name) +\n          self.annotations.LimitClause(name))",
                                  "          self.annotations.OrderByClause(name))")], 'C18-R2')
M('c18-union-swapped', 'C18', [(U, "          self.annotations.OrderByClause(name),\n          self.annotations.LimitClause(name))",
                                "          self.annotations.LimitClause(name),\n          self.annotations.OrderByClause(name))")], 'C18-R2')
M('c18-denotation-key', 'C18', [(PA, "    result['limit_denoted'] = limit_what",
                                 "    result['limit_denotation'] = limit_what")], 'C18-R4')
M('c18-annotation-name', 'C18', [(PA, "('limit_denoted', '@Limit')", "('limit_denoted', '@Limits')")], 'C18-R4')
T('c18-twin-okinj-split', 'C18', [(U, """    if (self.OrderBy(predicate_name) or
        self.LimitOf(predicate_name) is not None or
        self.Ground(predicate_name) or self.NoInject(predicate_name) or
        self.ForceWith(predicate_name)):
      return False
    return True""", """    if self.OrderBy(predicate_name):
      return False
    limit = self.LimitOf(predicate_name)
    if limit is not None:
      return False
    return not (self.Ground(predicate_name) or self.NoInject(predicate_name) or
                self.ForceWith(predicate_name))""")])
T('c18-twin-limit-clause', 'C18', [(U, "    if limit is not None:\n      return ' LIMIT %d' % limit\n    else:\n      return ''",
                                    "    if limit is None:\n      return ''\n    return ' LIMIT ' + str(limit)")])

# ---------------------------------------------------------------- C19
M('c19-no-distinct-check', 'C19', [(U, "    self.CheckDistinctConsistency()\n", "")], 'C19-R2')
M('c19-functor-valueerror', 'C19', [(FU, """    if bad_args:
      raise FunctorError(""", """    if bad_args:
      raise ValueError(""")], None)
M('c19-injected-unassigned-silent', 'C19', [(RT, """          if unassigned_variables:
            raise RuleCompileException(""", """          if unassigned_variables and False:
            raise RuleCompileException(""")], None, 'not detectable: guard weakened with a constant')
M('c19-cli-no-functor-handler', 'C19', [('logica.py', """    except functors.FunctorError as functor_exception:
      functor_exception.ShowMessage()
      sys.exit(1)
""", "")], 'C19-R3')
M('c19-unmatched-ignored', 'C19', [(PA, """    if status == 'Unmatched':
      raise ParsingException('Parenthesis matches nothing.', s[idx:idx+1])
    elif status == 'EOL in string':""", """    if status == 'Unmatched':
      break
    elif status == 'EOL in string':""")], 'C19-R1')
M('c19-swallow-makes', 'C19', [(U, """    self.functors = functors.Functors(rules)
    self.functors.MakeAll(list(self.annotations.annotations['@Make'].items()))
    return self.functors.extended_rules""", """    self.functors = functors.Functors(rules)
    try:
      self.functors.MakeAll(list(self.annotations.annotations['@Make'].items()))
    except Exception:
      pass
    return self.functors.extended_rules""")], 'C19-R3')
M('c19-coherence-second-path', 'C19', [(PA, """        'value': {'expression': ParseExpression(expression_str)}
    })
    CheckAggregationCoherence(call)
    return (call, False)""", """        'value': {'expression': ParseExpression(expression_str)}
    })
    return (call, False)""")], 'C19-R2')
M('c19-annotated-objects-unchecked', 'C19', [(U, "    self.CheckAnnotatedObjects(rules)\n", "")], 'C19-R2')
M('c19-nil-not-diagnosed', 'C19', [(U, """      if must_not_be_nil:
        raise rule_translate.RuleCompileException(
          'Single rule is nil for predicate %s. '""", """      if must_not_be_nil:
        raise AssertionError(
          'Single rule is nil for predicate %s. '""")], None)
T('c19-twin-messages', 'C19', [(FU, "'Could not resolve Make order.'", "'Make order could not be resolved.'"),
                               (PA, "'Parenthesis matches nothing.', s[idx:idx+1])\n    elif status == 'EOL in string':",
                                "'A parenthesis matches nothing.', s[idx:idx+1])\n    elif status == 'EOL in string':")])
T('c19-twin-handler-order', 'C19', [('logica.py', """    except rule_translate.RuleCompileException as rule_compilation_exception:
      rule_compilation_exception.ShowMessage()
      sys.exit(1)
    except functors.FunctorError as functor_exception:
      functor_exception.ShowMessage()
      sys.exit(1)
""", """    except functors.FunctorError as functor_exception:
      functor_exception.ShowMessage()
      sys.exit(1)
    except rule_translate.RuleCompileException as rule_compilation_exception:
      rule_compilation_exception.ShowMessage()
      sys.exit(2)
""")])

# ---------------------------------------------------------------- C05
M('c05-print-mode', 'C05', [(U, "    type_error_checker.CheckForError(mode='raise')", "    type_error_checker.CheckForError(mode='print')")], 'C05-R1')
M('c05-no-structure-check', 'C05', [(U, "      error_checker.CheckForError('raise')\n", "")], 'C05-R1')
M('c05-otherwise-unvisited', 'C05', [(INF, "          'condition', 'consequence', 'otherwise']", "          'condition', 'consequence']")], 'C05-R2')
M('c05-inclusion-pass-dropped', 'C05', [(INF, "    Walk(self.rule, self.ActMindingInclusion)\n", "")], 'C05-R2')
M('c05-pod-swap', 'C05', [(INF, "reference_algebra.Unify(e['type']['the_type'], reference_algebra.TypeReference('Num'))",
                           "reference_algebra.Unify(e['type']['the_type'], reference_algebra.TypeReference('Str'))")], 'C05-R4')
M('c05-raise-to-print', 'C05', [(INF, "        raise TypeErrorCaughtException(self.found_error.NiceMessage())\n      else:\n        assert False",
                                 "        print(self.found_error.NiceMessage())\n      else:\n        assert False")], 'C05-R1')
M('c05-ungated-init', 'C05', [(U, "    if self.annotations.ShouldTypecheck():\n      self.typing_preamble = self.RunTypechecker()",
                               "    if self.annotations.Engine() == 'psql':\n      self.typing_preamble = self.RunTypechecker()")], 'C05-R3')
M('c05-check-other-rules', 'C05', [(U, "    type_error_checker = infer.TypeErrorChecker(rules)", "    type_error_checker = infer.TypeErrorChecker(rules[:1])")], 'C05-R1')
T('c05-twin-rename', 'C05', [(U, "    type_error_checker = infer.TypeErrorChecker(rules)\n    type_error_checker.CheckForError(mode='raise')",
                              "    checker = infer.TypeErrorChecker(rules)\n    checker.CheckForError('raise')")])
T('c05-twin-fields-tuple', 'C05', [(INF, "  return ['expression', 'left_hand_side', 'right_hand_side',\n          'condition', 'consequence', 'otherwise']",
                                    "  return ('otherwise', 'expression', 'left_hand_side', 'right_hand_side',\n          'condition', 'consequence')")])

# ---------------------------------------------------------------- C14
M('c14-edge-after-early-return', 'C14', [(U, """    if edge_needed:
      self.execution.dependency_edges.append((
          table,
          self.execution.workflow_predicates_stack[-1]))
    if table in self.execution.table_to_defined_table_map:
      return self.execution.table_to_defined_table_map[table]
""", """    if table in self.execution.table_to_defined_table_map:
      return self.execution.table_to_defined_table_map[table]
    if edge_needed:
      self.execution.dependency_edges.append((
          table,
          self.execution.workflow_predicates_stack[-1]))
""")], 'C14-R1', 'second reader of a grounded table gets no edge')
M('c14-edge-reversed', 'C14', [(U, """      self.execution.dependency_edges.append((
          table,
          self.execution.workflow_predicates_stack[-1]))""", """      self.execution.dependency_edges.append((
          self.execution.workflow_predicates_stack[-1],
          table))""")], 'C14-R1')
M('c14-no-pop', 'C14', [(U, "      self.execution.workflow_predicates_stack.pop()\n", "")], 'C14-R2')
M('c14-no-increment', 'C14', [(CO, "    self.action_iterations_complete[one_action] += 1\n", "")], 'C14-R3')
M('c14-off-by-one', 'C14', [(CO, "    if (self.action_iterations_complete[one_action] >=\n        self.iteration_repetitions",
                             "    if (self.action_iterations_complete[one_action] >\n        self.iteration_repetitions")], 'C14-R3')
M('c14-executor-direction', 'C14', [(CO, "      depends_on[target] = depends_on.get(target, set()) | {source}",
                                     "      depends_on[source] = depends_on.get(source, set()) | {target}")], 'C14-R1')
M('c14-no-data-edge', 'C14', [(U, """    self.execution.data_dependency_edges.append((
      table,
      self.execution.workflow_predicates_stack[-1]))
""", "")], 'C14-R1')
M('c14-requeue-all', 'C14', [(CO, """    if one_action not in self.action_iterations_complete:
      self.complete_actions |= {one_action}
    else:
      self.UpdateStateForIterativeAction(one_action)""", """    if one_action not in self.action_iterations_complete:
      self.complete_actions |= {one_action}
    self.UpdateStateForIterativeAction(one_action)""")], 'C14-R3')
M('c14-schedule-unready', 'C14', [(CO, "        if complete >= set(self.action_requires[a]):\n          result.append(a)",
                                   "        if True:\n          result.append(a)")], 'C14-R2')
T('c14-twin-rename-loop-vars', 'C14', [(CO, "    for source, target in dependency_edges | data_dependency_edges:\n      depends_on[target] = depends_on.get(target, set()) | {source}",
                                        "    for src, dst in dependency_edges | data_dependency_edges:\n      depends_on[dst] = depends_on.get(dst, set()) | {src}")])
T('c14-twin-lt', 'C14', [(CO, """    if (self.action_iterations_complete[one_action] >=
        self.iteration_repetitions[self.action_iteration[one_action]]):
      self.complete_actions |= {one_action}
    elif""", """    if not (self.action_iterations_complete[one_action] <
            self.iteration_repetitions[self.action_iteration[one_action]]):
      self.complete_actions |= {one_action}
    elif""")])

# ---------------------------------------------------------------- C09
M('c09-subscript-arity', 'C09', [(DI, "    def Subscript(self, record, subscript, record_is_table):\n        return '%s.%s' % (record, subscript)",
                                  "    def Subscript(self, record, subscript):\n        return '%s.%s' % (record, subscript)")], 'C09-R1')
M('c09-missing-method', 'C09', [(DI, """  def ArrayPhrase(self):
    return 'ARRAY[%s]'

  def GroupBySpecBy(self):
    return 'index'

  def DecorateCombineRule(self, rule, var):
    return rule

def DecorateCombineRule(rule, var):""", """  def ArrayPhrase(self):
    return 'ARRAY[%s]'

  def DecorateCombineRule(self, rule, var):
    return rule

def DecorateCombineRule(rule, var):""")], 'C09-R1', 'Presto loses GroupBySpecBy')
M('c09-template-brace', 'C09', [(DI, "        'Size': 'JSON_ARRAY_LENGTH({0})',", "        'Size': 'JSON_ARRAY_LENGTH({0)',")], 'C09-R2')
M('c09-template-named', 'C09', [(DI, "          'Size': 'LEN({0})',", "          'Size': 'LEN({list})',")], 'C09-R2')
M('c09-infix-three', 'C09', [(DI, "        'in': 'IN_LIST(%s, %s)'", "        'in': 'IN_LIST(%s, %s, %s)'")], 'C09-R2')
M('c09-percent-raw', 'C09', [(DI, "        '%' : '(%s) %% (%s)',\n        'in': 'IN_LIST(%s, %s)'", "        '%' : '(%s) % (%s)',\n        'in': 'IN_LIST(%s, %s)'")], 'C09-R2')
M('c09-unused-leak', 'C09', [(ET, "      if call['predicate_name'] == 'TypeRepr':\n        return self.TypeReprLiteral(expression)\n", "")], 'C09-R4')
M('c09-with-order', 'C09', [(U, """    parent_table = self.execution.workflow_predicates_stack[-1]
    if table not in self.execution.table_to_defined_table_map:""", """    parent_table = self.execution.workflow_predicates_stack[-1]
    if table not in self.execution.table_to_with_dependencies[parent_table]:
      self.execution.table_to_with_dependencies[parent_table].append(table)
    if table not in self.execution.table_to_defined_table_map:""")], 'C09-R5')
M('c09-with-reversed', 'C09', [(U, "    for dependency in dependencies:\n      table_name = self.execution.table_to_defined_table_map[dependency]",
                                "    for dependency in reversed(dependencies):\n      table_name = self.execution.table_to_defined_table_map[dependency]")], 'C09-R5')
M('c09-indexerror-internal', 'C09', [(ET, """      try:
        return f.format(*args_list)
      except IndexError:""", """      try:
        return f.format(*args_list)
      except ZeroDivisionError:""")], 'C09-R2')
M('c09-unnest-three', 'C09', [(DI, "    return 'JSON_EACH({0}) as {1}'", "    return 'JSON_EACH({0}) as {2}'")], 'C09-R2')
T('c09-twin-dead-entry', 'C09', [(DI, "        'Set': 'DistinctListAgg({0})',", "        'Set': 'DistinctListAgg({0})',\n        'IsNullish': '({0} IS NULL)',")], 'entry unreachable through the generic loop (not a BasisFunction): information only')
T('c09-twin-format-style', 'C09', [(DI, "        'ToString': 'CAST(%s AS TEXT)',\n        'DateAddDay': \"DATE({0}, {1} || ' days')\",\n        'DateDiffDay': \"CAST(JULIANDAY({0}) - JULIANDAY({1}) AS INT64)\"\n    }\n\n  def DecorateCombineRule",
                                    "        'ToString': 'CAST({0} AS TEXT)',\n        'DateAddDay': \"DATE({0}, {1} || ' days')\",\n        'DateDiffDay': \"CAST(JULIANDAY({0}) - JULIANDAY({1}) AS INT64)\"\n    }\n\n  def DecorateCombineRule")])
T('c09-twin-kw-call', 'C09', [(ET, "    return self.dialect.Subscript(record, subscript, record_is_table)",
                               "    return self.dialect.Subscript(record, subscript, record_is_table=record_is_table)")])

# ---------------------------------------------------------------- C13
M('c13-closure-set', 'C13', [(U, "        iteration_predicates = iteration['predicates']\n", "        iteration_predicates = set(iteration['predicates'])\n")], 'C13-R1')
M('c13-recursive-analysis-unsorted', 'C13', [(FU, "    for p, args in sorted(self.args_of.items()):", "    for p, args in self.args_of.items():")], 'C13-R1')
M('c13-semigroups-list', 'C13', [(U, "    needed_udfs = sorted(needed_semigroups) + needed_udfs", "    needed_udfs = list(needed_semigroups) + needed_udfs")], 'C13-R1')
M('c13-sticky-switch', 'C13', [(PA, "    TOO_MUCH = 'fun'\n  else:\n    TOO_MUCH = 'too much'\n", "    TOO_MUCH = 'fun'\n")], 'C13-R2')
M('c13-callfunctor-unsorted', 'C13', [(FU, "    for r in sorted(rules, key=str):", "    for r in rules:")], 'C13-R1')
M('c13-makeall-unsorted', 'C13', [(FU, "      for (new_predicate, instruction) in sorted(predicate_to_instruction):", "      for (new_predicate, instruction) in predicate_to_instruction:")], 'C13-R1')
M('c13-time-in-table-name', 'C13', [(RT, "      t = 't_%d%s' % (self.table_num, suffix)", "      import time\n      t = 't_%d%s' % (int(time.time()) % 1000 + self.table_num, suffix)")], 'C13-R3')
M('c13-no-deepcopy-structure', 'C13', [(RT, "  rule = copy.deepcopy(rule)\n  # Not disambiguating", "  rule = dict(rule)\n  # Not disambiguating")], 'C13-R4')
M('c13-shared-infix-table', 'C13', [(ET, "    self.built_in_infix_operators = copy.deepcopy(\n        self.BUILT_IN_INFIX_OPERATORS)", "    self.built_in_infix_operators = (\n        self.BUILT_IN_INFIX_OPERATORS)")], 'C13-R4')
M('c13-new-set-emission', 'C13', [(U, "    for rule in extended_rules:\n      predicate_name = rule['head']['predicate_name']\n      self.defined_predicates.add(predicate_name)\n      self.rules.append((predicate_name, rule))",
                                   "    for rule in extended_rules:\n      predicate_name = rule['head']['predicate_name']\n      self.defined_predicates.add(predicate_name)\n    for predicate_name in self.defined_predicates:\n      for rule in extended_rules:\n        if rule['head']['predicate_name'] == predicate_name:\n          self.rules.append((predicate_name, rule))")], 'C13-R1')
M('c13-class-table-mutated', 'C13', [(ET, "    self.CleanOperatorsAndFunctions()\n    self.exception_maker = exception_maker", "    self.CleanOperatorsAndFunctions()\n    QL.ANALYTIC_FUNCTIONS['Cumulative' + self.dialect.Name()] = 'SUM({0})'\n    self.exception_maker = exception_maker")], 'C13-R2')
M('c13-unfold-in-place', 'C13', [(FU, "    new_rules = copy.deepcopy(self.rules)\n    for p, style in should_recurse.items():", "    new_rules = self.rules\n    for p, style in should_recurse.items():")], 'C13-R4')
T('c13-twin-sorted-predicates', 'C13', [(FU, "    for p in self.predicates:\n      self.ArgsOf(p)\n\n  def GetConstantFunction", "    for p in sorted(self.predicates):\n      self.ArgsOf(p)\n\n  def GetConstantFunction")])
T('c13-twin-set-loop-benign', 'C13', [(U, "    self.CheckDistinctConsistency()\n", "    self.CheckDistinctConsistency()\n    at_predicates = set()\n    for p in self.defined_predicates:\n      if p.startswith('@'):\n        at_predicates.add(p)\n    del at_predicates\n")])
T('c13-twin-sorted-list', 'C13', [(U, "    self.dollar_params = list(self.ExtractDollarParams(rules))", "    self.dollar_params = sorted(self.ExtractDollarParams(rules))")])

# ---------------------------------------------------------------- C16
M('c16-no-swap', 'C16', [(RA, "  if Rank(concrete_a) > Rank(concrete_b):\n    a, b = b, a\n    concrete_a, concrete_b = concrete_b, concrete_a\n", "")], 'C16-R1')
M('c16-half-swap', 'C16', [(RA, "    a, b = b, a\n    concrete_a, concrete_b = concrete_b, concrete_a\n", "    concrete_a, concrete_b = concrete_b, concrete_a\n")], 'C16-R1')
M('c16-sequential-num', 'C16', [(RA, "    if concrete_b in ('Str', 'Sequential') or isinstance(concrete_b, list):", "    if concrete_b in ('Str', 'Sequential', 'Num') or isinstance(concrete_b, list):")], 'C16-R1')
M('c16-closed-closed-always', 'C16', [(RA, "      if set(concrete_a) == set(concrete_b):\n        UnifyFriendlyRecords(a, b, ClosedRecord)\n        return", "      if True:\n        UnifyFriendlyRecords(a, b, ClosedRecord)\n        return")], 'C16-R1')
M('c16-bad-not-absorbing', 'C16', [(RA, "  if isinstance(concrete_a, BadType) or isinstance(concrete_b, BadType):\n    return  # Do nothing.\n", "  if isinstance(concrete_a, BadType):\n    return  # Do nothing.\n")], 'C16-R1')
M('c16-singular-sequential', 'C16', [(RA, "      a.target = b\n      b.target = 'Str'\n      return", "      a.target = b\n      return")], 'C16-R1')
M('c16-rank-duplicate', 'C16', [(RA, "  if x == 'Bool':\n    return 5", "  if x == 'Bool':\n    return 4")], 'C16-R1')
M('c16-ground-no-clash', 'C16', [(RA, "    if concrete_a == concrete_b:\n      return  # It's all fine.", "    if concrete_a == concrete_b or concrete_b == 'Time':\n      return  # It's all fine.")], 'C16-R1')
M('c16-merge-one-side', 'C16', [(RA, "  for f in set(concrete_a) | set(concrete_b):", "  for f in set(concrete_a):")], 'C16-R2')
M('c16-identity-before-compress', 'C16', [(RA, """  while a.WeMustGoDeeper():
    a = a.target
  while b.WeMustGoDeeper():
    b = b.target
  if original_a != a:
    original_a.target = a
  if original_b != b:
    original_b.target = b
  if id(a) == id(b):
    return""", """  if id(a) == id(b):
    return
  while a.WeMustGoDeeper():
    a = a.target
  while b.WeMustGoDeeper():
    b = b.target
  if original_a != a:
    original_a.target = a
  if original_b != b:
    original_b.target = b""")], 'C16-R3')
M('c16-open-closed-no-subset', 'C16', [(RA, "      if set(concrete_a) <= set(concrete_b):\n        UnifyFriendlyRecords(a, b, ClosedRecord)\n        return", "      if True:\n        UnifyFriendlyRecords(a, b, ClosedRecord)\n        return")], 'C16-R1')
T('c16-twin-branch-order', 'C16', [(RA, """  if concrete_a == 'Any':
    a.target = b
    return
  
  if concrete_a == 'Singular':""", """  if concrete_a == 'Any':
    a.target = b
    return
  if concrete_a in ('Num', 'Str', 'Bool', 'Time') and concrete_a == concrete_b:
    return

  if concrete_a == 'Singular':""")])
T('c16-twin-rank-renumber', 'C16', [(RA, "  if isinstance(x, ClosedRecord):\n    return 9", "  if isinstance(x, ClosedRecord):\n    return 19")])

# ---------------------------------------------------------------- C10
M('c10-clickhouse-standard', 'C10', [(ET, """    if self.dialect.Name() in ["ClickHouse"]:
      # ClickHouse treats backslash as an escape character inside '...'.
      return '\\'%s\\'' % (
          literal['the_string']
          .replace('\\\\', '\\\\\\\\')
          .replace("'", "\\\\'"))
    if self.dialect.Name() in ["PostgreSQL", "Presto", "Trino", "SqLite"]:""",
   """    if self.dialect.Name() in ["PostgreSQL", "Presto", "Trino", "SqLite", "ClickHouse"]:""")], 'C10-R1')
M('c10-duckdb-no-backslash', 'C10', [(ET, "          literal['the_string']\n          .replace('\\\\', '\\\\\\\\')\n          .replace(\"'\", \"''\")\n          .replace('\\t', r'\\t')",
                                      "          literal['the_string']\n          .replace(\"'\", \"''\")\n          .replace('\\t', r'\\t')")], 'C10-R1')
M('c10-duckdb-wrong-order', 'C10', [(ET, "          .replace('\\\\', '\\\\\\\\')\n          .replace(\"'\", \"''\")\n          .replace('\\t', r'\\t')",
                                     "          .replace(\"'\", \"\\\\'\")\n          .replace('\\\\', '\\\\\\\\')\n          .replace('\\t', r'\\t')")], 'C10-R1')
M('c10-sqlite-json', 'C10', [(ET, '    if self.dialect.Name() in ["PostgreSQL", "Presto", "Trino", "SqLite"]:', '    if self.dialect.Name() in ["PostgreSQL", "Presto", "Trino"]:')], 'C10-R1')
M('c10-bigquery-raw', 'C10', [(ET, "    return json.dumps(literal['the_string'], ensure_ascii=False)", "    return '\"%s\"' % literal['the_string']")], 'C10-R1')
M('c10-flag-raw', 'C10', [(ET, "        return self.StrLiteral(\n            {'the_string': self.flag_values[flag]})", "        return \"'%s'\" % self.flag_values[flag]")], 'C10-R2')
M('c10-flag-order', 'C10', [(U, "    flag_values.update(**programmatic_flag_values)\n    flag_values.update(**self.user_flags)", "    flag_values.update(**self.user_flags)\n    flag_values.update(**programmatic_flag_values)")], 'C10-R4')
M('c10-unbounded-substitution', 'C10', [(U, "      if num_subs > 100:\n        raise rule_translate.RuleCompileException(", "      if False:\n        raise rule_translate.RuleCompileException(")], 'C10-R4')
M('c10-sql-as-template', 'C10', [(U, "    formatted_sql = (\n        self.execution.flags_comment +\n        defines_and_exports +\n        FormatSql(sql))", "    formatted_sql = (\n        self.execution.flags_comment +\n        defines_and_exports + '%s') % FormatSql(sql)")], 'C10-R3')
M('c10-literal-bypass', 'C10', [(ET, "      if 'the_string' in literal:\n        return self.StrLiteral(literal['the_string'])", "      if 'the_string' in literal:\n        return \"'%s'\" % literal['the_string']['the_string']")], 'C10-R2')
T('c10-twin-duckdb-extra', 'C10', [(ET, "          .replace('\\n', r'\\n'))", "          .replace('\\n', r'\\n')\n          .replace('\\r', r'\\r'))")])
T('c10-twin-standard-refactor', 'C10', [(ET, "      return '\\'%s\\'' % (literal['the_string'].replace(\"'\", \"''\"))", "      return \"'\" + literal['the_string'].replace(\"'\", \"''\") + \"'\"")])

# ---------------------------------------------------------------- C02
M('c02-no-disambiguation', 'C02', [(RT, "  if rule['head']['predicate_name'] != 'Combine':\n    DisambiguateCombineVariables(rule, names_allocator)\n", "")], 'C02-R1')
M('c02-disambiguation-late', 'C02', [(RT, "  if rule['head']['predicate_name'] != 'Combine':\n    DisambiguateCombineVariables(rule, names_allocator)\n  s = RuleStructure(names_allocator, external_vocabulary)\n  InlinePredicateValues(rule, names_allocator)\n",
                                      "  s = RuleStructure(names_allocator, external_vocabulary)\n  InlinePredicateValues(rule, names_allocator)\n  if rule['head']['predicate_name'] != 'Combine':\n    DisambiguateCombineVariables(rule, names_allocator)\n")], 'C02-R1')
M('c02-combine-no-vocabulary', 'C02', [(ET, "              expression['combine'],\n              self.vocabulary,\n              is_combine=True))", "              expression['combine'],\n              {},\n              is_combine=True))")], 'C02-R2')
M('c02-combine-not-marked', 'C02', [(ET, "              self.vocabulary,\n              is_combine=True))", "              self.vocabulary,\n              is_combine=False))")], 'C02-R2')
M('c02-tables-full-vocabulary', 'C02', [(RT, "          sql = subquery_encoder.TranslateTable(v, self.external_vocabulary)", "          sql = subquery_encoder.TranslateTable(v, self.VarsVocabulary())")], 'C02-R2')
M('c02-groupby-all-keys', 'C02', [(RT, "        list(set(s.select.keys()) - set(aggregated_vars)), key=str)", "        list(set(s.select.keys())), key=str)")], 'C02-R3')
M('c02-unknown-groupby-mode', 'C02', [(DI, "  def ArrayPhrase(self):\n    return 'ARRAY[%s]'\n\n  def GroupBySpecBy(self):\n    return 'index'\n\n  def DecorateCombineRule(self, rule, var):\n    return rule\n\n\nclass ClickHouseDialect",
                                       "  def ArrayPhrase(self):\n    return 'ARRAY[%s]'\n\n  def GroupBySpecBy(self):\n    return 'position'\n\n  def DecorateCombineRule(self, rule, var):\n    return rule\n\n\nclass ClickHouseDialect")], 'C02-R3')
M('c02-agg-operator', 'C02', [(PA, "    if raw_operator == '+':\n      return 'Agg+'", "    if raw_operator == '+':\n      return 'AggSum'")], 'C02-R4')
M('c02-split-drops-heritage', 'C02', [(PA, "                    },\n                    'expression_heritage': field_value['value']['aggregation']['expression_heritage']\n", "                    }\n")], 'C02-R4')
M('c02-forward-swapped', 'C02', [(U, "    return self.program.SingleRuleSql(\n      rule, self.allocator, external_vocabulary,\n      is_combine=is_combine)", "    return self.program.SingleRuleSql(\n      rule, self.allocator, external_vocabulary)")], 'C02-R2')
T('c02-twin-negation-max', 'C02', [(PA, "                                                  'operator': 'Min',", "                                                  'operator': 'Max',")])
T('c02-twin-kw-forward', 'C02', [(U, "      rule, self.allocator, external_vocabulary,\n      is_combine=is_combine)", "      rule, allocator=self.allocator,\n      external_vocabulary=external_vocabulary,\n      is_combine=is_combine)")])

# ---------------------------------------------------------------- C04
M('c04-shared-rules', 'C04', [(FU, "        result.extend(self.rules_of[f])\n    return copy.deepcopy(result)", "        result.extend(self.rules_of[f])\n    return result")], 'C04-R1')
M('c04-annotations-shared', 'C04', [(FU, "          result.append(rule)\n    return copy.deepcopy(result)", "          result.append(rule)\n    return result")], 'C04-R1')
M('c04-key-without-values', 'C04', [(FU, "    args = ','.join('%s: %s' % (k, v) for k, v in sorted(relevant_args.items()))", "    args = ','.join('%s' % k for k, v in sorted(relevant_args.items()))")], 'C04-R2')
M('c04-key-without-functor', 'C04', [(FU, "    result = '%s(%s)' % (functor, args)\n    return result", "    result = '(%s)' % (args)\n    return result")], 'C04-R2')
M('c04-key-unsorted', 'C04', [(FU, "for k, v in sorted(relevant_args.items()))", "for k, v in relevant_args.items())")], 'C04-R2')
M('c04-cache-by-name', 'C04', [(FU, "        if call_key in self.cached_calls:\n          new_predicate_name = self.cached_calls[call_key]", "        if rule_predicate_name in self.cached_calls:\n          new_predicate_name = self.cached_calls[rule_predicate_name]")], 'C04-R2')
M('c04-make-before-args', 'C04', [(FU, "            (self.args_of[applicant] & needs_building) or\n            (set(args_map.values()) & needs_building)):", "            (self.args_of[applicant] & needs_building)):")], 'C04-R3')
M('c04-no-structure-update', 'C04', [(FU, "    self.extended_rules.extend(rules)\n    self.UpdateStructure(name)", "    self.extended_rules.extend(rules)")], 'C04-R1')
M('c04-bad-args-accepted', 'C04', [(FU, "    bad_args = set(args_map.keys()) - set(self.args_of[applicant])\n    if bad_args:", "    bad_args = set(args_map.keys()) - set(self.args_of[applicant])\n    if False:")], None)
T('c04-twin-key-format', 'C04', [(FU, "    args = ','.join('%s: %s' % (k, v) for k, v in sorted(relevant_args.items()))", "    args = ';'.join('{}={}'.format(k, v) for k, v in sorted(relevant_args.items()))")])
T('c04-twin-make-guard-split', 'C04', [(FU, """        if (new_predicate not in needs_building or
            applicant in needs_building or
            (self.args_of[applicant] & needs_building) or
            (set(args_map.values()) & needs_building)):
          continue""", """        if new_predicate not in needs_building or applicant in needs_building:
          continue
        if (self.args_of[applicant] & needs_building):
          continue
        if (set(args_map.values()) & needs_building):
          continue""")])

# ---------------------------------------------------------------- C07 / C20
M('c07-set-unsorted', 'C07', [(SQ, "    return json.dumps(sorted(\n        self.result, key=lambda x: (x is None, DeFactoType(x), x)))", "    return json.dumps(list(self.result))")], 'C07-R1')
M('c07-set-type-key-only', 'C07', [(SQ, "key=lambda x: (x is None, DeFactoType(x), x)))", "key=lambda x: (x is None, DeFactoType(x))))")], 'C07-R1')
M('c07-argmin-unsorted', 'C07', [(SQ, "    return json.dumps([x[1] for x in sorted(self.result)])", "    return json.dumps([x[1] for x in self.result])")], 'C07-R1')
M('c07-unnesting-order', 'C07', [(RT, "      for v, u in sorted(unnesting_of.items()):", "      for v, u in unnesting_of.items():")], 'C07-R2')
T('c07-twin-argmax-sort-reverse', 'C07', [(SQ, "      return json.dumps([x[1] for x in reversed(sorted(self.result))])", "      return json.dumps([x[1] for x in sorted(self.result, reverse=True)])")])
M('c20-unregistered-function', 'C20', [(DI, "        'Sort': 'SortList({0})',\n        'MagicalEntangle': 'MagicalEntangle({0}, {1})',\n        'Format': 'Printf(%s)',\n        'Least': 'MIN(%s)',", "        'Sort': 'SORT_LIST({0})',\n        'MagicalEntangle': 'MagicalEntangle({0}, {1})',\n        'Format': 'Printf(%s)',\n        'Least': 'MIN(%s)',")], 'C20-R1')
M('c20-registration-renamed', 'C20', [(SQ, "  con.create_function('IN_LIST', 2, InList)", "  con.create_function('INLIST', 2, InList)")], 'C20-R1')
M('c20-registration-arity', 'C20', [(SQ, "  con.create_function('JOIN_STRINGS', 2, Join)", "  con.create_function('JOIN_STRINGS', 1, Join)")], 'C20-R1')
M('c20-aggregate-arity', 'C20', [(SQ, "  con.create_aggregate('ArgMin', 3, ArgMin)", "  con.create_aggregate('ArgMin', 2, ArgMin)")], 'C20-R1')
M('c20-sqlexpr-placeholder', 'C20', [('compiler/dialect_libraries/sqlite_library.py', 'SqlExpr("ArgMax({a}, {v}, {k})", {a:, v:, k:})', 'SqlExpr("ArgMax({a}, {v}, {lim})", {a:, v:, k:})')], 'C20-R2')
M('c20-set-as-scalar', 'C20', [(SQ, "  con.create_aggregate('DistinctListAgg', 1, DistinctListAgg)", "  con.create_function('DistinctListAgg', 1, DistinctListAgg)")], 'C20-R1')
T('c20-twin-case', 'C20', [(DI, "        'Sort': 'SortList({0})',\n        'MagicalEntangle': 'MagicalEntangle({0}, {1})',\n        'Format': 'Printf(%s)',\n        'Least': 'MIN(%s)',", "        'Sort': 'SORTLIST({0})',\n        'MagicalEntangle': 'MagicalEntangle({0}, {1})',\n        'Format': 'Printf(%s)',\n        'Least': 'MIN(%s)',")])

# ---------------------------------------------------------------- C11
M('c11-databricks-no-eq', 'C11', [('compiler/dialect_libraries/databricks_library.py', "`=`(left:, right:) = right :- left == right;\n", "")], 'C11-R3')
M('c11-eq-definition-differs', 'C11', [('compiler/dialect_libraries/trino_library.py', "`=`(left:, right:) = right :- left == right;", "`=`(left:, right:) = left :- left == right;")], 'C11-R3')
M('c11-ultra-concise-own-tree', 'C11', [(PA, "    return BuildTreeForCombine(parsed_expression, aggregating_function, parsed_body, s)", "    return {'head': {'predicate_name': 'Combine', 'record': {'field_value': [{'field': 'logica_value', 'value': {'aggregation': {'operator': aggregating_function, 'argument': parsed_expression}}}]}}, 'full_text': s}")], 'C11-R1')
M('c11-negation-not-distinct', 'C11', [(PA, "                              'body': negated_proposition,\n                              'distinct_denoted': True,\n", "                              'body': negated_proposition,\n")], 'C11-R1')
M('c11-head-agg-not-distinct', 'C11', [(PA, "    if is_distinct:\n      result['distinct_denoted'] = True", "    if is_distinct and False:\n      result['distinct_denoted'] = True")], None)
M('c11-shorthand-field', 'C11', [(PA, "        if not value:\n          value = field\n", "        if not value:\n          value = '_' + field\n")], 'C11-R2')
M('c11-implication-flat', 'C11', [(PA, "  conjuncts += [NegationTree(consequence_str, EnsureConjunction(consequence))]", "  conjuncts += [EnsureConjunction(consequence)]")], 'C11-R2')
M('c11-head-value-shape', 'C11', [(PA, "        'field': 'logica_value',\n        'value': {'expression': ParseExpression(expression_str)}\n    })", "        'field': 'logica_value',\n        'value': {'expr': ParseExpression(expression_str)}\n    })")], 'C11-R1')
T('c11-twin-library-layout', 'C11', [('compiler/dialect_libraries/trino_library.py', "`=`(left:, right:) = right :- left == right;", "`=`(left:, right:) = right :-\n    left == right;  # assignment operator")])

# ---------------------------------------------------------------- C12
M('c12-dead-prefix-loop', 'C12', [(PA, "      assert idx >= -len(parts), (", "      assert idx > 0, (")], 'C12-R1')
M('c12-prefix-skips-root', 'C12', [(PA, "      assert idx >= -len(parts), (", "      assert idx > -len(parts), (")], 'C12-R1')
M('c12-marker-late', 'C12', [(PA, "  parsed_imports[file_import_str] = None\n  if isinstance(import_root, str):", "  if isinstance(import_root, str):")], 'C12-R2')
M('c12-marker-not-replaced', 'C12', [(PA, "  parsed_imports[file_import_str] = parsed_file\n  return parsed_file", "  return parsed_file")], 'C12-R2')
M('c12-circular-silent', 'C12', [(PA, "    if parsed_imports[file_import_str] is None:\n      raise ParsingException(\n          'Circular imports", "    if parsed_imports[file_import_str] is None and False:\n      raise ParsingException(\n          'Circular imports")], 'C12-R2')
M('c12-made-not-renamed', 'C12', [(PA, "    for p in DefinedPredicates(rules) | MadePredicates(rules):\n      if p[0] != '@' and p != '++?':", "    for p in DefinedPredicates(rules):\n      if p[0] != '@' and p != '++?':")], 'C12-R3')
M('c12-import-own-prefix', 'C12', [(PA, "                                   import_prefix + imported_predicate_name)\n    if (import_prefix +", "                                   this_file_prefix + imported_predicate_name)\n    if (import_prefix +")], 'C12-R3')
M('c12-unused-import-ok', 'C12', [(PA, "    if not rename_count:\n      raise ParsingException(", "    if not rename_count and False:\n      raise ParsingException(")], 'C12-R4')
M('c12-override-accepted', 'C12', [(PA, "      if any(p[0] != '@' for p in defined_predicates & new_predicates):\n        raise ParsingException(", "      if any(p[0] != '@' for p in defined_predicates & new_predicates):\n        print(")], 'C12-R4')
T('c12-twin-guard-form', 'C12', [(PA, "      assert idx >= -len(parts), (", "      assert -idx <= len(parts), (")])
T('c12-twin-positive-index', 'C12', [(PA, "    idx = -1\n    this_file_prefix = parts[idx].capitalize() + '_'", "    idx = -1\n    unused_marker = 0\n    this_file_prefix = parts[idx].capitalize() + '_'")])

# ---------------------------------------------------------------- C17
M('c17-empty-drop', 'C17', [(U, """      maybe_drop_table = (
          'DROP TABLE IF EXISTS %s%s;\\n' % (
              ground.table_name,
              self.execution.dialect.MaybeCascadingDeletionWord())
          if ground.overwrite else '')""", """      maybe_drop_table = (
          'DROP TABLE IF EXISTS %s%s;\\n' % ((
              ground.table_name if ground.overwrite else '',
              self.execution.dialect.MaybeCascadingDeletionWord())))""")], 'C17-R2')
M('c17-no-drop', 'C17', [(U, "        export_statement = maybe_drop_table + create_statement + maybe_copy", "        export_statement = create_statement + maybe_copy")], 'C17-R2')
M('c17-duckdb-no-replace', 'C17', [(U, "          create_keyword = 'CREATE OR REPLACE TABLE'", "          create_keyword = 'CREATE TABLE'")], 'C17-R2')
M('c17-clickhouse-no-drop', 'C17', [(U, "        if ground.overwrite:\n          self.AddClickhouseDropAction(table, ground)\n", "")], 'C17-R2')
M('c17-drop-other-table', 'C17', [(U, "          'DROP TABLE IF EXISTS %s%s;\\n' % (\n              ground.table_name,", "          'DROP TABLE IF EXISTS %s%s;\\n' % (\n              table,")], 'C17-R2')
M('c17-register-late', 'C17', [(U, "    self.execution.table_to_defined_table_map[table] = table_name\n    define_statement", "    define_statement"), (U, "    self.execution.defines_and_exports.append(define_statement)\n    return table_name", "    self.execution.defines_and_exports.append(define_statement)\n    self.execution.table_to_defined_table_map[table] = table_name\n    return table_name")], 'C17-R1')
M('c17-export-before-deps', 'C17', [(U, "    export_statement = None\n    if table in self.program.defined_predicates:", "    export_statement = None\n    self.execution.defines_and_exports.append(export_statement)\n    if table in self.program.defined_predicates:")], None)
M('c17-main-through-table', 'C17', [(U, "    else:\n      sql = self.PredicateSql(name, allocator)\n    self.PerformIterationClosure(allocator)", "    else:\n      sql = self.MakeSubqueryTranslator(allocator).TranslateTable(name, None)\n    self.PerformIterationClosure(allocator)")], 'C17-R3')
T('c17-twin-fstring', 'C17', [(U, """      create_statement = (
          '{create_keyword} {name} AS {dependency_sql}'.format(
              create_keyword=create_keyword,
              name=ground.table_name,
              dependency_sql=FormatSql(dependency_sql)))""", """      create_statement = f'{create_keyword} {ground.table_name} AS {FormatSql(dependency_sql)}'""")])

# ---------------------------------------------------------------- C06
M('c06-cpp-op-missing', 'C06', [(CPP, 'const std::vector<std::string> base = {"||", "&&", "->", "==",', 'const std::vector<std::string> base = {"||", "&&", "==",')], 'C06-R1')
M('c06-cpp-op-order', 'C06', [(CPP, '"==", "<=", ">=", "<", ">", "!=", "=", "~",', '"==", "<", "<=", ">=", ">", "!=", "=", "~",')], 'C06-R1')
M('c06-py-new-operator', 'C06', [(PA, "      '||', '&&', '->', '==', '<=', '>=', '<', '>', '!=', '=', '~',", "      '||', '&&', '->', '==', '<>', '<=', '>=', '<', '>', '!=', '=', '~',")], 'C06-R1')
M('c06-cpp-field-renamed', 'C06', [(CPP, 'out["otherwise"] = ParseExpression(last_else);', 'out["else"] = ParseExpression(last_else);')], 'C06-R3')
M('c06-py-literal-order', 'C06', [(PA, """  v = ParseList(s)
  if v:
    return {'the_list': v}
  v = ParseBoolean(s)
  if v:
    return {'the_bool': v}""", """  v = ParseBoolean(s)
  if v:
    return {'the_bool': v}
  v = ParseList(s)
  if v:
    return {'the_list': v}""")], 'C06-R2')
M('c06-py-variable-chars', 'C06', [(PA, "VARIABLE_CHARS_SET = set(string.ascii_lowercase) | set('_') | set(string.digits)", "VARIABLE_CHARS_SET = set(string.ascii_letters) | set('_') | set(string.digits)")], 'C06-R4')
M('c06-py-new-keyword', 'C06', [(PA, "  element_list_str = Split(s, ' in ')\n  if len(element_list_str) == 2:", "  element_list_str = Split(s, ' in ')\n  if len(element_list_str) != 2:\n    element_list_str = Split(s, ' within ')\n  if len(element_list_str) == 2:")], 'C06-R3')
M('c06-cpp-no-throw', 'C06', [(CPP, """static bool IsVariableChars(const SpanString& s) {""", """static bool IsVariableCharsUnused(const SpanString& s) { return true; }
static bool IsVariableChars(const SpanString& s) {"""), (PA, "    raise ParsingException(\n        'I expected string to be split by >>%s<< in two.' % separator, s)\n", "    return (parts[0], parts[-1])\n")], 'C06-R6')
M('c06-cpp-call-name-chars', 'C06', [(CPP, 'for (char c : std::string("@_.${}+-`")) good_chars.insert(c);', 'for (char c : std::string("@_.${}+-`#")) good_chars.insert(c);')], 'C06-R4')
M('c06-py-rewrite-order', 'C06', [(PA, "  rules = DisjunctiveNormalForm.Rewrite(rules)\n  # Multibody aggregation uses concise aggregation structure.\n  rules = MultiBodyAggregation.Rewrite(rules)", "  rules = MultiBodyAggregation.Rewrite(rules)\n  # Multibody aggregation uses concise aggregation structure.\n  rules = DisjunctiveNormalForm.Rewrite(rules)")], 'C06-R2')
T('c06-twin-py-message', 'C06', [(PA, "raise ParsingException('Could not parse proposition.', s)", "raise ParsingException('Proposition could not be parsed.', s)")])
T('c06-twin-cpp-comment', 'C06', [(CPP, "        return std::nullopt;  // negation is special.", "        return std::nullopt;  // negation is handled by ParseNegation.")])
T('c06-twin-py-list-layout', 'C06', [(PA, "      ' in ', ' is not ', ' is ', '++?', '++', '+', '-', '*', '/', '%',\n      '^', '!'])", "      ' in ', ' is not ', ' is ',\n      '++?', '++', '+', '-', '*', '/', '%', '^', '!'])")])
M('c13-cpp-sticky-switch', 'C13', [(CPP, '    TOO_MUCH = "fun";\n  } else {\n    TOO_MUCH = "too much";\n  }', '    TOO_MUCH = "fun";\n  }')], 'C13-R2')

# ---------------------------------------------------------------- C15
M('c15-keyword-in-text', 'C15', [(PA, "  head_distinct = Split(head, 'distinct')\n  if len(head_distinct) == 1:", "  head_distinct = Split(head, 'distinct')\n  if 'distinct' not in head:")], 'C15-R1')
M('c15-plain-split', 'C15', [(PA, "    _, value_body = SplitInOneOrTwo(s, ':-')\n    if value_body:\n      value, body = value_body\n    else:\n      value = s\n      body = None\n    operator, expression = SplitInTwo(value, '=')\n    operator = Strip(operator)\n    parsed_expression = ParseExpression(expression)\n    parsed_body = ParseConjunction(body, allow_singleton=True) if body else None\n    return BuildTreeForCombine(parsed_expression, operator, parsed_body, s)",
                             "    value_body = s.split(':-')\n    if len(value_body) == 2:\n      value, body = value_body\n    else:\n      value = s\n      body = None\n    operator, expression = SplitInTwo(value, '=')\n    operator = Strip(operator)\n    parsed_expression = ParseExpression(expression)\n    parsed_body = ParseConjunction(body, allow_singleton=True) if body else None\n    return BuildTreeForCombine(parsed_expression, operator, parsed_body, s)")], 'C15-R1')
M('c15-find-keyword', 'C15', [(PA, "  if s.startswith('if ') or s.startswith('if\\n'):\n    inner = s[3:]", "  if s.startswith('if ') or s.startswith('if\\n'):\n    if s.find(' then ') < 0:\n      return None\n    inner = s[3:]")], 'C15-R1')
M('c15-span-start', 'C15', [(PA, "    substring.start = self.start + start", "    substring.start = start")], 'C15-R2')
M('c15-string-brackets', 'C15', [(PA, "    elif State() == '\"':\n      track_parenthesis = False\n      if c == '\\n':", "    elif State() == '\"':\n      if c == '\\n':")], 'C15-R3')
M('c15-split-inside', 'C15', [(PA, "    if not state and s[idx:(idx + l)] == separator and (", "    if s[idx:(idx + l)] == separator and (")], 'C15-R3')
M('c15-negative-slice-escapes', 'C15', [(PA, "  if s[-1:] == 'u':\n    s = s[:-1]", "  if s[-1:] == 'u':\n    s = s[:-1]\n  tail = s[-2:]\n  if tail == '.0':\n    return {'number': tail}")], 'C15-R2')
T('c15-twin-startswith', 'C15', [(PA, "  if s.startswith('combine '):\n    s = s[len('combine '):]", "  if s[:8] == 'combine ':\n    s = s[8:]")])
T('c15-twin-scanner-internal', 'C15', [(PA, "  return status == 'OK' and state == ''", "  return status == 'OK' and not state")])
M('c09-unbalanced-emitter', 'C09', [(ET, "      return 'ROW(%s)::%s' % (args, record_type)", "      return 'ROW(%s::%s' % (args, record_type)")], 'C09-R3')
M('c09-unbalanced-template', 'C09', [(DI, "        'Size': 'COALESCE(ARRAY_LENGTH({0}, 1), 0)',", "        'Size': 'COALESCE(ARRAY_LENGTH({0}, 1, 0)',")], 'C09-R3')
M('c09-unclosed-quote', 'C09', [(DI, "      return 'JSON_EXTRACT(%s, \"$.%s\")' % (record, subscript)", "      return 'JSON_EXTRACT(%s, \"$.%s)' % (record, subscript)")], 'C09-R3')
M('c09-cast-paren', 'C09', [(ET, "      return \"CAST([%s], 'Array(%s)')\" % (internals, element_type_name)", "      return \"CAST([%s], 'Array(%s))\" % (internals, element_type_name)")], 'C09-R3')
T('c09-twin-fragment-refactor', 'C09', [(ET, "          result = self.Infix(sql_op, arguments)\n          result = '(' + result + ')'\n          return result", "          return '(%s)' % self.Infix(sql_op, arguments)")])
M('c01-inject-drops-constraints', 'C01', [(U, "  target.constraints.extend(source.constraints)\n", "")], 'C01-R5')
M('c01-inject-drops-unnestings', 'C01', [(U, "  target.unnestings.extend(source.unnestings)\n", "")], 'C01-R5')
M('c01-dnf-zip', 'C01', [(PA, "    for a in first_dnf:\n      for b in cls.ConjunctionOfDnfs(other_dnfs):\n        result.append(a + b)", "    for a, b in zip(first_dnf, cls.ConjunctionOfDnfs(other_dnfs)):\n      result.append(a + b)")], 'C01-R5')
M('c01-where-or', 'C01', [(RT, "          r += ' AND\\n'.join(map(Indent2, constraints))", "          r += ' OR\\n'.join(map(Indent2, constraints))")], 'C01-R5')
M('c01-constraint-skipped', 'C01', [(RT, "        ephemeral_predicates = ['~']", "        ephemeral_predicates = ['~', 'IsNull']")], 'C01-R5')
M('c01-shared-alternatives', 'C01', [(PA, "      new_rule = copy.deepcopy(rule)\n      new_rule['body'] = {'conjunction': {'conjunct': copy.deepcopy(conjuncts)}}", "      new_rule = dict(rule)\n      new_rule['body'] = {'conjunction': {'conjunct': conjuncts}}")], 'C01-R5')
T('c01-twin-inject-order', 'C01', [(U, "  target.unnestings.extend(source.unnestings)\n  target.constraints.extend(source.constraints)", "  target.constraints.extend(source.constraints)\n  target.unnestings.extend(source.unnestings)")])
