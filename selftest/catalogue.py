"""Mutation catalogue: one-instance breakages (must fire) and benign twins
(must stay silent).  Edits are exact-text replacements applied to a scratch
copy; an edit whose pattern is no longer unique is skipped and counted."""

U = 'compiler/universe.py'
RT = 'compiler/rule_translate.py'
ET = 'compiler/expr_translate.py'
FU = 'compiler/functors.py'
DI = 'compiler/dialects.py'
PA = 'parser_py/parse.py'
INF = 'type_inference/research/infer.py'
RA = 'type_inference/research/reference_algebra.py'
SQ = 'common/sqlite3_logica.py'
CO = 'common/concertina_lib.py'
RL = 'compiler/dialect_libraries/recursion_library.py'
CPP = 'parser_cpp/logica_parse.cpp'

CATALOGUE = []


def M(id, prop, edits, rule=None, note=''):
  CATALOGUE.append(dict(id=id, prop=prop, kind='mutant', edits=edits,
                        rule=rule, note=note))


def T(id, prop, edits, note=''):
  CATALOGUE.append(dict(id=id, prop=prop, kind='twin', edits=edits, note=note))


# ---------------------------------------------------------------- C01
M('c01-drop-u2c', 'C01', [(U, """    s.ElliminateInternalVariables(assert_full_ellimination=True)
    s.UnificationsToConstraints()

    if self.annotations.ShouldTypecheck():""",
   """    s.ElliminateInternalVariables(assert_full_ellimination=True)

    if self.annotations.ShouldTypecheck():""")], 'C01-R1',
  'join conditions lost in SingleRuleSql')
M('c01-u2c-early', 'C01', [(U, """    self.RunInjections(s, allocator)
    s.ElliminateInternalVariables(assert_full_ellimination=True)
    s.UnificationsToConstraints()

    if self.annotations.ShouldTypecheck():""",
   """    s.UnificationsToConstraints()
    self.RunInjections(s, allocator)
    s.ElliminateInternalVariables(assert_full_ellimination=True)

    if self.annotations.ShouldTypecheck():""")], 'C01-R1')
M('c01-elim-partial', 'C01', [(U, """    self.RunInjections(s, allocator)
    s.ElliminateInternalVariables(assert_full_ellimination=True)
    s.UnificationsToConstraints()

    if self.annotations.ShouldTypecheck():""",
   """    self.RunInjections(s, allocator)
    s.ElliminateInternalVariables(assert_full_ellimination=False)
    s.UnificationsToConstraints()

    if self.annotations.ShouldTypecheck():""")], 'C01-R1')
M('c01-inject-unprepared', 'C01', [(U,
   "          rs.ElliminateInternalVariables(assert_full_ellimination=False, unfold_records=False)\n",
   "")], 'C01-R1')
M('c01-union', 'C01', [(U, "' UNION ALL\\n'.join(rules_sql)",
                        "' UNION\\n'.join(rules_sql)")], 'C01-R4')
M('c01-col-prefix', 'C01', [(RT, "    return 'col%d' % logica_field",
                             "    return 'c%d' % logica_field")], 'C01-R3')
M('c01-implication-branch', 'C01', [(ET, "    if 'implication' in expression:\n      implication = expression['implication']",
                                     "    if 'implic' in expression:\n      implication = expression['implication']")], 'C01-R2')
M('c01-value-field', 'C01', [(PA, """  if not operator_str:
    call['record']['field_value'].append({
        'field': 'logica_value',""", """  if not operator_str:
    call['record']['field_value'].append({
        'field': 'value',""")], 'C01-R3')
M('c01-groupby-always', 'C01', [(RT, "      if self.distinct_vars:\n        ordered_distinct_vars",
                                 "      if self.select:\n        ordered_distinct_vars")], 'C01-R4')
M('c01-inclusion-unhandled', 'C01', [(RT, "    elif 'inclusion' in c:\n      ExtractInclusionStructure(c['inclusion'], s)\n", "")], 'C01-R2')
T('c01-twin-union-layout', 'C01', [(U, "' UNION ALL\\n'.join(rules_sql)",
                                    "'\\nUNION  ALL\\n'.join(rules_sql)")])
T('c01-twin-message', 'C01', [(U, "'Single rule is nil for predicate %s. '",
                               "'The only rule is nil for predicate %s. '")])
T('c01-twin-extra-stmt', 'C01', [(U, "    self.RunInjections(s, allocator)\n    s.ElliminateInternalVariables(assert_full_ellimination=True)\n    s.UnificationsToConstraints()\n\n    if self.annotations.ShouldTypecheck():",
                                  "    self.RunInjections(s, allocator)\n    debug_tables = list(s.tables)\n    s.ElliminateInternalVariables(assert_full_ellimination=True)\n    s.UnificationsToConstraints()\n    del debug_tables\n\n    if self.annotations.ShouldTypecheck():")])
T('c01-twin-positional-elim', 'C01', [(U, "    s.ElliminateInternalVariables(assert_full_ellimination=True)\n    s.UnificationsToConstraints()\n\n    if self.annotations.ShouldTypecheck():",
                                       "    s.ElliminateInternalVariables(True)\n    s.UnificationsToConstraints()\n\n    if self.annotations.ShouldTypecheck():")])

# ---------------------------------------------------------------- C18
M('c18-okinj-orderby', 'C18', [(U, "    if (self.OrderBy(predicate_name) or\n        self.LimitOf(predicate_name) is not None or",
                                "    if (self.LimitOf(predicate_name) is not None or")], 'C18-R1')
M('c18-limit-truthy', 'C18', [(U, "    if limit is not None:\n      return ' LIMIT %d' % limit",
                               "    if limit:\n      return ' LIMIT %d' % limit")], 'C18-R3')
M('c18-okinj-limit-truthy', 'C18', [(U, "        self.LimitOf(predicate_name) is not None or",
                                     "        self.LimitOf(predicate_name) or")], 'C18-R3')
M('c18-inject-unguarded', 'C18', [(U, "            ('distinct_denoted' not in rules[0]) and\n            self.annotations.OkInjection(table_predicate_rsql)):",
                                   "            ('distinct_denoted' not in rules[0])):")], 'C18-R1')
M('c18-inject-negated', 'C18', [(U, "            self.annotations.OkInjection(table_predicate_rsql)):",
                                 "            not self.annotations.OkInjection(table_predicate_rsql)):")], 'C18-R1')
M('c18-single-no-limit', 'C18', [(U, "          self.annotations.OrderByClause(name) +\n          self.annotations.LimitClause(name))",
                                  "          self.annotations.OrderByClause(name))")], 'C18-R2')
M('c18-union-swapped', 'C18', [(U, "          self.annotations.OrderByClause(name),\n          self.annotations.LimitClause(name))",
                                "          self.annotations.LimitClause(name),\n          self.annotations.OrderByClause(name))")], 'C18-R2')
M('c18-denotation-key', 'C18', [(PA, "    result['limit_denoted'] = limit_what",
                                 "    result['limit_denotation'] = limit_what")], 'C18-R4')
M('c18-annotation-name', 'C18', [(PA, "('limit_denoted', '@Limit')", "('limit_denoted', '@Limits')")], 'C18-R4')
T('c18-twin-okinj-split', 'C18', [(U, """    if (self.OrderBy(predicate_name) or
        self.LimitOf(predicate_name) is not None or
        self.Ground(predicate_name) or self.NoInject(predicate_name) or
        self.ForceWith(predicate_name)):
      return False
    return True""", """    if self.OrderBy(predicate_name):
      return False
    limit = self.LimitOf(predicate_name)
    if limit is not None:
      return False
    return not (self.Ground(predicate_name) or self.NoInject(predicate_name) or
                self.ForceWith(predicate_name))""")])
T('c18-twin-limit-clause', 'C18', [(U, "    if limit is not None:\n      return ' LIMIT %d' % limit\n    else:\n      return ''",
                                    "    if limit is None:\n      return ''\n    return ' LIMIT ' + str(limit)")])

# ---------------------------------------------------------------- C19
M('c19-no-distinct-check', 'C19', [(U, "    self.CheckDistinctConsistency()\n", "")], 'C19-R2')
M('c19-functor-valueerror', 'C19', [(FU, """    if bad_args:
      raise FunctorError(""", """    if bad_args:
      raise ValueError(""")], None)
M('c19-injected-unassigned-silent', 'C19', [(RT, """          if unassigned_variables:
            raise RuleCompileException(""", """          if unassigned_variables and False:
            raise RuleCompileException(""")], None, 'not detectable: guard weakened with a constant')
M('c19-cli-no-functor-handler', 'C19', [('logica.py', """    except functors.FunctorError as functor_exception:
      functor_exception.ShowMessage()
      sys.exit(1)
""", "")], 'C19-R3')
M('c19-unmatched-ignored', 'C19', [(PA, """    if status == 'Unmatched':
      raise ParsingException('Parenthesis matches nothing.', s[idx:idx+1])
    elif status == 'EOL in string':""", """    if status == 'Unmatched':
      break
    elif status == 'EOL in string':""")], 'C19-R1')
M('c19-swallow-makes', 'C19', [(U, """    self.functors = functors.Functors(rules)
    self.functors.MakeAll(list(self.annotations.annotations['@Make'].items()))
    return self.functors.extended_rules""", """    self.functors = functors.Functors(rules)
    try:
      self.functors.MakeAll(list(self.annotations.annotations['@Make'].items()))
    except Exception:
      pass
    return self.functors.extended_rules""")], 'C19-R3')
M('c19-coherence-second-path', 'C19', [(PA, """        'value': {'expression': ParseExpression(expression_str)}
    })
    CheckAggregationCoherence(call)
    return (call, False)""", """        'value': {'expression': ParseExpression(expression_str)}
    })
    return (call, False)""")], 'C19-R2')
M('c19-annotated-objects-unchecked', 'C19', [(U, "    self.CheckAnnotatedObjects(rules)\n", "")], 'C19-R2')
M('c19-nil-not-diagnosed', 'C19', [(U, """      if must_not_be_nil:
        raise rule_translate.RuleCompileException(
          'Single rule is nil for predicate %s. '""", """      if must_not_be_nil:
        raise AssertionError(
          'Single rule is nil for predicate %s. '""")], None)
T('c19-twin-messages', 'C19', [(FU, "'Could not resolve Make order.'", "'Make order could not be resolved.'"),
                               (PA, "'Parenthesis matches nothing.', s[idx:idx+1])\n    elif status == 'EOL in string':",
                                "'A parenthesis matches nothing.', s[idx:idx+1])\n    elif status == 'EOL in string':")])
T('c19-twin-handler-order', 'C19', [('logica.py', """    except rule_translate.RuleCompileException as rule_compilation_exception:
      rule_compilation_exception.ShowMessage()
      sys.exit(1)
    except functors.FunctorError as functor_exception:
      functor_exception.ShowMessage()
      sys.exit(1)
""", """    except functors.FunctorError as functor_exception:
      functor_exception.ShowMessage()
      sys.exit(1)
    except rule_translate.RuleCompileException as rule_compilation_exception:
      rule_compilation_exception.ShowMessage()
      sys.exit(2)
""")])

# ---------------------------------------------------------------- C05
M('c05-print-mode', 'C05', [(U, "    type_error_checker.CheckForError(mode='raise')", "    type_error_checker.CheckForError(mode='print')")], 'C05-R1')
M('c05-no-structure-check', 'C05', [(U, "      error_checker.CheckForError('raise')\n", "")], 'C05-R1')
M('c05-otherwise-unvisited', 'C05', [(INF, "          'condition', 'consequence', 'otherwise']", "          'condition', 'consequence']")], 'C05-R2')
M('c05-inclusion-pass-dropped', 'C05', [(INF, "    Walk(self.rule, self.ActMindingInclusion)\n", "")], 'C05-R2')
M('c05-pod-swap', 'C05', [(INF, "reference_algebra.Unify(e['type']['the_type'], reference_algebra.TypeReference('Num'))",
                           "reference_algebra.Unify(e['type']['the_type'], reference_algebra.TypeReference('Str'))")], 'C05-R4')
M('c05-raise-to-print', 'C05', [(INF, "        raise TypeErrorCaughtException(self.found_error.NiceMessage())\n      else:\n        assert False",
                                 "        print(self.found_error.NiceMessage())\n      else:\n        assert False")], 'C05-R1')
M('c05-ungated-init', 'C05', [(U, "    if self.annotations.ShouldTypecheck():\n      self.typing_preamble = self.RunTypechecker()",
                               "    if self.annotations.Engine() == 'psql':\n      self.typing_preamble = self.RunTypechecker()")], 'C05-R3')
M('c05-check-other-rules', 'C05', [(U, "    type_error_checker = infer.TypeErrorChecker(rules)", "    type_error_checker = infer.TypeErrorChecker(rules[:1])")], 'C05-R1')
T('c05-twin-rename', 'C05', [(U, "    type_error_checker = infer.TypeErrorChecker(rules)\n    type_error_checker.CheckForError(mode='raise')",
                              "    checker = infer.TypeErrorChecker(rules)\n    checker.CheckForError('raise')")])
T('c05-twin-fields-tuple', 'C05', [(INF, "  return ['expression', 'left_hand_side', 'right_hand_side',\n          'condition', 'consequence', 'otherwise']",
                                    "  return ('otherwise', 'expression', 'left_hand_side', 'right_hand_side',\n          'condition', 'consequence')")])
