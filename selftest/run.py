"""Self-test of the checkers: mutants must fire (naming the rule), benign
twins must stay silent.  Every variant is a scratch copy of the source
directories of /repo under a fresh temporary directory, removed at once.

usage: run.py [--prop C01] [--jobs 16] [--root /repo] [--id <mutant id>]
"""

import argparse
import concurrent.futures
import json
import os
import shutil
import subprocess
import sys
import tempfile

HERE = os.path.dirname(os.path.abspath(__file__))
VERIF = os.path.dirname(HERE)
sys.path.insert(0, VERIF)

from selftest.catalogue import CATALOGUE  # noqa: E402

COPY = ['common', 'compiler', 'parser_cpp', 'parser_py', 'type_inference',
        'tools', 'logica.py', 'docs/syntax.md']


def make_copy(root, dst):
  for rel in COPY:
    src = os.path.join(root, rel)
    if not os.path.exists(src):
      continue
    d = os.path.join(dst, rel)
    os.makedirs(os.path.dirname(d), exist_ok=True)
    if os.path.isdir(src):
      shutil.copytree(src, d, ignore=shutil.ignore_patterns(
          '__pycache__', '*.pyc', '*.so', '*.o'))
    else:
      shutil.copy2(src, d)


def apply_edits(dst, edits):
  """edits: [(file, old, new)] exact-text replacements (old must be unique)."""
  for f, old, new in edits:
    p = os.path.join(dst, f)
    if not os.path.exists(p):
      return 'missing file %s' % f
    s = open(p, encoding='utf-8').read()
    if s.count(old) != 1:
      return 'pattern occurs %d times in %s' % (s.count(old), f)
    open(p, 'w', encoding='utf-8').write(s.replace(old, new))
  return None


def seeded_entries():
  """Independent seeded changes kept under /verif/seeded/<name>/ (patch.diff +
  meta.json): each must be reported by the check of its property."""
  out = []
  d = os.path.join(VERIF, 'seeded')
  if not os.path.isdir(d):
    return out
  for name in sorted(os.listdir(d)):
    mp = os.path.join(d, name, 'meta.json')
    pp = os.path.join(d, name, 'patch.diff')
    if os.path.exists(mp) and os.path.exists(pp):
      meta = json.load(open(mp))
      by = meta.get('detected_by')
      if by is not None and not by:
        continue        # a recorded miss (see meta.json / DESIGN.md): not an obligation
      out.append(dict(id='seeded-' + name, prop=(by[0] if by else meta['property']),
                      kind='mutant', patch=pp, edits=[], rule=None))
  return out


def benign_entries(props):
  """Behaviour-preserving refactorings written by independent maintainer-style
  agents (benign/<area>/rNN.diff, each shown equivalent by a differential run
  of its author): every check must stay silent on each of them.  C06 (clang,
  slow) only runs on patches that touch a parser."""
  out = []
  d = os.path.join(VERIF, 'benign')
  if not os.path.isdir(d):
    return out
  known = set()
  kp = os.path.join(d, 'KNOWN_UNRECOGNISED.json')
  if os.path.exists(kp):
    known = {(e['patch'], e['property']) for e in json.load(open(kp))['entries']}
  for area in sorted(os.listdir(d)):
    if not os.path.isdir(os.path.join(d, area)):
      continue
    for f in sorted(os.listdir(os.path.join(d, area))):
      if not f.endswith('.diff'):
        continue
      pp = os.path.join(d, area, f)
      text = open(pp, encoding='utf-8', errors='replace').read()
      parser = 'parser_py/parse.py' in text or 'parser_cpp/' in text
      for pid in props:
        if pid == 'C06' and not parser:
          continue
        out.append(dict(id='benign-%s-%s-%s' % (area, f[:-5], pid), prop=pid, kind='twin',
                        patch=pp, edits=[], rule=None,
                        may_be_unrecognised=('%s/%s' % (area, f), pid) in known))
  return out


def apply_patch(dst, patch):
  r = subprocess.run(['git', 'apply', '--unsafe-paths', '--directory=' + dst, patch],
                     capture_output=True, text=True, cwd=dst)
  if r.returncode:
    r = subprocess.run(['patch', '-p1', '-s', '-i', patch], capture_output=True,
                       text=True, cwd=dst)
    if r.returncode:
      return 'patch does not apply: %s' % (r.stdout + r.stderr)[-200:]
  return None


def apply_transform(dst, name):
  """whole-tree behaviour-preserving transformations (twins for every property)."""
  import ast
  if name == 'rename':
    r = subprocess.run([sys.executable, '-B', os.path.join(VERIF, 'tools', 'rename_locals.py'),
                        dst, '--comps', '--params'], capture_output=True, text=True)
    return None if r.returncode == 0 else 'rename_locals failed: ' + r.stderr[-200:]
  if name == 'unparse':
    for dp, dn, fn in os.walk(dst):
      for f in fn:
        if f.endswith('.py'):
          p = os.path.join(dp, f)
          try:
            t = ast.parse(open(p, encoding='utf-8').read())
          except SyntaxError:
            continue
          open(p, 'w', encoding='utf-8').write(ast.unparse(t) + '\n')
    return None
  if name in ('flatten', 'swap', 'membership', 'eqchain', 'reorder'):
    r = subprocess.run([sys.executable, '-B', os.path.join(VERIF, 'tools', 'transforms.py'),
                        name, dst], capture_output=True, text=True)
    return None if r.returncode == 0 else 'transform failed: ' + r.stderr[-200:]
  return 'unknown transform ' + name


def transform_entries(props):
  out = []
  for pid in props:
    for t in ('rename', 'unparse', 'flatten', 'swap', 'membership', 'eqchain', 'reorder'):
      out.append(dict(id='twin-%s-%s' % (t, pid), prop=pid, kind='twin',
                      transform=t, edits=[], rule=None))
  return out


def run_one(entry, root):
  tmp = tempfile.mkdtemp(prefix='vsf_')
  try:
    dst = os.path.join(tmp, 'repo')
    make_copy(root, dst)
    if entry.get('transform'):
      err = apply_transform(dst, entry['transform'])
    elif entry.get('patch'):
      err = apply_patch(dst, entry['patch'])
    else:
      err = apply_edits(dst, entry['edits'])
    if err:
      return dict(id=entry['id'], status='skipped', detail=err)
    env = dict(os.environ, VERIF_EVIDENCE_DIR=os.path.join(tmp, 'ev'))
    p = subprocess.run([os.path.join(VERIF, 'check'), entry['prop'],
                        '--root', dst, '--tier', 'quick'],
                       capture_output=True, text=True, env=env, timeout=3000)
    out = p.stdout + p.stderr
    fired = [l for l in out.splitlines() if l.startswith('VIOLATION')]
    rules = sorted({l.split()[0] for l in out.splitlines()
                    if l[:1] == 'C' and '-R' in l.split()[0] and
                    not l.startswith(('VIOLATION', 'KNOWN-FINDING'))})
    if entry['kind'] == 'mutant':
      ok = p.returncode == 1 and bool(fired)
      if ok and entry.get('rule'):
        ok = entry['rule'] in rules
      return dict(id=entry['id'], status='fired' if ok else 'MISSED',
                  rc=p.returncode, rules=rules,
                  detail='' if ok else out[-1500:])
    ok = p.returncode == 0 and not fired
    if not ok and entry.get('may_be_unrecognised') and p.returncode == 2 and not fired:
      return dict(id=entry['id'], status='unrecognised', rc=2, rules=rules, detail='')
    return dict(id=entry['id'], status='silent' if ok else 'FALSE-ALARM',
                rc=p.returncode, rules=rules, detail='' if ok else out[-1500:])
  finally:
    shutil.rmtree(tmp, ignore_errors=True)


def run(prop=None, jobs=16, root='/repo', only=None, quiet=False):
  props = sorted({e['prop'] for e in CATALOGUE})
  entries = [e for e in CATALOGUE + seeded_entries() + transform_entries(props) +
             benign_entries(props)
             if (prop is None or e['prop'] == prop) and
             (only is None or e['id'] == only)]
  results = []
  with concurrent.futures.ThreadPoolExecutor(max_workers=jobs) as ex:
    for r in ex.map(lambda e: run_one(e, root), entries):
      results.append(r)
      if not quiet:
        print('%-12s %s %s' % (r['status'], r['id'], ' '.join(r.get('rules', []))))
        if r['status'] in ('MISSED', 'FALSE-ALARM'):
          print(r['detail'])
  return results


if __name__ == '__main__':
  ap = argparse.ArgumentParser()
  ap.add_argument('--prop')
  ap.add_argument('--jobs', type=int, default=16)
  ap.add_argument('--root', default='/repo')
  ap.add_argument('--id')
  a = ap.parse_args()
  res = run(a.prop, a.jobs, a.root, a.id)
  bad = [r for r in res if r['status'] in ('MISSED', 'FALSE-ALARM')]
  unrec = sum(r['status'] == 'unrecognised' for r in res)
  if unrec:
    print('documented unrecognised restructurings (exit 2, no VIOLATION): %d' % unrec)
  print('mutants fired=%d twins silent=%d skipped=%d bad=%d' % (
      sum(r['status'] == 'fired' for r in res),
      sum(r['status'] == 'silent' for r in res),
      sum(r['status'] == 'skipped' for r in res), len(bad)))
  sys.exit(2 if bad else 0)
