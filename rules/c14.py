"""C14 - workflow execution order (structural clauses)."""

import ast

from sa.model import (AnalysisError, call_tail, const_str, dotted, kwarg, norm,
                      walk_local)
from sa.pathrules import FnView, receiver
from rules import common as K

TTAF = 'universe.SubqueryTranslator.TranslateTableAttachedToFile'
TT = 'universe.SubqueryTranslator.TranslateTable'
PREDSQL = 'universe.LogicaProgram.PredicateSql'


def appends_to(view, attr):
  """[(node, call)] `<...>.<attr>.append(..)`."""
  out = []
  for n, c in view.all_calls():
    if call_tail(c) == 'append' and (receiver(c) or '').split('.')[-1] == attr:
      out.append((n, c))
  return out


def false_branches(view, ident):
  """Branch pseudo nodes on which plain test `ident` is false."""
  out = set()
  for b, (h, pol) in view.cfg.branch_of.items():
    st = view.cfg.stmt[h]
    if isinstance(st, ast.If) and dotted(st.test) == ident and not pol:
      out.add(b)
  return out


def run(chk):
  repo = chk.repo
  chk.rule('C14-R1', 'every read of a grounded / external table records a '
           'dependency edge (reader = top of the workflow stack) before any '
           'return; edge direction agrees between compiler and executor; only '
           'the iteration closure suppresses edges; renaming a predicate renames '
           'both ends of its edges', min_instances=9)
  v = FnView(repo, TTAF)
  app = appends_to(v, 'dependency_edges')
  off = false_branches(v, 'edge_needed')
  for n, r in v.returns():
    ok = bool(app) and v.cfg.must_pass_before(n, v.nodes_of(app) | off)
    chk.ob('C14-R1', ok, None,
           'dependency edge recorded before `%s`' % norm(r, 70),
           'a reader of a grounded table can obtain the table name without '
           'an edge (table, reader) being recorded: the reader may be '
           'scheduled before the table exists', fi=v.fi, node=r)
  for n, c in app:
    chk.ob('C14-R1', edge_shape(c), None, 'edge is (table, workflow_predicates_stack[-1])',
           'the recorded edge is %s' % norm(c.args[0] if c.args else c), fi=v.fi, node=c)
  w = FnView(repo, TT)
  dapp = appends_to(w, 'data_dependency_edges')
  ext_returns = []
  for n, r in w.returns():
    internal = any(isinstance(c, ast.Call) and call_tail(c) in (
        'PredicateSql', 'TranslateWithedTable', 'TranslateTableAttachedToFile')
                   for c in walk_local(r))
    alias = any(isinstance(x, ast.Attribute) and x.attr == 'table_aliases'
                for x in walk_local(r))
    if not internal and not alias and w.cfg.reachable().__contains__(n):
      ext_returns.append((n, r))
  if not ext_returns:
    raise AnalysisError('TranslateTable: return for external tables not found')
  for n, r in ext_returns:
    chk.ob('C14-R1', bool(dapp) and w.cfg.must_pass_before(n, w.nodes_of(dapp)),
           None, 'data dependency edge recorded before `%s`' % norm(r, 70),
           'an external table is read without a data-dependency edge',
           fi=w.fi, node=r)
  for n, c in dapp:
    chk.ob('C14-R1', edge_shape(c), None,
           'data edge is (table, workflow_predicates_stack[-1])',
           'the recorded edge is %s' % norm(c.args[0] if c.args else c), fi=w.fi, node=c)
  # who passes edge_needed=False
  offenders = []
  n_sites = 0
  for m in repo.pipeline():
    for fi in m.funcs.values():
      for c in walk_local(fi.node):
        if isinstance(c, ast.Call) and call_tail(c) in ('TranslateTable', 'TranslateTableAttachedToFile'):
          n_sites += 1
          e = kwarg(c, 'edge_needed')
          if e is None and call_tail(c) == 'TranslateTable' and len(c.args) >= 3:
            e = c.args[2]
          if e is None and call_tail(c) == 'TranslateTableAttachedToFile' and len(c.args) >= 4:
            e = c.args[3]
          if e is None:
            continue
          if dotted(e) == 'edge_needed':
            continue        # forwarding the caller's choice
          if not (isinstance(e, ast.Constant) and e.value is True):
            if fi.fq != 'universe.LogicaProgram.PerformIterationClosure':
              offenders.append((fi, c))
  chk.ob('C14-R1', not offenders, None,
         'only PerformIterationClosure translates tables with edge_needed=False',
         'edges are suppressed by %s' % ', '.join(f.fq for f, _ in offenders),
         fi=offenders[0][0] if offenders else repo.func(
             'universe.LogicaProgram.PerformIterationClosure'))
  chk.extra['translate_call_sites'] = n_sites
  # executor direction
  ex = repo.func('concertina_lib.ExecuteLogicaProgram.ConcertinaConfig')
  ok = False
  for x in walk_local(ex.node):
    if isinstance(x, ast.For) and isinstance(x.target, ast.Tuple) and \
        len(x.target.elts) == 2 and 'dependency_edges' in norm(x.iter):
      src, tgt = [dotted(e) for e in x.target.elts]
      for a in walk_local(x):
        if isinstance(a, ast.Assign) and isinstance(a.targets[0], ast.Subscript) \
            and dotted(a.targets[0].value) == 'depends_on':
          key = dotted(a.targets[0].slice)
          members = {dotted(e) for s in ast.walk(a.value)
                     if isinstance(s, ast.Set) for e in s.elts}
          ok = (key == tgt and src in members)
  chk.ob('C14-R1', ok, None,
         'executor reads edges as (source, target): depends_on[target] gets source',
         'ConcertinaConfig interprets the edge tuple in the opposite '
         'direction to the compiler: statements run before their inputs',
         fi=ex)
  req = False
  for d in ast.walk(ex.node):
    if isinstance(d, ast.Dict):
      kv = {const_str(k): val for k, val in zip(d.keys, d.values) if k is not None}
      if 'requires' in kv and 'depends_on' in norm(kv['requires']):
        req = True
  chk.ob('C14-R1', req, None, "query actions get 'requires' from depends_on",
         'table-producing actions are configured without their requirements',
         fi=ex)

  rn = FnView(repo, 'concertina_lib.RenamePredicate')
  params = rn.fi.params
  if 'to_name' not in params or 'from_name' not in params:
    raise AnalysisError('concertina_lib.RenamePredicate signature changed')

  # the edge sets are rebuilt in RenamePredicate itself or in helpers it hands
  # (edges, from_name, to_name) to; in a helper the parameter that receives
  # to_name plays its role
  hosts = [(rn, 'to_name')]
  for n_, c in rn.all_calls():
    for t in repo.resolve(rn.fi, c):
      try:
        h = FnView(repo, t)
      except AnalysisError:
        continue
      if h.fi is rn.fi or h.fi.module is not rn.fi.module:
        continue
      for i_, a in enumerate(c.args):
        if isinstance(a, ast.Name) and a.id == 'to_name' and i_ < len(h.fi.params):
          hosts.append((h, h.fi.params[i_]))
      for k in c.keywords:
        if isinstance(k.value, ast.Name) and k.value.id == 'to_name' and k.arg in h.fi.params:
          hosts.append((h, k.arg))

  def renamed(hv, to, e):
    """Expression is subject to the rename: mentions the new name, calls a
    local helper that does, or is a variable conditionally re-assigned to it."""
    for x in ast.walk(e):
      if isinstance(x, ast.Name) and x.id == to:
        return True
      if isinstance(x, ast.Call) and isinstance(x.func, ast.Name) and x.func.id in hv.fi.nested:
        sub = hv.fi.nested[x.func.id]
        if any(isinstance(y, ast.Name) and y.id == to for y in ast.walk(sub.node)):
          return True
      if isinstance(x, ast.Name):
        for d in hv.assigned_from(x.id):
          if isinstance(d, ast.AST) and any(isinstance(y, ast.Name) and y.id == to
                                            for y in ast.walk(d)):
            return True
    return False
  tuples = []
  for hv, to in hosts:
    for x in walk_local(hv.fi.node):
      if isinstance(x, ast.Call) and call_tail(x) == 'add' and x.args and \
          isinstance(x.args[0], ast.Tuple) and len(x.args[0].elts) == 2:
        tuples.append((hv, to, x.args[0]))
      if isinstance(x, (ast.SetComp, ast.ListComp, ast.GeneratorExp)) and \
          isinstance(x.elt, ast.Tuple) and len(x.elt.elts) == 2:
        tuples.append((hv, to, x.elt))
  if not tuples:
    raise AnalysisError('RenamePredicate: rebuilt edge tuples not recognised')
  # both edge sets go through a rebuilt tuple: two sites, or one helper called for each
  for hv, to, t in tuples:
    chk.ob('C14-R1', all(renamed(hv, to, e) for e in t.elts), None,
           'renaming a predicate renames both ends of every edge: %s' % norm(t, 50),
           'only one end of the edge %s is renamed: edges into (or out of) the '
           'renamed predicate keep the old name, so it loses its requirements '
           'and may run before its inputs' % norm(t, 50), fi=hv.fi, node=t)

  chk.rule('C14-R2', 'workflow stack push/pop bracket the recursive '
           'PredicateSql; FormattedPredicateSql asserts the stack is [name]; '
           'SortActions schedules an action only when its requirements are '
           'complete', min_instances=4)
  push = appends_to(v, 'workflow_predicates_stack')
  pops = [(n, c) for n, c in v.all_calls() if call_tail(c) == 'pop' and
          (receiver(c) or '').endswith('workflow_predicates_stack')]
  ps = v.calls(PREDSQL)
  if not ps:
    raise AnalysisError('TranslateTableAttachedToFile no longer calls PredicateSql')
  for s in ps:
    chk.ob('C14-R2', bool(push) and v.precedes(push, s), None,
           'workflow_predicates_stack.append(table) before PredicateSql(table)',
           'the grounded predicate is compiled without being on top of the '
           'workflow stack: edges of its inputs point to the wrong reader',
           fi=v.fi, node=s[1])
    chk.ob('C14-R2', bool(pops) and v.follows(s, pops), None,
           'workflow_predicates_stack.pop() after PredicateSql(table)',
           'the stack is not popped on some normal path: later edges are '
           'attributed to the wrong reader', fi=v.fi, node=s[1])
  for p in push:
    chk.ob('C14-R2', arg0(p[1]) == 'table', None, 'pushes the table being compiled',
           'pushes %s' % arg0(p[1]), fi=v.fi, node=p[1])
  f = FnView(repo, 'universe.LogicaProgram.FormattedPredicateSql')
  asserts = [x for x in walk_local(f.fi.node) if isinstance(x, ast.Assert) and
             'workflow_predicates_stack' in norm(x.test) and
             isinstance(x.test, ast.Compare) and
             isinstance(x.test.ops[0], ast.Eq)]
  chk.ob('C14-R2', bool(asserts), None,
         'FormattedPredicateSql asserts workflow stack == [name]',
         'the balance of the workflow stack is no longer asserted', fi=f.fi)
  sa_ = FnView(repo, 'concertina_lib.Concertina.SortActions')
  ok = False
  for n, c in sa_.all_calls():
    if call_tail(c) == 'append' and receiver(c) == 'result':
      for e, val in sa_.guards(n):
        if val and isinstance(e, ast.Compare) and 'action_requires' in norm(e) \
            and isinstance(e.ops[0], (ast.GtE, ast.LtE)):
          ok = True
  chk.ob('C14-R2', ok, None,
         'SortActions appends an action only when complete >= its requirements',
         'actions are scheduled without their requirements being complete',
         fi=sa_.fi)

  # the schedule is a list: the members of an iteration stand in it in the
  # declared order, free actions in sorted order - never in the order a set
  # happens to iterate (hash seed)
  from sa import setorder
  an = setorder.Analysis(repo, [repo.mod('common/concertina_lib.py')])
  col = setorder.Collector(an, [])
  sched = 0
  leaks = []
  for st in col.run():
    about = st.fi.fq == sa_.fi.fq or any('SortActions' in c for c in st.chain)
    if not about:
      continue
    sched += 1
    if st.verdict == 'leak' and not any('AsNodesAndEdges' in c for c in st.chain):
      leaks.append(st)
  if sched < 3:
    raise AnalysisError('SortActions: the set-order analysis sees %d unordered '
                        'constructs (expected its sets of pending actions)' % sched)
  chk.ob('C14-R2', not leaks, None,
         'no set iteration order reaches the schedule (%d unordered constructs of '
         'SortActions followed)' % sched,
         '%s: %s || %s -- the actions of one iteration (or of the whole program) run '
         'in an order that depends on the hash seed, not in the declared order' % (
             leaks[0].source if leaks else '', leaks[0].reason if leaks else '',
             ' -> '.join(leaks[0].chain[-3:]) if leaks else ''),
         fi=leaks[0].fi if leaks else sa_.fi, node=leaks[0].node if leaks else None)

  chk.rule('C14-R3', 'bounded repetition: an iterated action is re-queued '
           'only after its counter was incremented and found below the '
           'declared repetitions; only SortActions/RunOneAction/'
           'UpdateStateForIterativeAction touch the queue; only iterated '
           'actions are re-queued', min_instances=5)
  u = FnView(repo, 'concertina_lib.Concertina.UpdateStateForIterativeAction')
  requeue = []
  for n in u.cfg.stmt_nodes():
    st = u.cfg.stmt[n]
    if isinstance(st, ast.Assign) and isinstance(st.targets[0], ast.Subscript) \
        and dotted(st.targets[0].value) == 'self.actions_to_run':
      requeue.append((n, st))
    if isinstance(st, ast.Expr) and isinstance(st.value, ast.Call) and \
        call_tail(st.value) in ('insert', 'append', 'extend') and \
        receiver(st.value) == 'self.actions_to_run':
      requeue.append((n, st))
  if not requeue:
    raise AnalysisError('UpdateStateForIterativeAction: re-queueing not found')
  incr = [n for n in u.cfg.stmt_nodes()
          if isinstance(u.cfg.stmt[n], ast.AugAssign) and
          isinstance(u.cfg.stmt[n].op, ast.Add) and
          'action_iterations_complete' in norm(u.cfg.stmt[n].target)]
  for n, st in requeue:
    chk.ob('C14-R3', bool(incr) and u.cfg.must_pass_before(n, incr), None,
           'repetition counter incremented before re-queueing',
           'an action can be re-queued without its repetition counter '
           'advancing: the run may not terminate', fi=u.fi, node=st)
    bounded = False
    for e, val in u.guards(n):
      if isinstance(e, ast.Compare) and 'iteration_repetitions' in norm(e) and \
          'action_iterations_complete' in norm(e):
        op = e.ops[0]
        counter_left = 'action_iterations_complete' in norm(e.left)
        # the counter was already incremented, so the action has run
        # `counter` times: re-queue exactly when counter < repetitions
        if counter_left:
          bounded = (isinstance(op, ast.GtE) and not val) or \
              (isinstance(op, ast.Lt) and val)
        else:
          bounded = (isinstance(op, ast.LtE) and not val) or \
              (isinstance(op, ast.Gt) and val)
    chk.ob('C14-R3', bounded, None,
           're-queueing only while counter < declared repetitions',
           'an action is re-queued although its counter reached the declared '
           'number of repetitions', fi=u.fi, node=st)
    stop_checked = any('ActionIterationWantsToStopBySignal' in norm(e) and not val
                       for e, val in u.guards(n))
    chk.ob('C14-R3', stop_checked, None, 're-queueing only when no stop signal',
           'the stop signal is not consulted before re-queueing', fi=u.fi, node=st)
  # position of the re-queued action: behind the members of ITS OWN iteration
  # that are still at the head of the queue - not behind members of another
  # iteration (two adjacent iteration blocks would interleave their rounds and
  # the later one would read tables the earlier one is still recomputing)
  one = [p_ for p_ in u.fi.params if p_ != 'self'][0]
  # the search for the position: a `while` over an index, or a `for` over the
  # queue with a break at the first action of another iteration
  skips = []
  queue_elems = set()
  for x in walk_local(u.fi.node):
    if isinstance(x, ast.While):
      skips.append(x.test)
    elif isinstance(x, ast.For) and 'actions_to_run' in norm(x.iter):
      queue_elems |= {n_.id for n_ in ast.walk(x.target) if isinstance(n_, ast.Name)}
      for y in ast.walk(x):
        if isinstance(y, ast.If):
          skips.append(y.test)
  same_iter = False
  for t_ in skips:
    for c in ast.walk(u.expand(t_)):
      if isinstance(c, ast.Compare) and len(c.ops) == 1 and isinstance(c.ops[0], (ast.Eq, ast.NotEq)):
        l, r_ = norm(c.left, 300), norm(c.comparators[0], 300)
        queued = lambda t: 'actions_to_run' in t or any(
            ('[%s]' % q_) in t for q_ in queue_elems)
        if 'action_iteration[' in l and 'action_iteration[' in r_ and \
            ((one in l) != (one in r_)) and (queued(l) or queued(r_)):
          same_iter = True
  if skips or any(call_tail(st.value) == 'insert' if isinstance(st, ast.Expr) else True
                  for n, st in requeue):
    chk.ob('C14-R3', same_iter, None,
           'a re-queued action goes behind the queued members of its own iteration only',
           'the position search does not compare the iteration of the queued '
           'action with the iteration of the action being re-queued: rounds of '
           'adjacent iterations interleave, a statement runs before its input '
           'iteration has finished', fi=u.fi)

  # the iteration table of an execution is built once and never edited
  um = repo.by_name('universe')
  bad = []
  assigns = []
  for q, fi in um.funcs.items():
    for x in walk_local(fi.node):
      if isinstance(x, ast.Assign):
        for t in x.targets:
          if isinstance(t, ast.Attribute) and t.attr == 'iterations' and dotted(t):
            assigns.append((fi, x))
          if isinstance(t, ast.Subscript) and (dotted(t.value) or '').endswith('.iterations'):
            bad.append((fi, x))
      elif isinstance(x, ast.Delete):
        for t in x.targets:
          if isinstance(t, ast.Subscript) and (dotted(t.value) or '').endswith('.iterations'):
            bad.append((fi, x))
      elif isinstance(x, ast.Call) and isinstance(x.func, ast.Attribute) and \
          x.func.attr in ('pop', 'popitem', 'clear', 'update', 'setdefault') and \
          (dotted(x.func.value) or '').endswith('.iterations'):
        bad.append((fi, x))
  owners = {fi.fq for fi, x in assigns}
  chk.ob('C14-R3', not bad and owners <= {'universe.Logica.__init__',
                                           'universe.LogicaProgram.InitializeExecution'},
         None, 'the @Iteration table of an execution is assigned once and never edited',
         '%s edits execution.iterations in place (%s): members of an iteration '
         'lose their repetition count, for this or a later execution' % (
             ', '.join(sorted({fi.fq for fi, x in bad}) or sorted(owners)),
             norm(bad[0][1], 60) if bad else 'assignment outside InitializeExecution'),
         fi=bad[0][0] if bad else um.func('LogicaProgram.InitializeExecution'))
  it = um.func('Annotations.Iterations')
  fresh = [x for x in walk_local(it.node) if isinstance(x, ast.Assign) and
           dotted(x.targets[0]) == 'result' and isinstance(x.value, ast.Dict)]
  rets = [x for x in walk_local(it.node) if isinstance(x, ast.Return)]
  cached = [x for x in walk_local(it.node) if isinstance(x, ast.Assign) and any(
      isinstance(t, ast.Attribute) and dotted(t.value) == 'self' for t in x.targets)]
  chk.ob('C14-R3', bool(fresh) and all(dotted(r.value) == 'result' for r in rets) and not cached,
         None, 'Annotations.Iterations() builds a fresh table on every call',
         'Iterations() hands out a cached object: every execution shares one '
         'table, so an edit made for one requested predicate is seen by the next',
         fi=it)
  m = repo.by_name('concertina_lib')
  writers = set()
  for fi in m.funcs.values():
    for x in walk_local(fi.node):
      tgt = None
      if isinstance(x, ast.Assign):
        for t in x.targets:
          base = t.value if isinstance(t, ast.Subscript) else t
          if dotted(base) == 'self.actions_to_run':
            tgt = t
      elif isinstance(x, ast.Delete):
        for t in x.targets:
          base = t.value if isinstance(t, ast.Subscript) else t
          if dotted(base) == 'self.actions_to_run':
            tgt = t
      elif isinstance(x, ast.AugAssign) and dotted(x.target) == 'self.actions_to_run':
        tgt = x.target
      elif isinstance(x, ast.Call) and receiver(x) == 'self.actions_to_run' and \
          call_tail(x) in ('append', 'insert', 'extend', 'pop', 'remove', 'clear', 'sort', 'reverse'):
        tgt = x
      if tgt is not None:
        writers.add(fi.fq)
  allowed = {'concertina_lib.Concertina.__init__',
             'concertina_lib.Concertina.RunOneAction',
             'concertina_lib.Concertina.UpdateStateForIterativeAction'}
  chk.ob('C14-R3', writers <= allowed and len(writers) >= 3, None,
         'queue owners: %s' % ', '.join(sorted(w.split('.')[-1] for w in writers)),
         'actions_to_run is also modified by %s' % sorted(writers - allowed),
         fi=u.fi)
  r1 = FnView(repo, 'concertina_lib.Concertina.RunOneAction')
  ups = r1.calls('concertina_lib.Concertina.UpdateStateForIterativeAction')
  ok = bool(ups)
  for n, c in ups:
    g = [(e, val) for e, val in r1.guards(n) if 'action_iterations_complete' in norm(e)]
    iter_only = any(isinstance(e, ast.Compare) and (
        (isinstance(e.ops[0], ast.NotIn) and not val) or
        (isinstance(e.ops[0], ast.In) and val)) for e, val in g)
    ok = ok and iter_only
  chk.ob('C14-R3', ok, None, 'only iterated actions reach UpdateStateForIterativeAction',
         'non-iterated actions can be re-queued: they would run more than once',
         fi=r1.fi)
  dels = [n for n in r1.cfg.stmt_nodes() if isinstance(r1.cfg.stmt[n], ast.Delete)
          and 'actions_to_run[0]' in norm(r1.cfg.stmt[n])]
  runs = [(n, c) for n, c in r1.all_calls() if call_tail(c) == 'Run' and
          (receiver(c) or '').endswith('engine')]
  ok = bool(dels) and bool(runs) and all(
      r1.cfg.must_pass_before(n, dels) for n, _ in runs)
  chk.ob('C14-R3', ok, None, 'the head of the queue is removed before it is run',
         'an action is run without being dequeued: it runs again', fi=r1.fi)


def edge_shape(c):
  if not c.args or not isinstance(c.args[0], ast.Tuple) or len(c.args[0].elts) != 2:
    return False
  a, b = c.args[0].elts
  return dotted(a) == 'table' and isinstance(b, ast.Subscript) and \
      (dotted(b.value) or '').endswith('workflow_predicates_stack') and \
      norm(b.slice) == '-1'


def arg0(c):
  return dotted(c.args[0]) if c.args else None
