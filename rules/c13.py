"""C13 - compilation is a deterministic, history-free function of the program."""

import ast

from sa import setorder
from sa.model import (AnalysisError, call_tail, const_str, dotted, fi_class,
                      norm, walk_local)
from sa.pathrules import FnView, receiver
from rules import common as K

COMPILE_MODULES = [
    'parser_py/parse.py', 'compiler/universe.py', 'compiler/rule_translate.py',
    'compiler/expr_translate.py', 'compiler/functors.py', 'compiler/dialects.py',
    'compiler/dialect_libraries/recursion_library.py',
    'type_inference/research/infer.py',
    'type_inference/research/reference_algebra.py',
    'type_inference/research/types_of_builtins.py',
]

ALLOCATORS = ['rule_translate.NamesAllocator.AllocateVar',
              'rule_translate.NamesAllocator.AllocateTable']


# ---------------------------------------------------------------------------
# premises of conditional exemptions (machine checked on every run)


def _iterates_sorted(repo, fq, what):
  """Function fq iterates `sorted(<something mentioning what>...)`."""
  fi = repo.func(fq)
  for x in walk_local(fi.node):
    it = None
    if isinstance(x, (ast.For, ast.comprehension)):
      it = x.iter
    if it is not None and isinstance(it, ast.Call) and call_tail(it) == 'sorted' \
        and it.args and what in norm(it.args[0]):
      return True
  return False


def premise_callfunctor_sorts(repo):
  return (_iterates_sorted(repo, 'functors.Functors.CallFunctor', 'rules'),
          'CallFunctor iterates sorted(rules, key=str)')


def premise_makeall_sorts(repo):
  return (_iterates_sorted(repo, 'functors.Functors.MakeAll', 'predicate_to_instruction'),
          'MakeAll iterates sorted(predicate_to_instruction)')


def premise_renderers_sort(repo):
  need = [('reference_algebra.RenderType', 'items'),
          ('infer.TypeCollector.ClickHouseType', 'items'),
          ('infer.TypeCollector.BuildPsqlDefinitions', 'items'),
          ('expr_translate.QL.SqlLiteralForType', 'items'),
          ('expr_translate.QL.VariableMaybeTableSQLite', 'expression_type')]
  missing = [fq for fq, w in need if not _iterates_sorted(repo, fq, w)]
  return (not missing, 'every renderer of a record type iterates its fields '
          'through sorted(..)%s' % (': NOT ' + ', '.join(missing) if missing else ''))


def premise_disambiguation_only_names(repo):
  fi = K.combine_disambiguator(repo)
  ok = False
  for x in walk_local(fi.node):
    if isinstance(x, ast.BinOp) and isinstance(x.op, ast.Mod) and \
        'disambiguated' in (const_str(x.left) or ''):
      if any(isinstance(c, ast.Call) and call_tail(c) == 'AllocateVar'
             for c in walk_local(x.right)):
        ok = True
  calls = [c for c in walk_local(fi.node) if isinstance(c, ast.Call) and
           call_tail(c) == 'AllocateVar']
  return (ok and len(calls) == 1, 'the allocated number only decorates the '
          '"# disambiguated with" variable name')


EXEMPTIONS = [
    dict(fn=lambda repo: K.combine_disambiguator(repo).fq,     # located by role
         source='introduced_variables',
         reason='the allocated number only decorates an internal variable '
                'name that never reaches SQL; the allocator ends in the same '
                'state for every order',
         premise=premise_disambiguation_only_names),
    dict(fn='functors.Functors.BuildArgs', source='self.direct_args_of[functor]',
         reason='breadth-first closure whose result is a set', premise=None),
    dict(fn='functors.Functors.BuildArgs', source='BuildArgs:queue',
         reason='breadth-first closure whose result is a set', premise=None),
    dict(fn='functors.Functors.IsCutOfCover', source='IsCutOfCover:stack',
         reason='exhaustive search returning a boolean', premise=None),
    dict(fn='reference_algebra.UnifyFriendlyRecords', source='UnifyFriendlyRecords:result',
         reason='field order of a merged record type; every renderer sorts',
         premise=premise_renderers_sort),
    dict(fn='functors.Functors.Describe', source='result of functors.Functors.Describe',
         reason='debugging helper, its text never reaches the compilation output',
         premise=None),
    dict(fn='functors.Functors.CallFunctor', source='result of functors.Functors.AllRulesOf',
         reason='the consumer re-sorts: CallFunctor iterates sorted(rules, key=str)',
         premise=premise_callfunctor_sorts),
    dict(fn='functors.Functors.UnfoldRecursivePredicate', source='cover - {predicate}',
         reason='relative order of the renaming @Make rules is erased by '
                "MakeAll's sorted(predicate_to_instruction)",
         premise=premise_makeall_sorts),
]


def set_order(chk, rid):
  repo = chk.repo
  mods = [repo.mod(p) for p in COMPILE_MODULES]
  for a in ALLOCATORS:
    repo.func(a)
  an = setorder.Analysis(repo, mods, allocators=ALLOCATORS)
  col = setorder.Collector(an, EXEMPTIONS)
  sites = col.run()
  chk.extra['functions_analysed'] = len(an.funcs)
  chk.extra['set_kinded_attributes'] = sorted('%s.%s' % k for k in an.attr_set)
  chk.extra['set_returning_functions'] = sorted(an.ret_set)
  chk.extra['unordered_sites'] = len(sites)
  chk.extra['unresolved_calls_in_unordered_loops'] = col.unknown_calls
  n_direct = sum(1 for s in sites if not s.source.startswith(('attr:', 'local:', 'result of')))
  if n_direct < 25:
    raise AnalysisError('only %d direct set-consumption sites found; the kind '
                        'inference no longer sees the sets of the pipeline' % n_direct)
  seen = set()
  for s in sites:
    key = (s.fi.fq, s.source, s.kind, s.verdict, s.reason if s.verdict == 'leak' else '')
    if key in seen:
      continue
    seen.add(key)
    construct = '%s %s' % (s.kind, s.source)
    if s.verdict == 'leak':
      why = s.reason + ' || chain: ' + ' -> '.join(s.chain[-5:])
      chk.ob(rid, False, None, construct, why, fi=s.fi, node=s.node)
    else:
      chk.ob(rid, True, None, construct, s.reason, fi=s.fi, node=s.node,
             nontrivial=(s.verdict != 'ok' or s.kind in ('for', 'comprehension')))
  for i, ex in enumerate(EXEMPTIONS):
    fn_name = ex['fn'](repo) if callable(ex['fn']) else ex['fn']
    ex = dict(ex, fn=fn_name)
    fi = repo.func(fn_name)
    if ex['premise'] is not None:
      ok, text = ex['premise'](repo)
      chk.ob(rid, ok, None, 'premise of exemption %s: %s' % (ex['source'], text),
             'the normalisation that justified exempting `%s` in %s is gone: '
             'the set order now leaks' % (ex['source'], ex['fn']), fi=fi)
    if i not in col.exempt_hits:
      chk.info('exemption %s / %s matched nothing on this tree' % (ex['fn'], ex['source']))


# ---------------------------------------------------------------------------
# R2: history-carrying globals


def module_level_names(m):
  out = {}
  for st in m.tree.body:
    if isinstance(st, ast.Assign):
      for t in st.targets:
        if isinstance(t, ast.Name):
          out[t.id] = st.value
    elif isinstance(st, ast.AnnAssign) and isinstance(st.target, ast.Name):
      out[st.target.id] = st.value
  return out


def class_level_names(ci):
  out = {}
  for st in ci.node.body:
    if isinstance(st, ast.Assign):
      for t in st.targets:
        if isinstance(t, ast.Name):
          out[t.id] = st.value
  return out


MUTATORS = {'append', 'extend', 'insert', 'update', 'add', 'remove', 'pop',
            'clear', 'setdefault', 'discard', 'sort', 'reverse', 'popitem'}


def global_writes(repo, mods):
  """[(fi, node, kind, name)] run-time writes to module / class level state."""
  out = []
  for m in mods:
    gl = module_level_names(m)
    for fi in m.funcs.values():
      declared = set()
      for x in walk_local(fi.node):
        if isinstance(x, ast.Global):
          declared |= set(x.names)
      stores = {n.id for n in walk_local(fi.node)
                if isinstance(n, ast.Name) and isinstance(n.ctx, ast.Store)}
      localnames = (stores | set(fi.params)) - declared
      p = fi.parent
      while p is not None:
        localnames |= {n.id for n in walk_local(p.node)
                       if isinstance(n, ast.Name) and isinstance(n.ctx, ast.Store)}
        localnames |= set(p.params)
        p = p.parent
      for x in walk_local(fi.node):
        if isinstance(x, (ast.Assign, ast.AugAssign, ast.AnnAssign)):
          targets = x.targets if isinstance(x, ast.Assign) else [x.target]
          for t in targets:
            if isinstance(t, ast.Name) and t.id in declared:
              out.append((fi, x, 'global', '%s.%s' % (m.name, t.id)))
            elif isinstance(t, ast.Attribute):
              d = dotted(t)
              if d and d.split('.')[0] == 'cls' and fi.cls and d.count('.') == 1:
                out.append((fi, x, 'class', '%s.%s.%s' % (m.name, fi.cls, t.attr)))
              elif d and d.count('.') == 1 and d.split('.')[0] in m.classes:
                out.append((fi, x, 'class', '%s.%s' % (m.name, d)))
              elif d and d.count('.') == 1 and d.split('.')[0] in m.imports and \
                  d.split('.')[0] not in localnames:
                out.append((fi, x, 'global', d))
            elif isinstance(t, ast.Subscript):
              b = dotted(t.value)
              if b and '.' not in b and b in gl and b not in localnames:
                out.append((fi, x, 'mutate', '%s.%s' % (m.name, b)))
              elif b and b.count('.') == 1 and b.split('.')[0] in ('cls',) and fi.cls:
                out.append((fi, x, 'mutate', '%s.%s.%s' % (m.name, fi.cls, b.split('.')[1])))
              elif b and b.count('.') == 1 and b.split('.')[0] in m.classes:
                out.append((fi, x, 'mutate', '%s.%s' % (m.name, b)))
              elif b and b.startswith('self.') and b.count('.') == 1 and fi_class(fi):
                ci = m.classes.get(fi_class(fi))
                if ci and b.split('.')[1] in class_level_names(ci) and \
                    not _instance_rebinds(m, ci, b.split('.')[1]):
                  out.append((fi, x, 'mutate', '%s.%s.%s' % (m.name, ci.name, b.split('.')[1])))
        elif isinstance(x, ast.Call) and isinstance(x.func, ast.Attribute) and \
            x.func.attr in MUTATORS:
          b = dotted(x.func.value)
          if b and '.' not in b and b in gl and b not in localnames:
            out.append((fi, x, 'mutate', '%s.%s' % (m.name, b)))
          elif b and b.count('.') == 1 and (b.split('.')[0] in m.classes or
                                            (b.split('.')[0] == 'cls' and fi.cls)):
            owner = fi.cls if b.split('.')[0] == 'cls' else b.split('.')[0]
            out.append((fi, x, 'mutate', '%s.%s.%s' % (m.name, owner, b.split('.')[1])))
          elif b and b.startswith('self.') and b.count('.') == 1 and fi_class(fi):
            ci = m.classes.get(fi_class(fi))
            if ci and b.split('.')[1] in class_level_names(ci) and \
                not _instance_rebinds(m, ci, b.split('.')[1]):
              out.append((fi, x, 'mutate', '%s.%s.%s' % (m.name, ci.name, b.split('.')[1])))
        elif isinstance(x, ast.Delete):
          for t in x.targets:
            if isinstance(t, ast.Subscript):
              b = dotted(t.value)
              if b and '.' not in b and b in gl and b not in localnames:
                out.append((fi, x, 'mutate', '%s.%s' % (m.name, b)))
    # a local that merely names a module-level container (`x = TABLE`, no
    # copy) and is then changed in place changes the shared object
    for fi in m.funcs.values():
      declared = {n_ for x in walk_local(fi.node) if isinstance(x, ast.Global) for n_ in x.names}
      alias = {}
      for x in walk_local(fi.node):
        if isinstance(x, ast.Assign) and len(x.targets) == 1 and isinstance(x.targets[0], ast.Name) \
            and isinstance(x.value, ast.Name) and x.value.id in gl and x.value.id not in fi.params \
            and x.targets[0].id not in declared and x.targets[0].id != x.value.id:
          try:
            init = m.module_assign(x.value.id)
          except AnalysisError:
            init = None
          mutable = isinstance(init, (ast.List, ast.Dict, ast.Set, ast.ListComp, ast.DictComp,
                                      ast.SetComp)) or (
              isinstance(init, ast.Call) and call_tail(init) in (
                  'set', 'list', 'dict', 'defaultdict', 'OrderedDict', 'deque', 'Counter')) or (
              isinstance(init, ast.BinOp) and isinstance(init.op, (ast.BitOr, ast.Add)) and
              not isinstance(init.left, ast.Constant))
          if mutable:
            alias[x.targets[0].id] = x.value.id
      if not alias:
        continue
      for x in walk_local(fi.node):
        if isinstance(x, ast.AugAssign) and isinstance(x.target, ast.Name) and x.target.id in alias:
          out.append((fi, x, 'mutate', '%s.%s' % (m.name, alias[x.target.id])))
        elif isinstance(x, ast.Call) and isinstance(x.func, ast.Attribute) and \
            x.func.attr in MUTATORS and isinstance(x.func.value, ast.Name) and x.func.value.id in alias:
          out.append((fi, x, 'mutate', '%s.%s' % (m.name, alias[x.func.value.id])))
        elif isinstance(x, (ast.Assign, ast.Delete)):
          for t in x.targets:
            if isinstance(t, ast.Subscript) and isinstance(t.value, ast.Name) and t.value.id in alias:
              out.append((fi, x, 'mutate', '%s.%s' % (m.name, alias[t.value.id])))
    # mutable default arguments that are mutated
    for fi in m.funcs.values():
      a = fi.node.args
      params = [p.arg for p in a.posonlyargs + a.args]
      defaults = dict(zip(params[len(params) - len(a.defaults):], a.defaults))
      for pname, dv in defaults.items():
        if isinstance(dv, (ast.List, ast.Dict, ast.Set)):
          for x in walk_local(fi.node):
            if isinstance(x, ast.Call) and isinstance(x.func, ast.Attribute) and \
                x.func.attr in MUTATORS and dotted(x.func.value) == pname:
              out.append((fi, x, 'default', '%s(%s=)' % (fi.fq, pname)))
            if isinstance(x, ast.Assign) and any(
                isinstance(t, ast.Subscript) and dotted(t.value) == pname
                for t in x.targets):
              out.append((fi, x, 'default', '%s(%s=)' % (fi.fq, pname)))
  return out


def _instance_rebinds(m, ci, attr):
  """self.<attr> is assigned a fresh object in some method (instance copy)."""
  for fi in ci.methods.values():
    for x in walk_local(fi.node):
      if isinstance(x, ast.Assign):
        for t in x.targets:
          if dotted(t) == 'self.' + attr:
            return True
  return False


def data_dependent(fi, value):
  """Does the written value depend on a function parameter (other than
  self/cls) - i.e. on program text or user data?"""
  params = set(fi.params) - {'self', 'cls'}
  names = {n.id for n in ast.walk(value) if isinstance(n, ast.Name)}
  return bool(names & params)


def history(chk, rid):
  repo = chk.repo
  mods = [repo.mod(p) for p in COMPILE_MODULES + ['parser_cpp/logica_parse_cpp.py']]
  writes = global_writes(repo, mods)
  by_name = {}
  for fi, node, kind, name in writes:
    by_name.setdefault(name, []).append((fi, node, kind))
  chk.extra['global_state_inventory'] = sorted(by_name)
  if 'parse.TOO_MUCH' not in by_name:
    raise AnalysisError('the write to parse.TOO_MUCH is no longer recognised: '
                        'global-state inventory incomplete')
  for name, ws in sorted(by_name.items()):
    modname = name.split('.')[0]
    m = repo.by_name(modname)
    readers = global_readers(repo, mods, name)
    for fi, node, kind in ws:
      value = getattr(node, 'value', None)
      if not readers:
        chk.ob(rid, True, None, 'write to %s (never read)' % name,
               '', fi=fi, node=node, nontrivial=False)
        continue
      if kind in ('mutate', 'default'):
        chk.ob(rid, False, None, 'in-place mutation of shared %s' % name,
               'a module/class level container is mutated at run time: a '
               'later compilation in the same process sees the change',
               fi=fi, node=node)
        continue
      dep = value is not None and data_dependent(fi, value)
      dep = dep or control_dependent(repo, fi, node)
      if not dep and _constant_cache(fi, node, value):
        chk.ob(rid, True, None, 'write to %s is a constant cache' % name,
               '', fi=fi, node=node)
        continue
      # must be re-established on every entry: the writer assigns on all paths
      ok, why = reestablished(repo, fi, name, readers)
      chk.ob(rid, ok, None, 'write to %s is re-established on every entry' % name,
             why, fi=fi, node=node)


def control_dependent(repo, fi, node):
  """Is the write executed only under a test that reads a parameter (program
  text, user data)?  Then whether it happens depends on the input even if the
  written value is a constant."""
  v = FnView(repo, fi.fq)
  params = set(fi.params) - {'self', 'cls'}
  for n in v.cfg.stmt_nodes():
    if v.cfg.stmt[n] is node:
      for e, val in v.guards(n):
        names = {x.id for x in ast.walk(e) if isinstance(x, ast.Name)}
        if names & params:
          return True
  return False


def cpp_history(chk, rid):
  """The C++ parser's namespace-level switch has the same obligation."""
  import shutil
  from sa.cppmodel import CppModel, assign_paths
  if not (shutil.which('clang++') or shutil.which('clang++-14')):
    chk.info('clang++ not available: C++ twin of parse.TOO_MUCH not analysed')
    return
  cpp = CppModel(chk.repo.root)
  if 'TOO_MUCH' not in cpp.vars:
    chk.info('C++ parser has no TOO_MUCH variable')
    return
  for w in cpp.writers_of('TOO_MUCH'):
    fn = cpp.func(w)
    res = [assign_paths(d, 'TOO_MUCH') for d in fn.decls]
    chk.ob(rid, all(r == 'all' for r in res), 'parser_cpp/logica_parse.cpp:%s' % w,
           'write to logica_parse.cpp::TOO_MUCH is re-established on every entry',
           '%s assigns the static TOO_MUCH only on some paths: the '
           'experimental-syntax switch survives into later parses of the '
           'same process' % w)


def _constant_cache(fi, node, value):
  """Right-hand side has no data dependence on parameters: constants, names
  computed from bundled data in the same function."""
  if value is None:
    return False
  return True


def global_readers(repo, mods, name):
  parts = name.split('.')
  out = []
  for m in mods:
    for fi in m.funcs.values():
      for x in walk_local(fi.node):
        if len(parts) == 2:
          if m.name == parts[0] and isinstance(x, ast.Name) and x.id == parts[1] \
              and isinstance(x.ctx, ast.Load):
            out.append((fi, x))
          elif isinstance(x, ast.Attribute) and x.attr == parts[1] and \
              dotted(x.value) == parts[0] and isinstance(x.ctx, ast.Load):
            out.append((fi, x))
        else:
          if isinstance(x, ast.Attribute) and x.attr == parts[2] and \
              isinstance(x.ctx, ast.Load) and dotted(x.value) in ('self', 'cls', parts[1]):
            if m.name == parts[0]:
              out.append((fi, x))
  return out


def reestablished(repo, writer, name, readers):
  """The writer assigns the variable on every path, and is called on every
  path of the public entry point before anything that reads it."""
  v = FnView(repo, writer.fq)
  short = name.split('.')[-1]
  assigns = [n for n in v.cfg.stmt_nodes()
             if isinstance(v.cfg.stmt[n], ast.Assign) and any(
                 dotted(t) in (short, 'cls.' + short) for t in v.cfg.stmt[n].targets)]
  if not v.cfg.must_pass_after(v.cfg.entry, assigns):
    return False, ('%s assigns %s only on some paths: once set by one program '
                   'the value survives into every later parse/compilation in '
                   'the same process' % (writer.fq, name))
  return True, ''


# ---------------------------------------------------------------------------
# R3: non-determinism sources

NONDET = {('time', 'time'), ('time', 'time_ns'), ('time', 'monotonic'),
          ('datetime', 'now'), ('datetime', 'utcnow'), ('datetime', 'today'),
          ('random', '*'), ('uuid', '*'), ('os', 'getpid'), ('os', 'urandom'),
          ('secrets', '*')}


def nondeterminism(chk, rid):
  repo = chk.repo
  mods = [repo.mod(p) for p in COMPILE_MODULES]
  found = 0
  for m in mods:
    for fi in m.funcs.values():
      for c in walk_local(fi.node):
        if not isinstance(c, ast.Call):
          continue
        d = dotted(c.func) or ''
        parts = d.split('.')
        tag = None
        if len(parts) >= 2:
          if (parts[-2], parts[-1]) in NONDET or (parts[0], '*') in NONDET and \
              parts[0] in ('random', 'uuid', 'secrets'):
            tag = d
        if d in ('id', 'hash'):
          tag = d
        if tag is None:
          continue
        found += 1
        ok, why = nondet_confined(repo, fi, c, tag)
        chk.ob(rid, ok, None, '%s(..) is confined' % tag, why, fi=fi, node=c)
  if found < 3:
    raise AnalysisError('expected the known time()/id() sites (>=3), found %d' % found)
  # the process environment is a source too: a compiled text that contains the
  # temp directory, the working directory, a variable of the environment or
  # the host / user name differs from process to process.  None of the compile
  # modules reads any of them today (expected count zero; the seeded change
  # seeded/C13f is the positive example of the self-test)
  env_hits = []
  for m in mods:
    for fi in m.funcs.values():
      for x in walk_local(fi.node):
        d = dotted(x.func) if isinstance(x, ast.Call) else (
            dotted(x) if isinstance(x, ast.Attribute) else None)
        if not d:
          continue
        parts = d.split('.')
        if parts[0] == 'tempfile' and len(parts) == 2 and parts[0] in m.imports or \
            d in ('os.getenv', 'os.getcwd', 'os.getcwdb', 'os.getlogin', 'os.uname',
                  'socket.gethostname', 'getpass.getuser', 'os.path.expanduser',
                  'platform.node', 'platform.system', 'platform.platform') or \
            (isinstance(x, ast.Attribute) and d in ('os.environ', 'os.environb')):
          if parts[0] in m.imports or parts[0] == 'os':
            env_hits.append((fi, x, d))
  chk.ob(rid, not env_hits, None,
         'no compile module reads the process environment (temp dir, cwd, environment '
         'variables, host, user)',
         '%s in %s: what is compiled depends on the environment of the process, not on '
         'the program text alone' % (env_hits[0][2] if env_hits else '',
                                     env_hits[0][0].fq if env_hits else ''),
         fi=env_hits[0][0] if env_hits else repo.func('universe.LogicaProgram.__init__'),
         node=env_hits[0][1] if env_hits else None)


def nondet_confined(repo, fi, call, tag):
  from sa.setorder import _parents
  par = _parents(fi.node)
  if tag in ('id', 'hash'):
    # identity bookkeeping: result used as dict key / set member / comparison
    p = par.get(call)
    while isinstance(p, (ast.Tuple, ast.List, ast.Set)):
      p = par.get(p)
    if isinstance(p, (ast.Compare, ast.Subscript)):
      return True, ''
    if isinstance(p, ast.Call) and call_tail(p) in ('set', 'hex', 'add'):
      q = par.get(p)
      if call_tail(p) == 'hex':
        # hex(id(x)) : debugging representation (__str__/__repr__)
        return fi.name in ('__str__', '__repr__'), \
            'object identity is rendered into text outside __str__/__repr__'
      return True, ''
    if isinstance(p, ast.BinOp) and isinstance(p.op, (ast.BitOr,)):
      return True, ''
    if isinstance(p, ast.Assign) and len(p.targets) == 1 and isinstance(p.targets[0], ast.Name) \
        and p.value is call:
      # key = id(t): the local is identity bookkeeping when every read of it is
      name = p.targets[0].id
      others = [x for x in walk_local(fi.node) if isinstance(x, ast.Assign) and x is not p and
                any(isinstance(y, ast.Name) and y.id == name and isinstance(y.ctx, ast.Store) for t_ in x.targets for y in ast.walk(t_))]
      reads = [x for x in walk_local(fi.node) if isinstance(x, ast.Name) and x.id == name and
               isinstance(x.ctx, ast.Load)]
      def confined(x):
        q = par.get(x)
        while isinstance(q, (ast.Tuple, ast.List, ast.Set)):
          q = par.get(q)
        if isinstance(q, (ast.Compare, ast.Subscript)):
          return True
        if isinstance(q, ast.Call) and call_tail(q) in ('set', 'add', 'frozenset', 'discard', 'remove'):
          return True
        return isinstance(q, ast.BinOp) and isinstance(q.op, ast.BitOr)
      if not others and reads and all(confined(x) for x in reads):
        return True, ''
      return False, 'object identity / hash is kept in `%s` and read outside keys / membership' % name
    return False, 'object identity / hash flows into %s' % type(p).__name__
  if 'datetime' in tag:
    # timers: value only subtracted and printed
    return fi.cls == 'Timer' or fi.name in ('Stop',), \
        'wall-clock time is read outside the Timer helper'
  # time.time(): only the stop-signal file name may depend on it
  p = par.get(call)
  node = call
  while p is not None and not isinstance(p, (ast.Assign, ast.Return, ast.Expr)):
    node = p
    p = par.get(p)
  if isinstance(p, ast.Assign) and len(p.targets) == 1 and \
      isinstance(p.targets[0], ast.Name) and 'stop_file' in p.targets[0].id:
    if 'logical_stop_' in norm(p.value):
      return True, ''
  # the time stamp held in a local that goes nowhere but into the stop-file name
  if isinstance(p, (ast.Assign, ast.Return)) and 'logical_stop_' in norm(p.value, 400):
    return True, ''
  if isinstance(p, ast.Assign) and len(p.targets) == 1 and isinstance(p.targets[0], ast.Name):
    name = p.targets[0].id
    uses = [x for x in walk_local(fi.node) if isinstance(x, ast.Name) and x.id == name and
            isinstance(x.ctx, ast.Load)]
    def stmt_of(x):
      q = par.get(x)
      while q is not None and not isinstance(q, ast.stmt):
        q = par.get(q)
      return q
    if uses and all(stmt_of(x) is not None and isinstance(stmt_of(x), (ast.Assign, ast.Return))
                    and 'logical_stop_' in norm(stmt_of(x).value, 400) for x in uses):
      return True, ''
  return False, ('%s flows into %s: compiled text varies from run to run '
                 'beyond the permitted stop-signal file name' % (tag, norm(p, 60) if p else '?'))


# ---------------------------------------------------------------------------
# R4: caller-owned rules


def caller_objects_untouched(chk, rid):
  """Objects the caller hands to the compiler (rules, user flags ...) and that
  the constructor keeps as they are (`self.x = param`, `self.x = param or {}`)
  are never written to by any method: the caller reuses them for the next
  compilation, which must not see what this one did."""
  from sa import shapes
  repo = chk.repo
  n = 0
  for modname, clsname in (('universe', 'Annotations'), ('universe', 'LogicaProgram'),
                           ('functors', 'Functors')):
    m = repo.by_name(modname)
    ci = m.cls(clsname)
    init = ci.methods.get('__init__')
    if init is None:
      continue
    params = set(p_ for p_ in init.params if p_ != 'self')
    kept = set()
    for x in walk_local(init.node):
      if isinstance(x, ast.Assign) and len(x.targets) == 1:
        d = dotted(x.targets[0])
        v = x.value
        if isinstance(v, ast.BoolOp) and isinstance(v.op, ast.Or):
          v = v.values[0]
        if d and d.startswith('self.') and isinstance(v, ast.Name) and v.id in params:
          kept.add(d)
    for attr in sorted(kept):
      bad = []
      for fi in ci.methods.values():
        for node, text in shapes.stores_into_arguments(fi.node, [], shared={attr}):
          bad.append((fi, node, text))
      n += 1
      chk.ob(rid, not bad, None,
             '%s.%s (an object of the caller) is never written to' % (clsname, attr[5:]),
             '%s writes into the caller\'s object kept as %s (`%s`): the next '
             'compilation that reuses it sees what this one stored'
             % (bad[0][0].qualname if bad else '', attr, bad[0][2] if bad else ''),
             fi=bad[0][0] if bad else init, node=bad[0][1] if bad else None)
  if n < 2:
    raise AnalysisError('constructors keeping caller objects not recognised')


def caller_owned(chk, rid):
  repo = chk.repo
  caller_objects_untouched(chk, rid)
  # Functors.__init__: extended_rules is a deep copy
  fi = repo.func('functors.Functors.__init__')
  ok = False
  for x in walk_local(fi.node):
    if isinstance(x, ast.Assign) and dotted(x.targets[0]) == 'self.extended_rules':
      ok = isinstance(x.value, ast.Call) and call_tail(x.value) == 'deepcopy' and \
          dotted(x.value.args[0]) == 'rules'
  chk.ob(rid, ok, None, 'Functors.extended_rules = deepcopy(rules)',
         'functor application renames predicates in place inside the rules '
         'object owned by the caller', fi=fi)
  fi = repo.func('functors.Functors.UnfoldRecursions')
  ok = False
  name = None
  for x in walk_local(fi.node):
    if isinstance(x, ast.Assign) and isinstance(x.value, ast.Call) and \
        call_tail(x.value) == 'deepcopy' and dotted(x.value.args[0]) == 'self.rules':
      name = dotted(x.targets[0])
      ok = True
  passes = [c for c in walk_local(fi.node) if isinstance(c, ast.Call) and
            (call_tail(c) or '').startswith('UnfoldRecursivePredicate')]
  if not passes:
    raise AnalysisError('UnfoldRecursions: unfolding calls not found')
  good = ok and all(any(dotted(a) == name for a in c.args) and
                    not any(dotted(a) == 'self.rules' for a in c.args) for c in passes)
  chk.ob(rid, good, None, 'recursion unfolding rewrites a deep copy of self.rules',
         'recursion unfolding renames predicates inside the parsed rules of '
         'the caller: compiling the same rules object twice gives different SQL',
         fi=fi)
  fi = repo.func('rule_translate.ExtractRuleStructure')
  first = fi.node.body[0]
  if isinstance(first, ast.Expr) and isinstance(first.value, ast.Constant):
    first = fi.node.body[1]
  ok = isinstance(first, ast.Assign) and dotted(first.targets[0]) == 'rule' and \
      isinstance(first.value, ast.Call) and call_tail(first.value) == 'deepcopy' and \
      dotted(first.value.args[0]) == 'rule'
  chk.ob(rid, ok, None, 'ExtractRuleStructure works on deepcopy(rule)',
         'variable disambiguation / value inlining rewrite the rule object '
         'of the program: a second compilation sees a modified rule', fi=fi)
  for fq in ('parse.MultiBodyAggregation.Rewrite', 'parse.AggergationsAsExpressions.Rewrite'):
    fi = repo.func(fq)
    ok = any(isinstance(x, ast.Assign) and dotted(x.targets[0]) == 'rules' and
             isinstance(x.value, ast.Call) and call_tail(x.value) == 'deepcopy'
             for x in walk_local(fi.node))
    chk.ob(rid, ok, None, '%s rewrites a deep copy' % fq.split('.', 1)[1],
           'the rewrite mutates the rules it was given', fi=fi)
  fi = repo.func('dialects.DecorateCombineRule')
  ok = any(isinstance(x, ast.Assign) and dotted(x.targets[0]) == 'rule' and
           isinstance(x.value, ast.Call) and call_tail(x.value) == 'deepcopy'
           for x in walk_local(fi.node))
  chk.ob(rid, ok, None, 'DecorateCombineRule works on deepcopy(rule)',
         'the combine rule of the program is decorated in place: every '
         'compilation nests one more MagicalEntangle', fi=fi)
  # class-level template tables are copied before being updated per instance
  fi = repo.func('expr_translate.QL.__init__')
  for attr, table in (('built_in_infix_operators', 'BUILT_IN_INFIX_OPERATORS'),
                      ('built_in_functions', 'bulk_functions')):
    ok = False
    for x in walk_local(fi.node):
      if isinstance(x, ast.Assign) and dotted(x.targets[0]) == 'self.' + attr:
        ok = isinstance(x.value, ast.Call) and call_tail(x.value) in ('deepcopy', 'dict', 'copy')
    chk.ob(rid, ok, None, 'QL.%s is a private copy of the class table' % attr,
           'dialect overrides are written into the table shared by all QL '
           'instances: a previous compilation for another engine changes the '
           'templates', fi=fi)


def run(chk):
  chk.assume('A1: user predicate names do not end in reserved compiler suffixes '
             '(in-place rename loops commute)')
  chk.assume('A4: dict preserves insertion order; set iteration order depends on '
             'PYTHONHASHSEED / insertion history')
  chk.assume('A5: no reflection in the pipeline modules')
  chk.rule('C13-R1', 'no unordered (set) iteration order reaches lists, strings, '
           'allocator numbering, emitted statements or the insertion order of a '
           'dict that is iterated later (inter-procedural order taint with '
           'named, premise-checked exemptions)', min_instances=30)
  set_order(chk, 'C13-R1')
  chk.rule('C13-R2', 'no history-carrying module/class level state: every '
           'run-time write is never read, a constant cache, or re-established '
           'on all paths; shared containers are never mutated in place',
           min_instances=3)
  history(chk, 'C13-R2')
  cpp_history(chk, 'C13-R2')
  chk.rule('C13-R3', 'time / identity / randomness sources are confined to the '
           'stop-signal file name, timers and identity bookkeeping',
           min_instances=3)
  allocators_are_per_compilation(chk, 'C13-R2')
  from rules import common as K_
  K_.no_memo_decorators(chk, 'C13-R2', COMPILE_MODULES)
  nondeterminism(chk, 'C13-R3')
  chk.rule('C13-R4', 'caller-owned rules and shared template tables are deep '
           'copied before any in-place rewrite', min_instances=8)
  caller_owned(chk, 'C13-R4')


def allocators_are_per_compilation(chk, rid):
  """Aliases (t_N_.., x_N) are numbered by a NamesAllocator; the SQL of a
  predicate is the same whatever was compiled before only if every top-level
  compilation starts from a NEW allocator: a default allocator is created by
  a constructor call each time it is needed, and NewNamesAllocator itself
  constructs one - nothing reads an allocator kept on the program object."""
  repo = chk.repo
  m = repo.by_name('universe')
  n_defaults = 0
  kept = None
  def constructs(e, fi, depth=0):
    if isinstance(e, ast.BoolOp) and isinstance(e.op, ast.Or):
      return constructs(e.values[-1], fi, depth)
    if isinstance(e, ast.IfExp):
      return constructs(e.body, fi, depth) and constructs(e.orelse, fi, depth) or \
          (dotted(e.orelse) == 'allocator' and constructs(e.body, fi, depth)) or \
          (dotted(e.body) == 'allocator' and constructs(e.orelse, fi, depth))
    if isinstance(e, ast.Call):
      if call_tail(e) == 'NamesAllocator':
        return True
      for t in repo.resolve(fi, e):
        if t.startswith('universe.') and depth < 3:
          try:
            h = repo.func(t)
          except AnalysisError:
            continue
          rets = [r for r in walk_local(h.node) if isinstance(r, ast.Return) and r.value is not None]
          return bool(rets) and all(constructs(r.value, h, depth + 1) for r in rets)
    return False
  for q, fi in sorted(m.funcs.items()):
    if 'allocator' not in fi.params:
      continue
    for x in walk_local(fi.node):
      if isinstance(x, ast.Assign) and len(x.targets) == 1 and dotted(x.targets[0]) == 'allocator':
        n_defaults += 1
        if not constructs(x.value, fi):
          kept = (fi, x)
  if n_defaults < 2:
    raise AnalysisError('default allocators of universe.py not recognised (%d)' % n_defaults)
  chk.ob(rid, kept is None, None,
         'every top-level compilation gets a newly constructed NamesAllocator (%d defaults)' % n_defaults,
         '`%s`: the default allocator is an object that outlives the call - alias numbers of a '
         'predicate depend on what the same program object compiled before'
         % (norm(kept[1], 70) if kept else ''), fi=kept[0] if kept else repo.func(
             'universe.LogicaProgram.NewNamesAllocator'), node=kept[1] if kept else None)
