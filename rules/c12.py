"""C12 - imports: mechanism liveness and diagnostics (structural clauses)."""

import ast

from sa.model import (AnalysisError, call_tail, const_str, dotted, kwarg, norm,
                      walk_local)
from sa.pathrules import FnView, raised_type, receiver
from rules import common as K
from rules.c19 import expanded_idents, idents

PF = 'parse.ParseFile'
PI = 'parse.ParseImport'


class _Unknown(Exception):
  pass


def tiny_eval(e, env):
  """Evaluates a side-effect free int/bool expression over env (names ->
  ints, 'len:<name>' -> int)."""
  if isinstance(e, ast.Constant) and isinstance(e.value, (int, bool)):
    return e.value
  if isinstance(e, ast.Name):
    if e.id in env:
      return env[e.id]
    raise _Unknown(e.id)
  if isinstance(e, ast.UnaryOp):
    v = tiny_eval(e.operand, env)
    if isinstance(e.op, ast.USub):
      return -v
    if isinstance(e.op, ast.Not):
      return not v
    if isinstance(e.op, ast.UAdd):
      return +v
  if isinstance(e, ast.BinOp):
    l, r = tiny_eval(e.left, env), tiny_eval(e.right, env)
    if isinstance(e.op, ast.Add):
      return l + r
    if isinstance(e.op, ast.Sub):
      return l - r
    if isinstance(e.op, ast.Mult):
      return l * r
  if isinstance(e, ast.Call):
    t = call_tail(e)
    if t == 'len' and e.args and dotted(e.args[0]) and 'len:' + dotted(e.args[0]) in env:
      return env['len:' + dotted(e.args[0])]
    if t == 'abs' and e.args:
      return abs(tiny_eval(e.args[0], env))
  if isinstance(e, ast.BoolOp):
    vals = [tiny_eval(v, env) for v in e.values]
    return all(vals) if isinstance(e.op, ast.And) else any(vals)
  if isinstance(e, ast.Compare):
    left = tiny_eval(e.left, env)
    for op, c in zip(e.ops, e.comparators):
      right = tiny_eval(c, env)
      ok = {ast.Gt: left > right, ast.GtE: left >= right, ast.Lt: left < right,
            ast.LtE: left <= right, ast.Eq: left == right,
            ast.NotEq: left != right}.get(type(op))
      if ok is None:
        raise _Unknown(norm(e))
      if not ok:
        return False
      left = right
    return True
  raise _Unknown(norm(e, 40))


def prefix_search(chk, rid):
  """The prefix-uniquification loop can use every component of the path."""
  repo = chk.repo
  m = repo.by_name('parse')
  found = []
  for q, f in m.funcs.items():
    for x in walk_local(f.node):
      if isinstance(x, ast.While) and isinstance(x.test, ast.Compare) and \
          isinstance(x.test.ops[0], ast.In) and 'prefix' in norm(x.test.left):
        found.append((f, x))
      # the same search written as `for idx in itertools.count(a, step)` with a
      # break when the prefix is free
      if isinstance(x, ast.For) and isinstance(x.iter, ast.Call) and call_tail(x.iter) == 'count' \
          and isinstance(x.target, ast.Name) and any(
              isinstance(b_, ast.If) and 'prefix' in norm(b_.test) and
              any(isinstance(z, ast.Break) for z in b_.body) for b_ in x.body):
        found.append((f, x))
  if len(found) != 1:
    raise AnalysisError('parse.py: prefix uniquification loop not recognised (%d candidates)' % len(found))
  host, loop = found[0]
  v = FnView(repo, host.fq)
  # ordering: when the prefix is chosen every import of this file is parsed
  pf = FnView(repo, PF)
  if host.fq == PF:
    pnodes = [n for n in pf.cfg.stmt_nodes() if pf.cfg.stmt[n] is loop]
  else:
    pnodes = [n for n, c in pf.calls(host.fq)]
  if not pnodes:
    raise AnalysisError('ParseFile does not reach the prefix computation')
  imps = pf.calls(PI)
  late = [c for n, c in imps if any(n in pf.cfg.reachable(p) for p in pnodes)]
  chk.ob(rid, bool(imps) and not late, None,
         'the per-file prefix is chosen after the imports of the file were parsed',
         'ParseImport can run after the prefix of the importing file was chosen: '
         'a file still being parsed has a prefix that is recorded nowhere, so an '
         'imported file with the same base name picks the same prefix',
         fi=pf.fi, node=late[0] if late else None)
  step = None
  idxname = None
  guard = None
  reads = []
  first_used = None
  if isinstance(loop, ast.For):
    idxname = loop.target.id
    cargs = loop.iter.args
    try:
      first_used = tiny_eval(cargs[0], {}) if cargs else 0
      step = tiny_eval(cargs[1], {}) if len(cargs) > 1 else 1
    except _Unknown as e:
      raise AnalysisError('prefix loop: itertools.count arguments not constant (%s)' % e)
  for st in loop.body:
    if isinstance(st, ast.AugAssign) and isinstance(st.target, ast.Name) and \
        isinstance(st.value, ast.Constant) and isinstance(st.op, (ast.Sub, ast.Add)):
      idxname = st.target.id
      step = -st.value.value if isinstance(st.op, ast.Sub) else st.value.value
    elif isinstance(st, ast.Assert):
      guard = ('assert', st.test)
    elif isinstance(st, ast.If) and any(isinstance(z, ast.Raise) for z in st.body):
      guard = ('raise-if', st.test)
  if idxname is None:
    raise AnalysisError('ParseFile: index step of the prefix loop not recognised')
  for x in ast.walk(loop):
    if isinstance(x, ast.Subscript) and dotted(x.slice) == idxname:
      reads.append(dotted(x.value))
  init = [x.value for x in walk_local(v.fi.node) if isinstance(x, ast.Assign) and
          any(isinstance(t, ast.Name) and t.id == idxname for t in x.targets) and
          x.lineno < loop.lineno]
  if (first_used is None and len(init) != 1) or not reads:
    raise AnalysisError('ParseFile: prefix loop initialisation / component read not recognised')
  seq = reads[0]
  # components read with a constant index before the loop (the base name)
  const_reads = []
  for x in walk_local(v.fi.node):
    if isinstance(x, ast.Subscript) and dotted(x.value) == seq and x.lineno < loop.lineno:
      try:
        const_reads.append(tiny_eval(x.slice, {}))
      except _Unknown:
        pass
  problems = []
  explored = 0
  for nparts in (2, 3, 4):
    env = {'len:' + seq: nparts}
    if first_used is None:
      try:
        idx = tiny_eval(init[0], env)
      except _Unknown as e:
        raise AnalysisError('prefix loop: cannot evaluate initial index (%s)' % e)
      used = {idx % nparts if -nparts <= idx < nparts else None}
    else:
      idx = first_used - step
      used = {c_ % nparts for c_ in const_reads if -nparts <= c_ < nparts}
    for k in range(1, nparts):
      idx += step
      env[idxname] = idx
      explored += 1
      if guard is not None:
        try:
          g = tiny_eval(guard[1], env)
        except _Unknown as e:
          raise AnalysisError('prefix loop: cannot evaluate guard (%s)' % e)
        passes = g if guard[0] == 'assert' else not g
        if not passes:
          problems.append('with %d path components the guard `%s` rejects %s=%d, so '
                          'component %d of the path can never be used' % (
                              nparts, norm(guard[1]), idxname, idx, idx % nparts))
          break
      if not (-nparts <= idx < nparts):
        problems.append('index %d out of range for %d components' % (idx, nparts))
        break
      used.add(idx % nparts)
    else:
      if used != set(range(nparts)):
        problems.append('components used %s of %d' % (sorted(used), nparts))
  chk.more_evaluations += explored
  chk.ob(rid, not problems, None,
         'prefix loop can extend the prefix with every component of the import path',
         '; '.join(problems[:2]) + ': two imported files with the same base name '
         'cannot be told apart (the collision is an internal error / rejection)',
         fi=v.fi, node=loop)
  # the guard must still stop the loop before indexing past the path
  if guard is not None:
    env = {'len:' + seq: 2, idxname: -3 if step < 0 else 2}
    try:
      g = tiny_eval(guard[1], env)
      stops = (not g) if guard[0] == 'assert' else g
    except _Unknown:
      stops = True
    chk.ob(rid, stops, None, 'prefix loop stops when the path has no component left',
           'the guard lets the index run past the path: IndexError', fi=v.fi, node=loop)
  else:
    chk.ob(rid, False, None, 'prefix loop stops when the path has no component left',
           'no guard: IndexError when all components are used', fi=v.fi, node=loop)


def run(chk):
  repo = chk.repo
  chk.rule('C12-R1', 'prefix search space: the loop that makes the per-file '
           'prefix unique can use every component of the import path '
           '(evaluated for paths of 2-4 components) and stops at the end',
           min_instances=2)
  prefix_search(chk, 'C12-R1')

  chk.rule('C12-R2', 'cycle detection / single inclusion: the in-progress '
           'marker is stored before the recursive ParseFile and replaced '
           'after it; an in-progress file raises, a finished file is not '
           'parsed again', min_instances=5)
  v = FnView(repo, PI)
  stores = []
  for n in v.cfg.stmt_nodes():
    st = v.cfg.stmt[n]
    if isinstance(st, ast.Assign) and isinstance(st.targets[0], ast.Subscript) and \
        dotted(st.targets[0].value) == 'parsed_imports':
      stores.append((n, st))
  marker = [(n, s) for n, s in stores if isinstance(s.value, ast.Constant) and s.value.value is None]
  final = [(n, s) for n, s in stores if not isinstance(s.value, ast.Constant)]
  rec = v.calls(PF)
  if not rec:
    raise AnalysisError('ParseImport no longer calls ParseFile')
  chk.ob('C12-R2', bool(marker) and all(v.cfg.must_pass_before(r[0], [m[0] for m in marker]) for r in rec),
         None, 'in-progress marker stored before the recursive ParseFile',
         'a file is parsed without being marked as in progress: an import '
         'cycle recurses forever', fi=v.fi)
  chk.ob('C12-R2', bool(final) and all(v.cfg.must_pass_after(r[0], [f[0] for f in final]) for r in rec),
         None, 'the parsed file replaces the marker after ParseFile',
         'the marker is never replaced: a second importer of the same file '
         'is told the import is circular', fi=v.fi)
  same_key = len({norm(s.targets[0].slice) for n, s in stores}) == 1
  chk.ob('C12-R2', same_key, None, 'marker and result are stored under the same key', '', fi=v.fi,
         nontrivial=False)
  present = [n for n in v.cfg.stmt_nodes() if isinstance(v.cfg.stmt[n], ast.If) and
             isinstance(v.cfg.stmt[n].test, ast.Compare) and
             isinstance(v.cfg.stmt[n].test.ops[0], ast.In) and
             dotted(v.cfg.stmt[n].test.comparators[0]) == 'parsed_imports']
  ok = bool(present) and all(v.cfg.must_pass_before(m[0], present) for m in marker) and \
      all(v.cfg.must_pass_before(r[0], present) for r in rec)
  chk.ob('C12-R2', ok, None, 'the already-imported test precedes marking and parsing',
         'a file can be parsed again although it is already in parsed_imports', fi=v.fi)
  circ = []
  for n, r in v.raises():
    if raised_type(repo, v.fi, r) == 'ParsingException' and v.live(n):
      g = v.guards(n)
      if any(val and isinstance(e, ast.Compare) and isinstance(e.ops[0], ast.Is) and
             isinstance(e.comparators[0], ast.Constant) and e.comparators[0].value is None
             for e, val in g):
        circ.append(n)
  chk.ob('C12-R2', bool(circ), None, 'an import that is still in progress raises ParsingException',
         'circular imports are not diagnosed', fi=v.fi)
  # finished file: returns without parsing again
  early = []
  for n, r in v.returns():
    g = v.guards(n)
    if any(val and isinstance(e, ast.Compare) and isinstance(e.ops[0], ast.In) and
           dotted(e.comparators[0]) == 'parsed_imports' for e, val in g):
      early.append(n)
  chk.ob('C12-R2', bool(early), None, 'a finished import returns without parsing the file again',
         'a file imported along several paths is included more than once', fi=v.fi)

  # what stands for an imported file was parsed FOR THIS PROGRAM: the prefix of
  # its predicates is chosen against the files already parsed for the program
  # and is baked into every rule, so a parse made for another program (a
  # cross-call cache) brings another program's names
  foreign = None
  for n, st in final:
    values = [st.value]
    if isinstance(st.value, ast.Name):
      values = [x for x in v.assigned_from(st.value.id)]
    for val in values:
      ok_ = isinstance(val, ast.Call) and PF in repo.resolve(v.fi, val)
      if not ok_:
        foreign = (st, norm(val, 50) if isinstance(val, ast.AST) else str(val))
  chk.ob('C12-R2', foreign is None, None,
         'the stored parse of an imported file is the ParseFile result of this call',
         'parsed_imports receives `%s`, not a parse made for the importing program: '
         'the per-file prefix (and every name renamed with it) was chosen for some '
         'other program - private predicates of two files can collide' % (
             foreign[1] if foreign else ''), fi=v.fi, node=foreign[0] if foreign else None)

  chk.rule('C12-R3', 'renaming covers every defined and made predicate of an '
           'imported file (only @annotations and ++? are exempt) and uses the '
           "imported file's own prefix for imported names; the renaming walker "
           'is total', min_instances=6)
  f = FnView(repo, PF)
  loops = [x for x in walk_local(f.fi.node) if isinstance(x, ast.For) and
           'DefinedPredicates' in norm(x.iter)]
  ren = None
  for l in loops:
    if any(isinstance(c, ast.Call) and call_tail(c) == 'RenamePredicate' for c in ast.walk(l)):
      ren = l
  if ren is None:
    raise AnalysisError('ParseFile: renaming loop not found')
  chk.ob('C12-R3', 'DefinedPredicates' in norm(ren.iter) and 'MadePredicates' in norm(ren.iter)
         and isinstance(ren.iter, ast.BinOp) and isinstance(ren.iter.op, ast.BitOr), None,
         'renaming ranges over DefinedPredicates | MadePredicates',
         'predicates created by @Make (or defined by rules) keep their '
         'unprefixed name and collide across files', fi=f.fi, node=ren)
  excl = []
  for x in ast.walk(ren):
    if isinstance(x, ast.If):
      for c in ast.walk(x.test):
        if isinstance(c, ast.Compare) and const_str(c.comparators[0]) is not None:
          excl.append(const_str(c.comparators[0]))
  chk.ob('C12-R3', sorted(excl) == ['++?', '@'], None, 'only @... and ++? are exempt from renaming',
         'exemptions are %s' % sorted(excl), fi=f.fi, node=ren)
  # ... and the two name sets themselves are complete: every rule head (every
  # @Make target) is in them - a name left out keeps its unprefixed spelling
  for q_ in ('parse.DefinedPredicates', 'parse.MadePredicates', 'parse.DefinedPredicatesRules'):
    w_ = FnView(repo, q_)
    filt = [x for x in walk_local(w_.fi.node) if isinstance(x, ast.comprehension) and x.ifs] + \
        [x for x in walk_local(w_.fi.node) if isinstance(x, ast.If) and
         any(isinstance(y, (ast.Continue,)) for y in ast.walk(x))] + \
        [x for x in walk_local(w_.fi.node) if isinstance(x, ast.Call) and call_tail(x) in (
            'filter', 'difference', 'discard', 'remove', 'pop') ] + \
        [x for x in walk_local(w_.fi.node) if isinstance(x, ast.BinOp) and isinstance(x.op, ast.Sub)]
    if q_ == 'parse.DefinedPredicatesRules':
      filt = [x for x in filt if not isinstance(x, ast.Call)]
    chk.ob('C12-R3', not filt, None,
           '%s leaves no predicate out' % q_.split('.')[-1],
           'names are filtered (`%s`): a predicate of an imported file that is left out keeps '
           'its unprefixed name and collides with the same name in another file'
           % (norm(filt[0], 60) if filt else ''), fi=w_.fi, node=filt[0] if filt else None)
  rn = [c for c in ast.walk(ren) if isinstance(c, ast.Call) and call_tail(c) == 'RenamePredicate']
  ok = all(len(c.args) == 3 and isinstance(c.args[2], ast.BinOp) and
           'this_file_prefix' in norm(c.args[2].left) for c in rn)
  chk.ob('C12-R3', ok, None, 'own predicates are renamed to <file prefix> + name', '', fi=f.fi)
  # guarded by non-main
  gl = [n for n in f.cfg.stmt_nodes() if f.cfg.stmt[n] is ren]
  g = f.guards(gl[0]) if gl else []
  def not_main(e, val):
    e = f.expand(e, 2)
    return isinstance(e, ast.Compare) and len(e.ops) == 1 and \
        const_str(e.comparators[0]) == 'main' and (
            (val and isinstance(e.ops[0], ast.NotEq)) or
            (val is False and isinstance(e.ops[0], ast.Eq)))
  ok = any(not_main(e, val) for e, val in g)
  chk.ob('C12-R3', ok, None, 'the main file keeps its predicate names', '', fi=f.fi, nontrivial=False)
  imp = [c for n, c in f.all_calls() if call_tail(c) == 'RenamePredicate' and
         not any(c is y for y in ast.walk(ren))]
  ok = bool(imp)
  for c in imp:
    third = f.expand(c.args[2], stop=('import_prefix',)) if len(c.args) > 2 else None
    if not (isinstance(third, ast.BinOp) and dotted(third.left) == 'import_prefix'):
      ok = False
  src = f.assigned_from('import_prefix')
  src_text = norm(f.expand(src[0], 3, stop=('import_prefix',)), 200) if len(src) == 1 and \
      isinstance(src[0], ast.AST) else ''
  ok = ok and len(src) == 1 and 'predicates_prefix' in src_text and \
      'parsed_imports' in src_text and ('imported_predicate_file' in src_text or
                                        "['file']" in src_text)
  chk.ob('C12-R3', ok, None, "imported names are renamed with the imported file's prefix",
         'uses of an imported predicate are renamed with %s' % (norm(src[0], 60) if src else '?'),
         fi=f.fi)

  # order of the two renaming passes: own predicates get the file prefix first,
  # then the uses of imported names are pointed at the imported definitions.
  # The other way round a predicate the importer defines under the imported
  # name swallows the import (both are renamed together) and the
  # "imported but not used" / "overridden" diagnostics never fire.
  ren_nodes = [n for n in f.cfg.stmt_nodes() if f.cfg.stmt[n] is ren]
  imp_nodes = [n for n, c in f.all_calls() if any(c is y for y in imp)]
  later = [n for n in imp_nodes if ren_nodes and ren_nodes[0] in f.cfg.reachable(n)]
  chk.ob('C12-R3', bool(ren_nodes) and bool(imp_nodes) and not later, None,
         'own predicates are prefixed before imported names are resolved',
         'the file prefix is applied after the imported names were renamed: a '
         'predicate the importing file defines under the name it imports is '
         'merged with the import instead of being diagnosed', fi=f.fi)

  rp = FnView(repo, 'parse.RenamePredicate')
  rets = rp.returns()
  # the only return is the last statement of the function body
  early = [r for n, r in rets if r is not rp.fi.node.body[-1]]
  chk.ob('C12-R3', len(rets) == 1 and not early, None,
         'RenamePredicate walks the whole tree (no early exit)',
         'RenamePredicate can return before visiting every child (`%s`): nodes '
         'it skips keep the unprefixed name and collide across files' % (
             norm(early[0], 60) if early else 'several returns'), fi=rp.fi)
  # for a dict and for a list, some path makes the recursive call on a child
  # of the node (abstract interpretation; the test on the child is left open)
  from sa.absint import Const, Interp, State, Sym
  import re as _re
  param = rp.fi.params[0]
  # the node being visited: the parameter, or what is popped from a work list
  # (recursion written as an explicit stack)
  worklists, nodes_ = set(), {param}
  for x in walk_local(rp.fi.node):
    if isinstance(x, ast.Assign) and isinstance(x.value, ast.Call) and \
        call_tail(x.value) in ('pop', 'popleft') and isinstance(x.value.func, ast.Attribute) and \
        isinstance(x.value.func.value, ast.Name) and isinstance(x.targets[0], ast.Name):
      worklists.add(x.value.func.value.id)
      nodes_.add(x.targets[0].id)
  derived = set(nodes_)
  grew = True
  while grew:
    grew = False
    for x in walk_local(rp.fi.node):
      tg, val = None, None
      if isinstance(x, ast.Assign) and isinstance(x.targets[0], ast.Name):
        tg, val = x.targets[0].id, x.value
      elif isinstance(x, (ast.For, ast.comprehension)) and isinstance(x.target, ast.Name):
        tg, val = x.target.id, x.iter
      if tg and tg not in derived and any(isinstance(n, ast.Name) and n.id in derived
                                         for n in ast.walk(val)):
        derived.add(tg)
        grew = True

  def mentions_derived(e):
    return any(isinstance(n, ast.Name) and n.id in derived for n in ast.walk(e))
  for kind in ('dict', 'list'):
    def call(node, st, interp, kind=kind):
      t = call_tail(node)
      if t == 'isinstance' and len(node.args) == 2 and isinstance(node.args[0], ast.Name) \
          and node.args[0].id in nodes_:
        names = {dotted(x) for x in ([node.args[1]] if not isinstance(node.args[1], ast.Tuple)
                                      else node.args[1].elts)}
        return Const(kind in names)
      if t == 'RenamePredicate' and node.args:
        if mentions_derived(node.args[0]):
          st.effects.append(('rec', norm(node.args[0])))
        return Sym('count')
      if t in ('append', 'extend', 'appendleft') and isinstance(node.func, ast.Attribute) and \
          isinstance(node.func.value, ast.Name) and node.func.value.id in worklists and node.args:
        if mentions_derived(node.args[0]):
          st.effects.append(('rec', norm(node.args[0])))
        return Const(None)
      return NotImplemented
    it = Interp(rp.fi.node, dict(call=call, loop=lambda n, s: 'body'), max_paths=2000)
    try:
      outs = it.run(State(env={param: Sym(param)}))
    except AnalysisError:
      outs = []
    hit = any(e[0] == 'rec' for o in outs for e in o.state.effects)
    chk.ob('C12-R3', hit, None, 'RenamePredicate recurses into the children of a %s' % kind,
           'for a %s node no path makes the recursive call on its children: '
           'predicate names below it keep the unprefixed name' % kind, fi=rp.fi)

  chk.rule('C12-R4', 'import diagnostics: undefined import, unused import, '
           'override of an imported predicate, missing file each raise '
           'ParsingException under the relevant test', min_instances=4)
  cases = [
      ('import of a predicate the file does not define', f,
       ['predicates_created_by_import']),
      ('import that is never used', f, ['rename_count']),
      ('override of an imported predicate', f, ['defined_predicates', 'new_predicates']),
      ('missing file', v, ['exists']),
  ]
  for label, view, mention in cases:
    hit = False
    for n, r in view.raises():
      if raised_type(repo, view.fi, r) != 'ParsingException' or not view.live(n):
        continue
      ids = set()
      for e, val in view.guards(n):
        ids |= expanded_idents(view, e)
      for h, pol in view.cfg.header_of(n):
        st = view.cfg.stmt[h]
        if isinstance(st, ast.For) and not pol:
          ids |= {x.attr for x in ast.walk(st) if isinstance(x, ast.Attribute)}
      if set(mention) <= ids:
        hit = True
    chk.ob('C12-R4', hit, None, 'diagnoses %s' % label,
           'no ParsingException guarded by a test over %s is left' % mention, fi=view.fi)
