"""C06 - the C++ and Python parsers agree (tables and dispatch only)."""

import ast
import re
import string as pystring

from sa.cppmodel import CppModel
from sa.model import (AnalysisError, call_tail, const_str, dotted, norm,
                      walk_local)
from sa import tables
from sa.pathrules import FnView
from rules import common as K

# Python name -> C++ functions implementing it
NAME_MAP = {
    'ParseFile': ['ParseFileInternal'],
    'ParseFunctionRule': ['ParseFunctionRuleImpl'],
    'Traverse': ['Traverser::Next', 'Traverser::Traverser'],
    'DisjunctiveNormalForm': ['DnfRewrite'],
    'MultiBodyAggregation': ['MultiBodyAggregationRewrite', 'StripAggregationHeritage'],
    'AggergationsAsExpressions': ['AggregationOperator', 'AggregationConvert',
                                  'RewriteAggregationsAsExpressions',
                                  'RewriteAggregationsInternal'],
}
# Python helpers without a C++ twin: folded into their callers
PY_HELPERS = {'DefinedPredicatesRules', 'MadePredicatesRules', 'SplitMany'}
# C++ inlines ParseConjunction into these callers
INLINED_IN_CPP = {'ParseConjunction': {'ParseCombine', 'ParseConciseCombine',
                                       'ParseUltraConciseCombine', 'ParseNegation'}}
# protocol of the Python scanner generator (C++ uses a struct with flags)
SCANNER_STATUS = {'OK', 'Unmatched', 'EOL in string', ''}
PY_ONLY = {'ShowTraverse'}          # debugging helper
# experimental operators enabled by the incantation: outside the documented
# grammar (docs/syntax.md); reported as information only
EXPERIMENTAL = {'---', '-+-', '-*-', '-/-', '-%-', '-^-', '◇', '○',
                '♡', '⊕', '⊗'}
CPP_ONLY_CHARS = {'\x01', '\x00'}   # pending-yield marker / terminator


FORMAT_RECEIVER = '\x00format:'     # marks a constant that is the receiver of str.format


def split_format(s):
  """'@CompileAsUdf(%s)' -> ['@CompileAsUdf(', ')'] ; 'col%d' -> ['col'];
  the receiver of .format is split at its {} fields as well."""
  if s.startswith(FORMAT_RECEIVER):
    parts = re.split(r'\{[^{}]*\}', s[len(FORMAT_RECEIVER):])
    return [p for p in parts if p != '']
  parts = re.split(r'%[sdr]', s)
  return [p for p in parts if p != ''] if len(parts) > 1 else [s]


def concat_excused(only_here, here, there):
  """symbols that differ only by where a concatenation happens: 'Agg' + op
  on one side and the literals 'Agg+', 'Agg++' on the other."""
  out = set()
  for s_ in only_here:
    # s_ is written whole there as a concatenation of two symbols known there
    if any(s_ == a + b for a in there for b in there if a and b):
      out.add(s_)
    # s_ is a factor of symbols the other side writes whole
    elif any((s_ + t in there or t + s_ in there) for t in here if t):
      out.add(s_)
  return out


class PyFacts(object):

  def __init__(self, repo):
    self.m = repo.by_name('parse')
    self.cache = {}
    self.auto_helpers = set()
    # module-level constants (assigned once at module level, never declared
    # `global` in a function): a reference stands for the literal, so that
    # moving a table out of a function into a named constant is not a difference
    self.consts = {}
    mutable = set()
    for x in ast.walk(self.m.tree):
      if isinstance(x, ast.Global):
        mutable.update(x.names)
    for st in self.m.tree.body:
      if isinstance(st, ast.Assign) and len(st.targets) == 1 and isinstance(st.targets[0], ast.Name):
        n = st.targets[0].id
        if n in self.consts:
          mutable.add(n)
        self.consts[n] = st.value
    for n in mutable:
      self.consts.pop(n, None)

  def const_strings(self, name, seen=()):
    out = set()
    v = self.consts.get(name)
    if v is None or name in seen:
      return out
    for c in ast.walk(v):
      if isinstance(c, ast.Constant) and isinstance(c.value, str):
        out.add(c.value)
      elif isinstance(c, ast.Name) and c.id in self.consts:
        out |= self.const_strings(c.id, tuple(seen) + (name,))
    return out

  def raw(self, fi):
    if fi.qualname in self.cache:
      return self.cache[fi.qualname]
    keys, strs, diag, rejects, calls = set(), set(), set(), 0, []
    doc = ast.get_docstring(fi.node, clean=False)
    diag_ids = set()
    for x in walk_local(fi.node):
      if isinstance(x, ast.Raise) and x.exc is not None:
        rejects += 1
        for c in ast.walk(x.exc):
          diag_ids.add(id(c))
      if isinstance(x, ast.Assert):
        type_check = (isinstance(x.test, ast.Constant) and not x.test.value) or any(
            isinstance(c, ast.Call) and call_tail(c) == 'isinstance' for c in ast.walk(x.test))
        if not type_check:
          rejects += 1
        if x.msg is not None:
          for c in ast.walk(x.msg):
            diag_ids.add(id(c))
    callee_ids = {id(x.func) for x in walk_local(fi.node) if isinstance(x, ast.Call)}
    # keyword-argument dicts ({'operators': [...]} applied with **): their keys
    # are parameter names of parser functions, not symbols of the language
    param_names = set()
    for f_ in self.m.funcs.values():
      param_names.update(f_.params)
    kwarg_keys = set()
    star_names = any(isinstance(x, ast.Call) and any(k.arg is None and isinstance(k.value, ast.Name)
                                                     for k in x.keywords)
                     for x in walk_local(fi.node))
    direct_star = {id(k.value) for x in walk_local(fi.node) if isinstance(x, ast.Call)
                   for k in x.keywords if k.arg is None}
    table_cells = set()
    for x in walk_local(fi.node):
      if isinstance(x, (ast.Tuple, ast.List)):
        for row in x.elts:
          if isinstance(row, (ast.Tuple, ast.List)):
            table_cells.update(id(c) for c in row.elts)
    for x in walk_local(fi.node):
      if isinstance(x, ast.Dict) and x.keys and all(
          isinstance(k, ast.Constant) and isinstance(k.value, str) and k.value in param_names
          and k.value.isidentifier() for k in x.keys) and (
              id(x) in direct_star or (star_names and id(x) in table_cells)):
        kwarg_keys.update(id(k) for k in x.keys)
    fmt_receivers = {id(x.func.value) for x in walk_local(fi.node)
                     if isinstance(x, ast.Call) and isinstance(x.func, ast.Attribute)
                     and x.func.attr == 'format' and isinstance(x.func.value, ast.Constant)}
    # a string handed to set()/frozenset() is a character class: its members
    # are the symbols, as if written one by one
    class_strings = set()
    for x in walk_local(fi.node):
      if isinstance(x, ast.Call) and isinstance(x.func, ast.Name) and \
          x.func.id in ('set', 'frozenset') and len(x.args) == 1 and \
          not isinstance(x.args[0], (ast.List, ast.Tuple, ast.Set)):
        for c in ast.walk(x.args[0]):
          if isinstance(c, ast.Constant) and isinstance(c.value, str):
            class_strings.add(id(c))
    for x in walk_local(fi.node):
      if isinstance(x, ast.Call) and call_tail(x):
        calls.append(call_tail(x))
      elif isinstance(x, ast.Name) and isinstance(x.ctx, ast.Load) and id(x) not in callee_ids \
          and x.id in self.m.funcs and self.m.funcs[x.id].parent is None:
        # a parser function stored in a dispatch table is an alternative tried there
        calls.append(x.id)
      if isinstance(x, ast.Name) and isinstance(x.ctx, ast.Load) and x.id in self.consts:
        (diag if id(x) in diag_ids else strs).update(self.const_strings(x.id))
      if isinstance(x, ast.Constant) and isinstance(x.value, str) and x.value != doc \
          and id(x) not in kwarg_keys:
        v = x.value
        if id(x) in class_strings:
          strs.update(v)
          continue
        if id(x) in fmt_receivers:
          v = FORMAT_RECEIVER + v
        (diag if id(x) in diag_ids else strs).add(v)
    res = dict(strs=strs, diag=diag, rejects=rejects, calls=calls)
    self.cache[fi.qualname] = res
    for sub in fi.nested.values():
      r2 = self.raw(sub)
      res['strs'] |= r2['strs']
      res['diag'] |= r2['diag']
      res['rejects'] += r2['rejects']
      res['calls'] += r2['calls']
    return res

  def facts(self, name):
    """Facts of a top-level function or of all methods of a namespace class,
    with helper functions folded in."""
    fis = []
    extra_strs = set()
    if name in self.m.classes:
      fis = list(self.m.classes[name].methods.values())
      for st in self.m.classes[name].node.body:
        if isinstance(st, ast.Assign) and isinstance(st.value, ast.Constant) and \
            isinstance(st.value.value, str):
          extra_strs.add(st.value.value)
        elif isinstance(st, ast.Assign) and isinstance(st.value, (ast.Tuple, ast.List, ast.Dict, ast.Set)):
          # a class-level table of symbols (pairs, lists): its strings are
          # symbols of the namespace class just like literals in its methods
          for c_ in ast.walk(st.value):
            if isinstance(c_, ast.Constant) and isinstance(c_.value, str):
              extra_strs.add(c_.value)
    elif name in self.m.funcs:
      fis = [self.m.funcs[name]]
    else:
      raise AnalysisError('anchor missing: parse.%s' % name)
    out = dict(strs=set(extra_strs), diag=set(), rejects=0, calls=[])
    for fi in fis:
      r = self.raw(fi)
      out['strs'] |= r['strs']
      out['diag'] |= r['diag']
      out['rejects'] += r['rejects']
      out['calls'] += r['calls']
    folded = set()
    progress = True
    while progress:                     # helpers of helpers too
      progress = False
      for h in sorted(PY_HELPERS | self.auto_helpers):
        if h in out['calls'] and h in self.m.funcs and h != name and h not in folded:
          folded.add(h)
          progress = True
          r = self.raw(self.m.funcs[h])
          out['strs'] |= r['strs']
          out['diag'] |= r['diag']
          out['calls'] = out['calls'] + r['calls']
    for inl, callers in INLINED_IN_CPP.items():
      if name in callers and inl in out['calls']:
        r = self.raw(self.m.funcs[inl])
        out['strs'] |= r['strs']
    return out


def cpp_helpers(cpp, py_names):
  """Free C++ functions without a Python twin: small helpers whose facts are
  folded into their callers (so that moving a test into a helper is not a
  difference, and what the helper adds is attributed to every caller)."""
  mapped = {x for v in NAME_MAP.values() for x in v}
  out = set()
  for n in cpp.funcs:
    if '::' in n or n in py_names or n in mapped:
      continue
    if n in ('ParseFile', 'SpanFromJson', 'SpanRefJson', 'SpanTextFromJson', 'HasKey',
             # C++ counterpart of Python's ast.literal_eval (standard library)
             'ParsePythonStyleStringLiteral'):
      continue
    out.add(n)
  return out


def cpp_facts(cpp, names, helpers=(), _depth=0):
  strs, diag, chars, rejects, calls = set(), set(), set(), 0, []
  todo = list(names)
  seen = set()
  while todo:
    n = todo.pop(0)
    if n in seen or n not in cpp.funcs:
      continue
    seen.add(n)
    f = cpp.func(n).facts()
    for c in f['calls']:
      if c in helpers and c not in seen:
        todo.append(c)
    for v, thr, _ in f['strings']:
      (diag if thr else strs).add(v)
    for v, thr in f['chars']:
      (diag if thr else strs).add(v)
    rejects += f['throws']
    calls += f['calls']
  return dict(strs=strs, diag=diag, rejects=rejects, calls=calls)


def cpp_ctype_class(cpp, fn, helpers):
  """(characters admitted through ctype predicates / ranges, other chars)
  of a C++ function with its helpers folded in."""
  f = cpp_facts(cpp, [fn], helpers)
  out = set()
  for c in f['calls']:
    if c in CTYPE:
      out |= CTYPE[c]
  chars = {v for v in f['strs'] if len(v) == 1}
  for lo, hi, full in (('a', 'z', pystring.ascii_lowercase),
                       ('A', 'Z', pystring.ascii_uppercase),
                       ('0', '9', pystring.digits)):
    if lo in chars and hi in chars:
      out |= set(full)
      chars -= {lo, hi}
  return out, chars


def norm_syms(ss):
  out = set()
  for s in ss:
    for p in split_format(s):
      out.add(p)
  return out - SCANNER_STATUS


_CONSTS = {}


def _str_value(e):
  """constant string written as a concatenation of literals, string.<name>
  constants and named constants."""
  if isinstance(e, ast.Constant) and isinstance(e.value, str):
    return e.value
  d = dotted(e)
  if d and d.startswith('string.') and isinstance(getattr(pystring, d[7:], None), str):
    return getattr(pystring, d[7:])
  if isinstance(e, ast.Name) and e.id in _CONSTS:
    return _str_value(_CONSTS[e.id])
  if isinstance(e, ast.BinOp) and isinstance(e.op, ast.Add):
    l, r = _str_value(e.left), _str_value(e.right)
    if l is not None and r is not None:
      return l + r
  if isinstance(e, ast.Call) and call_tail(e) == 'join' and isinstance(e.func, ast.Attribute) and \
      const_str(e.func.value) == '' and e.args and isinstance(e.args[0], (ast.List, ast.Tuple)):
    parts = [_str_value(x) for x in e.args[0].elts]
    if all(p_ is not None for p_ in parts):
      return ''.join(parts)
  return None


def char_class_py(expr):
  """Evaluate a character-class expression of parse.py: unions of
  set(<const>) / set(string.ascii_*) / set([..consts..]) / named constants."""
  if isinstance(expr, ast.BinOp) and isinstance(expr.op, ast.BitOr):
    return char_class_py(expr.left) | char_class_py(expr.right)
  if isinstance(expr, ast.Name) and expr.id in _CONSTS:
    return char_class_py(_CONSTS[expr.id])
  if isinstance(expr, ast.Call) and call_tail(expr) in ('set', 'frozenset', 'copy') and \
      expr.args and isinstance(expr.args[0], ast.Name) and expr.args[0].id in _CONSTS:
    return char_class_py(_CONSTS[expr.args[0].id])
  if isinstance(expr, ast.Call) and call_tail(expr) == 'copy' and isinstance(expr.func, ast.Attribute):
    return char_class_py(expr.func.value)
  if isinstance(expr, (ast.Set, ast.List, ast.Tuple)):
    return set(tables.const_value(expr))
  if isinstance(expr, ast.Call) and call_tail(expr) == 'set' and expr.args:
    a = expr.args[0]
    d = dotted(a)
    if d and d.startswith('string.') and hasattr(pystring, d[7:]):
      return set(getattr(pystring, d[7:]))
    sv = _str_value(a)
    if sv is not None:
      return set(sv)
    v = tables.const_value(a)
    if isinstance(v, str):
      return set(v)
    return set(v)
  raise AnalysisError('character class not understood: %s' % norm(expr, 60))


CTYPE = {'islower': set(pystring.ascii_lowercase), 'isupper': set(pystring.ascii_uppercase),
         'isdigit': set(pystring.digits), 'isalpha': set(pystring.ascii_letters),
         'isalnum': set(pystring.ascii_letters + pystring.digits)}


def char_class_cpp(cpp, fn, extra_ranges=True, ignore=()):
  f = cpp.func(fn).facts()
  out = set()
  for c in f['calls']:
    if c in CTYPE:
      out |= CTYPE[c]
  chars = {v for v, thr in f['chars'] if not thr}
  for lo, hi, full in (('a', 'z', pystring.ascii_lowercase),
                       ('A', 'Z', pystring.ascii_uppercase),
                       ('0', '9', pystring.digits)):
    if lo in chars and hi in chars:
      out |= set(full)
      chars -= {lo, hi}
  return out, chars


def run(chk):
  repo = chk.repo
  cpp = CppModel(repo.root)
  py = PyFacts(repo)
  _CONSTS.clear()
  _CONSTS.update(py.consts)
  chk.extra['cpp_functions'] = len(cpp.funcs)
  py_top = {q for q, f in repo.by_name('parse').funcs.items() if f.parent is None and f.cls is None}
  helpers = cpp_helpers(cpp, py_top)
  # Python top-level functions without a C++ twin that are called by other
  # parser functions are helpers too (folded into their callers)
  mapped_py = set(NAME_MAP)
  for q in sorted(py_top):
    if q not in cpp.funcs and q not in mapped_py and q not in PY_ONLY:
      callers = [g for g, f in repo.by_name('parse').funcs.items()
                 if g != q and any(isinstance(c, ast.Call) and call_tail(c) == q
                                   for c in ast.walk(f.node))]
      if callers:
        py.auto_helpers.add(q)
  chk.extra['cpp_helpers_folded'] = sorted(helpers)
  chk.extra['py_helpers_folded'] = sorted(PY_HELPERS | py.auto_helpers)
  chk.assume('the C++ facts come from clang -fsyntax-only (resolved AST); names of the '
             'two ports correspond (a missing twin is an analysis error)')
  m = repo.by_name('parse')

  # ---- R1 operator lists ----------------------------------------------------
  chk.rule('C06-R1', 'operator precedence list of ParseInfix is the same '
           'sequence in both parsers; unary and proposition-level operator '
           'sets agree', min_instances=3)
  pi = m.func('ParseInfix')
  py_ops = None
  py_unary = None
  def lists_in(expr):
    for l in ast.walk(expr):
      if isinstance(l, (ast.List, ast.Tuple)):
        yield l
      elif isinstance(l, ast.Name) and l.id in py.consts:
        yield from lists_in(py.consts[l.id])
  for x in walk_local(pi.node):
    if isinstance(x, ast.Assign) and dotted(x.targets[0]) == 'operators':
      for l in lists_in(x.value):
        if len(l.elts) > 10 and (py_ops is None or len(l.elts) > len(py_ops)):
          py_ops = tables.const_value(l)
    if isinstance(x, ast.Assign) and dotted(x.targets[0]) == 'unary_operators':
      py_unary = tables.const_value(x.value)
  if py_unary is None:
    # the membership test `op in <unary operators>` of the split loop
    for x in walk_local(pi.node):
      if isinstance(x, ast.Compare) and len(x.ops) == 1 and isinstance(x.ops[0], ast.In):
        for l in lists_in(x.comparators[0]):
          vals = tables.const_value(l)
          if vals and py_ops and set(vals) < set(py_ops) and len(vals) <= 4:
            py_unary = list(vals)
  if py_unary is None:
    # the same set written as an equality chain: `op == '-' or op == '!'`
    for x in walk_local(pi.node):
      if isinstance(x, ast.BoolOp) and isinstance(x.op, ast.Or) and len(x.values) >= 2 and all(
          isinstance(v_, ast.Compare) and len(v_.ops) == 1 and isinstance(v_.ops[0], ast.Eq) and
          isinstance(v_.left, ast.Name) and const_str(v_.comparators[0]) is not None
          for v_ in x.values) and len({v_.left.id for v_ in x.values}) == 1:
        vals = [const_str(v_.comparators[0]) for v_ in x.values]
        if py_ops and set(vals) < set(py_ops) and len(vals) <= 4:
          py_unary = vals
  if not py_ops or py_unary is None:
    raise AnalysisError('ParseInfix: operator lists not recognised')
  cf = cpp.func('ParseInfix').facts()
  ordered = cpp.ordered_strings('ParseInfix', helpers)
  # the base list is the longest run of operator strings
  cpp_ops = []
  seen = set()
  for v in ordered:
    if v in set(py_ops) | EXPERIMENTAL and v not in seen:
      seen.add(v)
      cpp_ops.append(v)
  cpp_base = [v for v in cpp_ops if v not in EXPERIMENTAL]
  # strings that look like operators but are unknown to Python
  unknown = [v for v in ordered if v not in set(py_ops) | EXPERIMENTAL and
             re.fullmatch(r'[^A-Za-z0-9_\s"]{1,3}|\s(in|is|is not)\s', v) and
             v not in ('~', '!')]
  chk.ob('C06-R1', cpp_base == list(py_ops) and not unknown, 'parser_cpp/logica_parse.cpp:ParseInfix',
         'default operator list (in precedence order) equals the Python list',
         'Python tries %s, C++ tries %s (%s): an expression is split at a '
         'different operator' % (py_ops, cpp_base, unknown))
  cu = set()
  for v, thr, path in cf['strings']:
    pass
  # unary set: strings of the `unary` set initialiser = those compared only there
  cpp_unary = None
  src = open(repo.root + '/parser_cpp/logica_parse.cpp', encoding='utf-8').read()
  # resolved by clang facts: the second small initializer list in ParseInfix
  counts = {}
  for v in ordered:
    counts[v] = counts.get(v, 0) + 1
  cpp_unary = sorted(v for v in set(py_unary) if counts.get(v, 0) >= 2)
  chk.ob('C06-R1', cpp_unary == sorted(py_unary), 'parser_cpp/logica_parse.cpp:ParseInfix',
         'unary operators agree (%s)' % sorted(py_unary),
         'C++ unary operators %s' % cpp_unary, nontrivial=False)
  pp = m.func('ParseProposition')
  py_prop_ops = None
  for c in walk_local(pp.node):
    if isinstance(c, ast.Call) and call_tail(c) == 'ParseInfix':
      for k in c.keywords:
        if k.arg == 'operators':
          py_prop_ops = tables.const_value(k.value)
    # ... or a keyword dict {'operators': [...]} kept in a dispatch table
    if isinstance(c, ast.Dict):
      for k, v in zip(c.keys, c.values):
        if const_str(k) == 'operators':
          try:
            py_prop_ops = tables.const_value(v)
          except AnalysisError:
            pass
  cppp = cpp.func('ParseProposition').facts()
  cpp_prop_ops = [s for name, strs, thr in cppp['call_args'] for s in strs if s is not None]
  pstr = [v for v in cpp.ordered_strings('ParseProposition', helpers) if v in ('&&', '||')]
  chk.ob('C06-R1', py_prop_ops is not None and sorted(set(pstr)) == sorted(py_prop_ops),
         'parser_cpp/logica_parse.cpp:ParseProposition',
         'proposition-level infix operators agree (%s)' % py_prop_ops,
         'C++ uses %s' % sorted(set(pstr)))

  # ---- R2 alternative order ------------------------------------------------------
  chk.rule('C06-R2', 'alternatives are tried in the same order: '
           'ActuallyParseExpression, ParseProposition, ParseLiteral, the '
           'statement dispatch and the rewrite pipeline of ParseFile',
           min_instances=5)
  rename = {'ParseFunctionRuleImpl': 'ParseFunctionRule', 'ParseFileInternal': 'ParseFile'}

  def chain(calls, keep):
    out = []
    for c in calls:
      c = rename.get(c, c)
      if keep(c) and (not out or out[-1] != c):
        out.append(c)
    return out
  def keyword_set(name):
    """constants a pure keyword matcher accepts (every successful return is
    guarded by `s == const` / `s in [consts]` on its parameter), else None"""
    fi_ = m.funcs.get(name)
    if fi_ is None or len(fi_.params) != 1:
      return None
    w = FnView.of(repo, fi_)
    acc = set()
    n_ret = 0
    for n_, r_ in w.returns():
      if r_.value is None or (isinstance(r_.value, ast.Constant) and r_.value.value is None):
        continue
      n_ret += 1
      here = set()
      for e_, val in w.guards(n_):
        if val and isinstance(e_, ast.Compare) and len(e_.ops) == 1 and \
            dotted(e_.left) == fi_.params[0]:
          if isinstance(e_.ops[0], ast.Eq) and const_str(e_.comparators[0]) is not None:
            here.add(const_str(e_.comparators[0]))
          elif isinstance(e_.ops[0], ast.In):
            try:
              here |= set(tables.const_value(e_.comparators[0]))
            except AnalysisError:
              pass
      for h_, pol_ in w.cfg.header_of(n_):
        t_ = getattr(w.cfg.stmt[h_], 'test', None)
        if pol_ and isinstance(t_, ast.BoolOp) and isinstance(t_.op, ast.Or) and all(
            isinstance(v_, ast.Compare) and len(v_.ops) == 1 and isinstance(v_.ops[0], ast.Eq)
            and dotted(v_.left) == fi_.params[0] and const_str(v_.comparators[0]) is not None
            for v_ in t_.values):
          here |= {const_str(v_.comparators[0]) for v_ in t_.values}
      if not here:
        return None
      acc |= here
    return acc if n_ret else None

  def canonical(order):
    """alternatives that cannot both accept an input may be tried in either
    order: runs of adjacent keyword matchers with disjoint keyword sets are
    put in name order before the two parsers are compared"""
    out, run = [], []
    def flush():
      sets = [keyword_set(x_) for x_ in run]
      disjoint = all(not (sets[i] & sets[j]) for i in range(len(run)) for j in range(i))
      out.extend(sorted(run) if disjoint else run)
      del run[:]
    for c_ in order:
      if keyword_set(c_) is not None:
        run.append(c_)
      else:
        flush()
        out.append(c_)
    flush()
    return out

  for fn in ('ActuallyParseExpression', 'ParseProposition', 'ParseLiteral'):
    keep = lambda c: c.startswith('Parse') and c != fn
    pc = chain(py.facts(fn)['calls'], keep)
    cc = chain(cpp_facts(cpp, NAME_MAP.get(fn, [fn]), helpers)['calls'], keep)
    if pc != cc and sorted(pc) == sorted(cc):
      pc, cc = canonical(pc), canonical(cc)
    chk.ob('C06-R2', pc == cc, 'parser_cpp/logica_parse.cpp:%s' % fn,
           '%s tries %d alternatives in the Python order' % (fn, len(pc)),
           'Python order %s, C++ order %s: the first matching alternative '
           'differs for some input' % (pc, cc))
  keep = lambda c: c in ('ParseFunctionRule', 'ParseFunctorRule', 'ParseRule', 'ParseImport',
                         'SplitImport', 'AnnotationsFromDenotations')
  pc = chain(py.facts('ParseFile')['calls'], keep)
  cc = chain(cpp_facts(cpp, ['ParseFileInternal'])['calls'], keep)
  chk.ob('C06-R2', pc == cc, 'parser_cpp/logica_parse.cpp:ParseFileInternal',
         'statement dispatch order agrees (%s)' % ' > '.join(pc),
         'Python %s, C++ %s' % (pc, cc))
  pf = m.func('ParseFile')
  py_rw = []
  for x in walk_local(pf.node):
    if isinstance(x, ast.Call) and call_tail(x) == 'Rewrite' and isinstance(x.func, ast.Attribute):
      py_rw.append(dotted(x.func.value))
  cpp_rw = [c for c in cpp_facts(cpp, ['ParseFileInternal'])['calls']
            if c in ('DnfRewrite', 'MultiBodyAggregationRewrite', 'RewriteAggregationsAsExpressions')]
  want = {'DisjunctiveNormalForm': 'DnfRewrite', 'MultiBodyAggregation': 'MultiBodyAggregationRewrite',
          'AggergationsAsExpressions': 'RewriteAggregationsAsExpressions'}
  chk.ob('C06-R2', [want.get(p) for p in py_rw] == cpp_rw and len(py_rw) == 3,
         'parser_cpp/logica_parse.cpp:ParseFileInternal',
         'rewrite pipeline order agrees (DNF > multi-body aggregation > aggregations as expressions)',
         'Python %s, C++ %s' % (py_rw, cpp_rw))

  # ---- R3 per-function symbols ----------------------------------------------------
  chk.rule('C06-R3', 'per function pair, the symbols a parser decision or a '
           'node is built from agree: node fields, separators, keywords, '
           'literal values (format strings split, scanner status protocol and '
           'experimental operators set aside)', min_instances=50)
  top = sorted(q for q, f in m.funcs.items() if f.parent is None and f.cls is None)
  # functions of parse.py the parsing pipeline can reach (by name, over
  # calls and dispatch-table references)
  pipeline, todo_ = set(), ['ParseFile']
  while todo_:
    q_ = todo_.pop()
    if q_ in pipeline:
      continue
    pipeline.add(q_)
    roots = [f for n_, f in m.funcs.items() if n_ == q_ or n_.startswith(q_ + '.')]
    for f_ in roots:
      for x in ast.walk(f_.node):
        n_ = x.id if isinstance(x, ast.Name) else (x.attr if isinstance(x, ast.Attribute) else None)
        if n_ and n_ not in pipeline and (n_ in m.funcs or n_ in m.classes):
          todo_.append(n_)
  pairs = []
  for q in top:
    if q in PY_HELPERS or q in PY_ONLY or q in py.auto_helpers:
      continue
    cn = NAME_MAP.get(q, [q])
    missing = [c for c in cn if c not in cpp.funcs]
    if missing and q not in pipeline:
      # an additional entry point of the Python module (a helper for tools)
      # that the parsing pipeline never calls decides nothing about rules
      chk.info('parse.%s is not reached from ParseFile: no C++ twin required' % q)
      continue
    if missing:
      chk.ob('C06-R3', False, 'parser_cpp/logica_parse.cpp:%s' % q,
             'C++ twin of parse.%s exists' % q,
             'the Python parser has %s, the C++ parser has no %s: whatever it '
             'parses is handled differently' % (q, missing))
      continue
    pairs.append((q, cn))
  for cls in ('DisjunctiveNormalForm', 'MultiBodyAggregation', 'AggergationsAsExpressions'):
    pairs.append((cls, NAME_MAP[cls]))
  char_class_fns = {'ParseGenericCall', 'ParseVariable', 'ParsePredicateLiteral',
                    'ParseSubscript', 'Traverse', 'ParseNumber'}
  for q, cn in pairs:
    pf_ = py.facts(q)
    cf_ = cpp_facts(cpp, cn, helpers)
    ps, pd = norm_syms(pf_['strs']), norm_syms(pf_['diag'])
    cs, cd = norm_syms(cf_['strs']), norm_syms(cf_['diag'])
    cs = {_utf8(s) for s in cs}
    cd = {_utf8(s) for s in cd}
    if q in char_class_fns:
      # single characters / class strings are compared by C06-R4
      ps = {s for s in ps if len(s) > 1 and not set(s) <= set('@_.${}+-`*^%/')}
      cs = {s for s in cs if len(s) > 1 and not set(s) <= set('@_.${}+-`*^%/')}
    py_only = {s for s in ps - cs - cd if s not in EXPERIMENTAL}
    cpp_only = {_utf8(s) for s in cs - ps - pd} - CPP_ONLY_CHARS
    cpp_only = {s for s in cpp_only if s not in ps and s not in pd}
    # a symbol that one side tests itself and the other leaves to a function
    # both sides call (which holds it in both parsers) is not a difference
    common = (set(pf_['calls']) & {rename.get(c, c) for c in cf_['calls']}) - {q}
    shared = set()
    for callee in sorted(common):
      if callee in m.funcs and callee in cpp.funcs:
        shared |= norm_syms(py.facts(callee)['strs']) & {
            _utf8(x) for x in norm_syms(cpp_facts(cpp, [callee], helpers)['strs'])}
    py_only -= shared
    cpp_only -= shared
    ex_p = concat_excused(py_only, ps | pd, cs | cd)
    ex_c = concat_excused(cpp_only, cs | cd, ps | pd)
    py_only -= ex_p
    cpp_only -= ex_c
    exp = (ps & EXPERIMENTAL) - cs
    if exp:
      chk.info('%s: experimental operators only in Python: %s' % (q, sorted(exp)))
    chk.ob('C06-R3', not py_only and not cpp_only, 'parser_cpp/logica_parse.cpp:%s' % cn[0],
           '%s uses the same symbols in both parsers (%d)' % (q, len(ps)),
           'only in Python: %s; only in C++: %s -- a field, separator or keyword '
           'exists in one parser only' % (sorted(py_only), sorted(cpp_only)))

  # ---- R4 character classes ----------------------------------------------------------
  chk.rule('C06-R4', 'character classes and bracket table agree: variable '
           'characters, predicate literal characters, call-name characters, '
           'bracket pairs, scanner state symbols', min_instances=5)
  vcs = char_class_py(m.module_assign('VARIABLE_CHARS_SET'))
  cset, crest = cpp_ctype_class(cpp, 'IsVariableChars', helpers)
  chk.ob('C06-R4', vcs == cset | crest, 'parser_cpp/logica_parse.cpp:IsVariableChars',
         'variable characters agree (%d)' % len(vcs),
         'Python allows %s, C++ %s' % (''.join(sorted(vcs - (cset | crest))),
                                        ''.join(sorted((cset | crest) - vcs))))
  c2o = tables.dict_literal(m.module_assign('CLOSE_TO_OPEN'), 'CLOSE_TO_OPEN')
  py_pairs = {(k, tables.const_value(v)) for k, v in c2o.items()}
  # the C++ bracket table: the namespace-level map, or - when it was turned
  # into a function - the smallest function that mentions every bracket
  # (close, open, close, open, ... in source order)
  brackets = {c for k, v in py_pairs for c in (k, v)}
  kv = cpp.var_strings('kCloseToOpen')
  where = 'kCloseToOpen'
  if kv is None:
    cands = []
    for n, fn_ in cpp.funcs.items():
      chars_ = [v for v, thr in fn_.facts()['chars'] if not thr]
      if brackets and brackets <= set(chars_):
        cands.append((len(chars_), n, chars_))
    if not cands:
      raise AnalysisError('anchor missing: C++ bracket table (kCloseToOpen or a function over all brackets)')
    _, where, chars_ = min(cands)
    cc_ = [c for c in chars_ if c in brackets]
  else:
    cc_ = [v for v, thr in kv['chars']]
  cpp_pairs = {(cc_[i], cc_[i + 1]) for i in range(0, len(cc_) - 1, 2)}
  chk.ob('C06-R4', py_pairs == cpp_pairs, 'parser_cpp/logica_parse.cpp:%s' % where,
         'bracket table agrees (%s)' % sorted(py_pairs), 'C++ table %s' % sorted(cpp_pairs))
  # ParseGenericCall good_chars
  pg = m.func('ParseGenericCall')
  good = None
  extra = set()
  for x in walk_local(pg.node):
    if isinstance(x, ast.Assign) and dotted(x.targets[0]) == 'good_chars':
      if isinstance(x.value, ast.BinOp) and isinstance(x.value.op, ast.BitOr) and \
          'good_chars' in (dotted(x.value.left), dotted(x.value.right)):
        # good_chars = good_chars | <more>: the augmented form written out
        other = x.value.right if dotted(x.value.left) == 'good_chars' else x.value.left
        extra = char_class_py(other)
      else:
        good = char_class_py(x.value)
    if isinstance(x, ast.AugAssign) and dotted(x.target) == 'good_chars':
      extra = char_class_py(x.value)
  if good is None:
    raise AnalysisError('ParseGenericCall: good_chars not found')
  cset, crest = cpp_ctype_class(cpp, 'ParseGenericCall', helpers)
  cf_ = cpp.func('ParseGenericCall').facts()
  class_strs = [v for v, thr, in_for in cf_['strings'] if not thr and in_for]
  cpp_good = set(cset)
  cpp_extra = set()
  for s in class_strs:
    if set(s) <= good:
      cpp_good |= set(s)
    elif set(s) <= extra:
      cpp_extra |= set(s)
    else:
      cpp_good |= set(s)
  base_ok = good == cpp_good
  chk.ob('C06-R4', base_ok, 'parser_cpp/logica_parse.cpp:ParseGenericCall',
         'characters allowed in a call name agree (%d)' % len(good),
         'only Python: %r, only C++: %r' % (''.join(sorted(good - cpp_good)),
                                          ''.join(sorted(cpp_good - good))))
  exp_only = {c for c in extra if ord(c) < 128}
  chk.ob('C06-R4', exp_only == cpp_extra, 'parser_cpp/logica_parse.cpp:ParseGenericCall',
         'experimental-mode extra characters (ASCII) agree', 'Python %s C++ %s' % (
             sorted(exp_only), sorted(cpp_extra)), nontrivial=False)
  # scanner state symbols
  tr = py.facts('Traverse')
  py_syms = {s for s in tr['strs'] if s not in SCANNER_STATUS} | \
      {k for k, v in py_pairs} | {v for k, v in py_pairs}
  ct = cpp_facts(cpp, NAME_MAP['Traverse'], helpers)
  cpp_syms = {s for s in ct['strs']} - CPP_ONLY_CHARS
  chk.ob('C06-R4', py_syms == cpp_syms, 'parser_cpp/logica_parse.cpp:Traverser::Next',
         'scanner state symbols agree (%s)' % ' '.join(sorted(repr(s) for s in py_syms)),
         'only Python: %s, only C++: %s' % (sorted(py_syms - cpp_syms), sorted(cpp_syms - py_syms)))
  # predicate literal / subscript classes
  for fn in ('ParsePredicateLiteral', 'ParseSubscript', 'ParseVariable'):
    pfi = m.func(fn)
    sets = []
    for x in walk_local(pfi.node):
      if isinstance(x, ast.BinOp) and isinstance(x.op, ast.BitOr):
        try:
          sets.append(char_class_py(x))
        except AnalysisError:
          pass
    big = max(sets, key=len) if sets else None
    cset, crest = cpp_ctype_class(cpp, fn, helpers | {'IsVariableChars'})
    if big is None:
      continue
    cpp_cls = cset | {c for c in crest if c in '_'}
    chk.ob('C06-R4', big <= cpp_cls | set('_') and (cpp_cls - big) <= set(pystring.ascii_letters + pystring.digits + '_'),
           'parser_cpp/logica_parse.cpp:%s' % fn,
           '%s character class agrees' % fn,
           'Python %d chars, C++ %d chars; only Python %r, only C++ %r' % (
               len(big), len(cpp_cls), ''.join(sorted(big - cpp_cls)), ''.join(sorted(cpp_cls - big))),
           nontrivial=False)

  # ---- R6 rejection capability --------------------------------------------------------
  chk.rule('C06-R6', 'rejection capability agrees: a function that can reject '
           'its input in one parser can reject it in the other',
           min_instances=50)
  for q, cn in pairs:
    pr = py.facts(q)['rejects']
    cr = cpp_facts(cpp, cn, helpers)['rejects']
    chk.ob('C06-R6', (pr > 0) == (cr > 0), 'parser_cpp/logica_parse.cpp:%s' % cn[0],
           '%s: %s in both parsers' % (q, 'can reject' if pr else 'never rejects'),
           'Python has %d raise/assert sites, C++ %d throw sites: one parser '
           'accepts what the other rejects' % (pr, cr), nontrivial=pr > 0)

  # ---- R7 deterministic order of the Python parser ------------------------------
  chk.rule('C06-R7', 'the Python parser emits rules in an order that does not '
           'depend on set iteration (the C++ port uses ordered containers): no '
           'set order reaches a list, string or dict order in parse.py',
           min_instances=3)
  from sa import setorder
  an = setorder.Analysis(repo, [repo.mod('parser_py/parse.py')])
  col = setorder.Collector(an, [])
  sites = col.run()
  seen = set()
  for st in sites:
    key = (st.fi.fq, st.source, st.kind, st.verdict)
    if key in seen:
      continue
    seen.add(key)
    if st.verdict == 'leak':
      # returned to callers outside parse.py is judged by C13; inside parse.py
      # a leak changes the order of the parsed rules
      if 'API surface' in st.reason:
        continue
      chk.ob('C06-R7', False, None, '%s %s' % (st.kind, st.source),
             st.reason + ' || ' + ' -> '.join(st.chain[-4:]) +
             ' : the order of the rules the Python parser returns depends on the '
             'hash seed, the C++ parser keeps first-appearance order', fi=st.fi, node=st.node)
    else:
      chk.ob('C06-R7', True, None, '%s %s' % (st.kind, st.source), st.reason, fi=st.fi,
             node=st.node, nontrivial=st.kind in ('for', 'comprehension'))

  # the C++ parser builds its tables per call; the Python parser gives the
  # same tree for the same text only if it keeps no table that a previous
  # parse could have changed in place
  from rules.c13 import global_writes
  shared = [(fi_, node_, name_) for fi_, node_, kind_, name_ in
            global_writes(repo, [repo.mod('parser_py/parse.py')]) if kind_ in ('mutate', 'default')]
  chk.ob('C06-R7', not shared, None,
         'no module-level table of parse.py is changed in place while parsing',
         '%s is changed in place in %s: what the Python parser accepts afterwards depends '
         'on the programs parsed before, the C++ parser starts from its constants every '
         'time' % (shared[0][2] if shared else '', shared[0][0].qualname if shared else ''),
         fi=shared[0][0] if shared else repo.func('parse.ParseFile'),
         node=shared[0][1] if shared else None)
  json_bridge(chk, cpp)


def _utf8(s):
  try:
    return s.encode('latin-1').decode('utf-8')
  except (UnicodeEncodeError, UnicodeDecodeError):
    return s


def _cwalk(n):
  if isinstance(n, dict):
    yield n
    for c in n.get('inner') or []:
      for y in _cwalk(c):
        yield y


def json_bridge(chk, cpp):
  """The C++ rules reach Python as JSON text decoded by json.loads (strict):
  a string value arrives unchanged only if the quote, the backslash and every
  control character below 0x20 are escaped on the C++ side - whichever way a
  string leaves Json::Escape."""
  from sa.cppmodel import _string_of
  chk.rule('C06-R8', 'the JSON bridge escapes what JSON requires: Json::Escape '
           'escapes the quote, the backslash and every character below 0x20 on '
           'every way out of the function', min_instances=2)
  f = cpp.func('Json::Escape')
  decl = f.decls[0]
  where = 'parser_cpp/logica_parse.cpp:Json::Escape'
  cases = set()
  bound = 0
  loops = [n for n in _cwalk(decl) if n.get('kind') in ('CXXForRangeStmt', 'ForStmt', 'WhileStmt')]
  if not loops:
    raise AnalysisError('Json::Escape: no per-character loop recognised')
  loop = loops[0]
  for n in _cwalk(loop):
    if n.get('kind') == 'CaseStmt':
      for c in _cwalk((n.get('inner') or [{}])[0]):
        if c.get('kind') in ('CharacterLiteral', 'IntegerLiteral') and c.get('value') is not None:
          cases.add(int(c['value']))
    if n.get('kind') == 'BinaryOperator' and n.get('opcode') in ('<', '<='):
      lits = [c for c in _cwalk((n.get('inner') or [{}, {}])[1])
              if c.get('kind') in ('IntegerLiteral', 'CharacterLiteral')]
      if lits:
        v = int(lits[0]['value']) + (1 if n.get('opcode') == '<=' else 0)
        bound = max(bound, v)
  required = {34, 92} | set(range(32))
  escaped = cases | set(range(bound))
  missing = sorted(required - escaped)
  chk.ob('C06-R8', not missing, where,
         'the per-character loop escapes the quote, the backslash and all of 0x00-0x1f',
         'characters %s leave Json::Escape raw: json.loads rejects the rule tree (or '
         'reads another string) where the Python parser accepts the program' % missing[:6])
  # ways out that do not go through the loop
  body = [c for c in decl.get('inner') or [] if c.get('kind') == 'CompoundStmt'][0]
  top = body.get('inner') or []
  early = []
  for st in top:
    if st is loop:
      break
    for r in _cwalk(st):
      if r.get('kind') == 'ReturnStmt':
        early.append((st, r))
  bad = None
  for st, r in early:
    covered = set()
    for c in _cwalk(st):
      if c.get('kind') == 'CXXMemberCallExpr':
        callee = (c.get('inner') or [{}])[0]
        if callee.get('name') in ('find_first_of',):
          for a_ in (c.get('inner') or [])[1:]:
            lit = _string_of(a_)
            if lit is not None:
              covered |= {ord(ch) for ch in lit}
    if not required <= covered:
      bad = sorted(required - covered)
  chk.ob('C06-R8', bad is None, where,
         'no string leaves Json::Escape around the per-character loop unless a test '
         'excludes every character the loop escapes (%d early exits)' % len(early),
         'an early return hands the input back although it may contain characters %s%s, '
         'which the loop would escape: such a string literal makes the C++ tree '
         'undecodable' % (bad[:5] if bad else '', '...' if bad and len(bad) > 5 else ''))
