"""C05 - type checking is wired in and sees every expression (structure only)."""

import ast

from sa.absint import Const, Interp, State, Sym
from sa.callgraph import CallGraph
from sa.model import (AnalysisError, call_tail, const_str, dotted, kwarg, norm,
                      walk_local)
from sa.pathrules import FnView, receiver
from sa import tables
from rules import common as K

INFER_TYPES = 'infer.TypesInferenceEngine.InferTypes'
CHECK = 'infer.TypeErrorChecker.CheckForError'
PERFORM_S = 'infer.TypeInferenceForStructure.PerformInference'
SHOULD = 'universe.Annotations.ShouldTypecheck'
RUNTC = 'universe.LogicaProgram.RunTypechecker'


def mode_is_raise(call):
  v = kwarg(call, 'mode', 0)
  return const_str(v) == 'raise'


def run(chk):
  repo = chk.repo
  chk.rule('C05-R1', 'inference is always followed by the error search in '
           "mode 'raise' over the same rules (RunTypechecker, SingleRuleSql), "
           'both before AsSql; CheckForError raises TypeErrorCaughtException '
           'whenever an error was found', min_instances=8)
  v = FnView(repo, RUNTC)
  inf = v.calls(INFER_TYPES)
  chk_calls = [s for s in v.calls(CHECK) if mode_is_raise(s[1])]
  chk.ob('C05-R1', bool(inf), None, 'RunTypechecker runs InferTypes()',
         'whole-program inference is not run', fi=v.fi)
  for s in inf:
    chk.ob('C05-R1', bool(chk_calls) and v.follows(s, chk_calls), None,
           "InferTypes() is followed by CheckForError(mode='raise')",
           'a path leaves RunTypechecker after inference without searching '
           'for type errors in raise mode: ill-typed programs are accepted',
           fi=v.fi, node=s[1])
  # same rules object
  eng = [c for n, c in v.all_calls() if call_tail(c) == 'TypesInferenceEngine']
  chkr = [c for n, c in v.all_calls() if call_tail(c) == 'TypeErrorChecker']
  same = bool(eng) and bool(chkr) and eng[0].args and chkr[0].args and \
      norm(eng[0].args[0]) == norm(chkr[0].args[0])
  chk.ob('C05-R1', same, None, 'TypeErrorChecker checks the rules that were inferred',
         'the error checker is given %s, inference ran on %s' % (
             norm(chkr[0].args[0]) if chkr and chkr[0].args else '?',
             norm(eng[0].args[0]) if eng and eng[0].args else '?'), fi=v.fi)

  s = FnView(repo, 'universe.LogicaProgram.SingleRuleSql')
  perf = s.calls(PERFORM_S)
  cks = [x for x in s.calls(CHECK) if mode_is_raise(x[1])]
  sites = s.need_calls(K.ASSQL)
  # nodes where ShouldTypecheck() is known false
  off = set()
  for b, (h, pol) in s.cfg.branch_of.items():
    st = s.cfg.stmt[h]
    if isinstance(st, ast.If) and not pol and any(
        isinstance(c, ast.Call) and SHOULD in repo.resolve(s.fi, c)
        for c in walk_local(st.test)) and isinstance(st.test, ast.Call):
      off.add(b)
  if not off:
    raise AnalysisError('SingleRuleSql: `if ...ShouldTypecheck():` not found')
  for site in sites:
    ok = bool(cks) and s.cfg.must_pass_before(site[0], s.nodes_of(cks) | off)
    chk.ob('C05-R1', ok, None,
           "AsSql only after CheckForError('raise') when type checking is on",
           'SQL is produced for a rule whose injected structure was not '
           'checked for type errors', fi=s.fi, node=site[1])
  for c in cks:
    chk.ob('C05-R1', bool(perf) and s.precedes(perf, c), None,
           'PerformInference() before CheckForError in SingleRuleSql',
           'errors are searched on a structure that was never inferred',
           fi=s.fi, node=c[1])
  chk.ob('C05-R1', bool(cks), None, "SingleRuleSql calls CheckForError('raise')",
         'the per-structure error search is gone or not in raise mode', fi=s.fi)
  quazy = [c for n, c in s.all_calls() if call_tail(c) == 'TypeErrorChecker']
  okq = bool(quazy) and quazy[0].args and 'quazy_rule' in norm(quazy[0].args[0])
  chk.ob('C05-R1', okq, None, 'error search runs over type_inference.quazy_rule',
         'the structure-level checker does not look at the inferred quazy rule',
         fi=s.fi)
  # CheckForError semantics
  cf = repo.func(CHECK)

  class Truthy(object):
    key = 'type_error-present'

  def attr(node, st, interp):
    if node.attr == 'type_error':
      return Truthy()
    return NotImplemented

  def truth(val, st):
    if isinstance(val, Truthy):
      return True
    return NotImplemented
  it = Interp(cf.node, dict(attr=attr, truth=truth))
  st0 = State(env={'mode': Const('raise')})
  outs = it.run(st0)
  bad = [o for o in outs if not (o.kind == 'raise' and isinstance(o.value, ast.Call)
                                 and (dotted(o.value.func) or '').endswith(
                                     'TypeErrorCaughtException'))]
  chk.ob('C05-R1', bool(outs) and not bad, None,
         "CheckForError('raise') raises TypeErrorCaughtException when an error was found",
         'with a type error present a path of CheckForError ends in %s' % (
             bad[0].kind if bad else ''), fi=cf)
  # SearchTypeErrors walks every typed rule
  se = repo.func('infer.TypeErrorChecker.SearchTypeErrors')
  walks = [c for c in walk_local(se.node) if isinstance(c, ast.Call) and
           call_tail(c) == 'Walk']
  loops = [x for x in walk_local(se.node) if isinstance(x, ast.For) and
           dotted(x.iter) == 'self.typed_rules']
  chk.ob('C05-R1', bool(walks) and bool(loops), None,
         'SearchTypeErrors walks every rule in self.typed_rules',
         'the error search does not visit all typed rules', fi=se)

  chk.rule('C05-R2', 'every key under which the parser stores a '
           'sub-expression is visited by infer.ExpressionsIterator; every '
           'Act* constraint generator is used', min_instances=15)
  prod = expression_keys(repo)
  if len(prod) < 8:
    raise AnalysisError('parse.py: expression-holding keys not recognised: %s'
                        % sorted(prod))
  ei = repo.func('infer.ExpressionsIterator')
  ef = repo.func('infer.ExpressionFields')
  fields = set()
  for x in walk_local(ef.node):
    if isinstance(x, ast.Return):
      fields = set(tables.const_value(x.value))
  indexed = {const_str(x.slice) for x in walk_local(ei.node)
             if isinstance(x, ast.Subscript) and const_str(x.slice)}
  conv = repo.func('parse.AggergationsAsExpressions.Convert')
  conv_reads = {const_str(x.slice) for x in walk_local(conv.node)
                if isinstance(x, ast.Subscript) and const_str(x.slice)}
  conv_writes = set()
  for d in ast.walk(conv.node):
    if isinstance(d, ast.Dict):
      for k, val in zip(d.keys, d.values):
        if isinstance(val, ast.Subscript) and const_str(val.slice) == 'argument':
          conv_writes.add(const_str(k))
  for k, (fi, node) in sorted(prod.items()):
    ok = k in fields or k in indexed
    if k == 'argument':
      ok = 'argument' in conv_reads and bool(conv_writes & fields)
    chk.ob('C05-R2', ok, None,
           "sub-expression key '%s' is visited by the type inference" % k,
           "the parser stores expressions under '%s' but ExpressionsIterator "
           'does not yield them: their types are never inferred nor checked'
           % k, fi=fi, node=node)
  m = repo.by_name('infer')
  cls = m.cls('TypeInferenceForRule')
  acts = sorted(n for n in cls.methods if n.startswith('Act'))
  if len(acts) < 8:
    raise AnalysisError('TypeInferenceForRule: Act* visitors not recognised')
  cg = CallGraph(repo, [m])
  reach = cg.reachable([INFER_TYPES, PERFORM_S,
                        'infer.TypeInferenceForRule.PerformInference'])
  used = set()
  for fq in reach:
    fi = cg.funcs.get(fq)
    if fi is None:
      continue
    for x in walk_local(fi.node):
      if isinstance(x, ast.Attribute) and x.attr.startswith('Act'):
        used.add(x.attr)
  for a in acts:
    chk.ob('C05-R2', a in used, None, 'constraint generator %s is used' % a,
           '%s is defined but no longer invoked from the inference passes: '
           'the constraints it generates are lost' % a, fi=cls.methods[a])
  # module-level Act* helpers used by Walk
  for name in ('ActMindingPodLiterals',):
    fi = m.func(name)
    refs = [x for fq in reach if fq in cg.funcs
            for x in walk_local(cg.funcs[fq].node)
            if isinstance(x, ast.Name) and x.id == name]
    chk.ob('C05-R2', bool(refs), None, 'constraint generator %s is used' % name,
           '%s is no longer applied' % name, fi=fi)

  chk.rule('C05-R5', 'inference order: the dependencies of a predicate '
           'accumulate over all its rules and rules are inferred in order of '
           'dependency complexity', min_instances=3)
  bd = repo.func('infer.BuildDependencies')
  stores = []
  for x in walk_local(bd.node):
    if isinstance(x, ast.Assign) and isinstance(x.targets[0], ast.Subscript) and \
        dotted(x.targets[0].value) == 'result':
      stores.append(x)
    if isinstance(x, ast.AugAssign) and isinstance(x.target, ast.Subscript) and \
        dotted(x.target.value) == 'result':
      stores.append(x)
  if not stores:
    raise AnalysisError('BuildDependencies: store into the result map not found')
  for x in stores:
    accum = isinstance(x, ast.AugAssign) or any(
        isinstance(y, ast.Name) and y.id == 'result' for y in ast.walk(x.value))
    chk.ob('C05-R5', accum, None, 'dependencies of a predicate accumulate over its rules',
           'each rule overwrites the dependencies recorded for its predicate: a '
           'multi-rule predicate is ranked by its last rule only and can be '
           'typed before a predicate one of its other rules calls', fi=bd, node=x)
  eng = repo.func('infer.TypesInferenceEngine.__init__')
  srt = [c for c in walk_local(eng.node) if isinstance(c, ast.Call) and call_tail(c) == 'sorted']
  ok = any('complexities' in norm(k.value) for c in srt for k in c.keywords if k.arg == 'key')
  chk.ob('C05-R5', ok, None, 'rules are inferred in order of dependency complexity',
         'rules are no longer sorted by the complexity of their predicate', fi=eng)
  bc = repo.func('infer.BuildComplexities')
  # the recursive worker may be nested in BuildComplexities or a function of
  # the module it calls
  scope = [bc.node]
  for c in ast.walk(bc.node):
    if isinstance(c, ast.Call) and isinstance(c.func, ast.Name) and c.func.id in bc.module.funcs \
        and bc.module.funcs[c.func.id].node is not bc.node:
      scope.append(bc.module.funcs[c.func.id].node)
  recursive = False
  for sc in scope:
    for f_ in ast.walk(sc):
      if isinstance(f_, (ast.FunctionDef,)) and any(
          isinstance(c, ast.Call) and call_tail(c) == f_.name for c in ast.walk(f_)) and any(
          isinstance(c, ast.Call) and call_tail(c) == 'sum' for c in ast.walk(f_)):
        # 1 + sum(<recursive call> for x in dependencies[p])
        recursive = any(isinstance(b_, ast.BinOp) and isinstance(b_.op, ast.Add) and
                        any(isinstance(c, ast.Call) and call_tail(c) == 'sum' for c in ast.walk(b_))
                        and any(isinstance(k_, ast.Constant) and k_.value == 1 for k_ in (b_.left, b_.right))
                        for b_ in ast.walk(f_)) or recursive
  ok = recursive
  chk.ob('C05-R5', ok, None, 'complexity of a predicate exceeds that of everything it depends on',
         'complexity is no longer 1 + sum over dependencies', fi=bc)

  chk.rule('C05-R6', 'closing a record literal closes the record every '
           'unified reference sees (end of the reference chain), and record '
           'literals are closed after their fields are unified', min_instances=2)
  from rules.c16 import end_of_chain
  end_of_chain(chk, 'C05-R6')
  from rules.c16 import list_elements_kept
  list_elements_kept(chk, 'C05-R6')
  rl = FnView(repo, 'infer.TypeInferenceForRule.ActMindingRecordLiterals')
  closes = [(n, c) for n, c in rl.all_calls() if call_tail(c) == 'CloseRecord']
  fields = [(n, c) for n, c in rl.all_calls() if call_tail(c) == 'UnifyRecordField']
  chk.ob('C05-R6', bool(closes) and bool(fields) and all(
      not any(fn in rl.cfg.reachable(cn) and fn != cn for fn, _ in fields) for cn, _ in closes),
         None, 'a record literal is closed after all its fields were unified into it',
         'the record is closed before (or without) its fields being added: '
         'addressing a field of a literal clashes, or missing fields are accepted',
         fi=rl.fi)

  chk.rule('C05-R7', 'combine scoping of type variables: a combine sees the '
           'variables of its enclosing scope and nothing of its sibling '
           'combines (snapshot after the scope registered its own variables; '
           'a fresh copy of the snapshot restored after every nested combine)',
           min_instances=3)
  jp = FnView(repo, 'infer.WalkInitializingVariables.JogPredicate')
  TABLE = 'type_of_variable'

  def fresh_copy_of(e, name):
    if isinstance(e, ast.DictComp):
      return any(name in norm(g.iter) for g in e.generators)
    if isinstance(e, ast.Call):
      t = call_tail(e)
      if t in ('dict', 'deepcopy', 'copy') and e.args and dotted(e.args[0]) == name:
        return True
      if t == 'copy' and isinstance(e.func, ast.Attribute) and dotted(e.func.value) == name:
        return True
    return False
  snaps = [(n, jp.cfg.stmt[n]) for n in jp.cfg.stmt_nodes()
           if isinstance(jp.cfg.stmt[n], ast.Assign) and dotted(jp.cfg.stmt[n].targets[0]) != TABLE
           and fresh_copy_of(jp.cfg.stmt[n].value, TABLE)]
  if not snaps:
    raise AnalysisError('JogPredicate: snapshot of the scope table not found')
  sn, sst = snaps[0]
  sname = dotted(sst.targets[0])
  jogs = [n for n, c in jp.all_calls() if call_tail(c) == 'Jog']
  chk.ob('C05-R7', bool(jogs) and jp.cfg.must_pass_before(sn, jogs), None,
         "the scope is snapshotted after its own variables were registered",
         'the snapshot is taken before Jog registered the variables of the scope: '
         'after the first nested combine the outer variables are forgotten and '
         'later combines get fresh, unrelated types for them (clashes are missed)',
         fi=jp.fi, node=sst)
  recs = [(n, c) for n, c in jp.all_calls() if call_tail(c) == 'JogPredicate']
  restores = [(n, jp.cfg.stmt[n]) for n in jp.cfg.stmt_nodes()
              if isinstance(jp.cfg.stmt[n], ast.Assign) and
              dotted(jp.cfg.stmt[n].targets[0]) == TABLE]
  chk.ob('C05-R7', bool(recs) and bool(restores) and all(
      any(rn in jp.cfg.reachable(cn) for rn, _ in restores) for cn, _ in recs), None,
         'the scope table is restored after every nested combine',
         'variables of a nested combine stay visible to what follows it', fi=jp.fi)
  for rn, rst in restores:
    chk.ob('C05-R7', fresh_copy_of(rst.value, sname), None,
           'the restored table is a fresh copy of the snapshot',
           'the table is restored to `%s` itself: the next combine registers its '
           'variables in the snapshot, so the combine after it sees them - three '
           'sibling combines reusing a local name at different types are '
           'rejected with a bogus clash' % norm(rst.value, 40), fi=jp.fi, node=rst)

  chk.rule('C05-R3', 'whole-program checking (__init__) and per-structure '
           'checking (SingleRuleSql) are gated by the same predicate '
           'Annotations.ShouldTypecheck()', min_instances=2)
  ini = FnView(repo, 'universe.LogicaProgram.__init__')
  rt = ini.calls(RUNTC)
  ok = False
  for n, c in rt:
    for e, val in ini.guards(n):
      if val is True and isinstance(e, ast.Call) and SHOULD in repo.resolve(ini.fi, e):
        ok = True
  chk.ob('C05-R3', ok, None, '__init__ runs RunTypechecker iff ShouldTypecheck()',
         'the whole-program type check is not (only) gated by '
         'ShouldTypecheck()', fi=ini.fi)
  ok = False
  for n, c in perf:
    for e, val in s.guards(n):
      if val is True and isinstance(e, ast.Call) and SHOULD in repo.resolve(s.fi, e):
        ok = True
  chk.ob('C05-R3', ok, None, 'SingleRuleSql infers iff ShouldTypecheck()',
         'the per-structure type check is not gated by ShouldTypecheck()',
         fi=s.fi)

  chk.rule('C05-R4', 'literal kinds are given their ground types: number->Num, '
           'string->Str, bool->Bool', min_instances=3)
  pod = repo.func('infer.ActMindingPodLiterals')
  got = {}
  for x in walk_local(pod.node):
    if isinstance(x, ast.If) and isinstance(x.test, ast.Compare):
      # the kind tested and the type given may both come from a literal table
      # driving an enclosing loop: one row at a time
      for binding in tables.table_bindings(pod, x):
        kind = const_str(tables.bound(x.test.left, binding))
        if not kind:
          continue
        for c in walk_local(x):
          if isinstance(c, ast.Call) and call_tail(c) == 'TypeReference' and c.args:
            typ = const_str(tables.bound(c.args[0], binding))
            if typ:
              got[kind] = typ
  want = {'the_number': 'Num', 'the_string': 'Str', 'the_bool': 'Bool'}
  for k, t in want.items():
    chk.ob('C05-R4', got.get(k) == t, None, "literal '%s' is typed %s" % (k, t),
           'literals of kind %s are unified with %s' % (k, got.get(k)), fi=pod)

  # a list literal is a list whatever its length: the empty literal `[]` has
  # no element to unify with, so a unification outside the per-element loop
  # is what makes it a list at all
  ll = repo.func('infer.TypeInferenceForRule.ActMindingListLiterals')
  in_loop = set()
  loops = 0
  for x in walk_local(ll.node):
    if isinstance(x, (ast.For, ast.While)):
      loops += 1
      for st in x.body:
        in_loop |= {id(y) for y in ast.walk(st)}
    elif isinstance(x, (ast.ListComp, ast.GeneratorExp, ast.SetComp)):
      loops += 1
      in_loop |= {id(y) for y in ast.walk(x.elt)}
  unif = [c for c in walk_local(ll.node) if isinstance(c, ast.Call) and
          (call_tail(c) or '').startswith('Unify')]
  if not unif:
    raise AnalysisError('ActMindingListLiterals: no unification recognised')
  outside = [c for c in unif if id(c) not in in_loop]
  chk.ob('C05-R4', bool(outside) or not loops, None,
         'a list literal is typed as a list even when it has no elements',
         'the only unifications of a list literal happen once per element: the empty '
         'literal [] gets no list type, so `x = []; x = 5` or a number field typed from '
         '[] passes the checker', fi=ll, node=unif[0])

  # a type reached twice through sibling fields is not a cycle: the set of
  # ancestors used to stop at cyclic types belongs to ONE path of the walk -
  # it is extended by building a new set, never by changing the shared one
  vc = repo.func('reference_algebra.VeryConcreteType')
  seen_param = [p_ for p_ in vc.params if p_ != vc.params[0]]
  inplace = [x for x in walk_local(vc.node)
             if (isinstance(x, ast.Call) and isinstance(x.func, ast.Attribute) and
                 x.func.attr in ('add', 'update') and dotted(x.func.value) in seen_param) or
             (isinstance(x, ast.AugAssign) and dotted(x.target) in seen_param and
              isinstance(x.op, ast.BitOr))]
  recursive = [c for c in walk_local(vc.node) if isinstance(c, ast.Call) and
               call_tail(c) == vc.name]
  if not seen_param or not recursive:
    raise AnalysisError('VeryConcreteType: recursive walk with an ancestor set not recognised')
  chk.ob('C05-R6', not inplace, None,
         'the ancestor set of the recursive type rendering is extended per path',
         '`%s` changes the set that sibling branches share: a record or list type that occurs '
         'in two fields of one record is taken for a cycle and rendered as an error type, so '
         'a well-typed program gets a wrong (non-ground) signature'
         % (norm(inplace[0], 50) if inplace else ''), fi=vc, node=inplace[0] if inplace else None)


def expression_keys(repo):
  """{key: (fi, node)}: dict entries in parse.py whose value is produced by
  ParseExpression (directly, through a local, or as a list of them)."""
  m = repo.by_name('parse')
  out = {}
  for fi in m.funcs.values():
    exprs = set()
    for x in walk_local(fi.node):
      if isinstance(x, ast.Assign) and _is_parse_expr(x.value):
        for t in x.targets:
          if isinstance(t, ast.Name):
            exprs.add(t.id)
    for d in walk_local(fi.node):
      if isinstance(d, ast.Dict):
        for k, val in zip(d.keys, d.values):
          ks = const_str(k) if k is not None else None
          if ks is None:
            continue
          if _is_parse_expr(val) or (isinstance(val, ast.Name) and val.id in exprs):
            out.setdefault(ks, (fi, d))
  return out


def _is_parse_expr(v):
  if isinstance(v, ast.Call) and call_tail(v) == 'ParseExpression':
    return True
  if isinstance(v, ast.ListComp) and isinstance(v.elt, ast.Call) and \
      call_tail(v.elt) == 'ParseExpression':
    return True
  return False
