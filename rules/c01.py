"""C01 - compiled SQL returns the denoted multiset (structural clauses only)."""

import ast
import re

from sa.model import AnalysisError, call_tail, const_str, dotted, norm, walk_local
from sa.pathrules import FnView
from sa import tables
from rules import common as K


def run(chk):
  repo = chk.repo
  chk.rule('C01-R1', 'RuleStructure typestate: ExtractRuleStructure -> '
           'RunInjections -> ElliminateInternalVariables(full) -> '
           'UnificationsToConstraints -> AsSql on every path (SingleRuleSql, '
           'FunctionSql); injected structures are eliminated before '
           'InjectStructure', min_instances=14)
  K.rule_structure_typestate(chk, 'C01-R1', 'universe.LogicaProgram.SingleRuleSql')
  K.rule_structure_typestate(chk, 'C01-R1', 'universe.LogicaProgram.FunctionSql')
  K.injected_structure_prepared(chk, 'C01-R1')

  chk.rule('C01-R2', 'AST-kind exhaustiveness: every expression / literal / '
           'conjunct kind the parser can return has a consumer branch',
           min_instances=15)
  ast_kinds(chk, 'C01-R2')

  chk.rule('C01-R3', 'positional fields are named col<N> at every site that '
           'turns an int field into a column name; the functional value '
           'column is logica_value at every writer', min_instances=9)
  column_names(chk, 'C01-R3')

  chk.rule('C01-R5', 'multiplicities: conjunction of DNFs is a product, '
           'disjunction a concatenation, each alternative its own rule; '
           'injection merges every component of the injected structure; WHERE '
           'is the AND of all constraints, FROM a cross join; every argument '
           'of a body literal is unified with its column', min_instances=12)
  merge_and_product(chk, 'C01-R5')
  from rules.c11 import functional_calls
  functional_calls(chk, 'C01-R5')
  K.inclusion_is_unnesting(chk, 'C01-R5')

  chk.rule('C01-R6', 'composability: the SQL of an infix operator and of a '
           'combine is one parenthesised group on every path out of '
           'ConvertToSql (abstract interpretation with string skeletons)',
           min_instances=2)
  atomic_fragments(chk, 'C01-R6')

  chk.rule('C01-R7', 'translating an expression does not rewrite it: no method '
           'of QL reachable from ConvertToSql stores into the tree it is given '
           '(the same expression object stands at every use of a variable, so a '
           'rewrite during the first translation changes all later ones)',
           min_instances=15)
  pure_translation(chk, 'C01-R7')

  chk.rule('C01-R8', 'expression grouping: the infix splitter tries looser '
           'operators first (logical < comparison < additive < multiplicative < '
           'power), `+` before `-` and `*` before `/` (left-to-right evaluation), '
           'and an operator that contains another one before it', min_instances=20)
  K.operator_grouping(chk, 'C01-R8')

  chk.rule('C01-R4', 'several rules are combined with UNION ALL and no '
           'DISTINCT; GROUP BY is emitted only for distinct_vars',
           min_instances=3)
  union_all(chk, 'C01-R4')


# ---------------------------------------------------------------------------
def _atomic(sk):
  """Skeleton is one parenthesised group or one FUNCTION(...) call form, so
  it can be spliced into any operator context without changing its meaning."""
  from sa import strshape, sqllex
  text = strshape.as_str(sk).text(lambda h: 'X')
  t = text.strip()
  m = re.match(r'^[A-Za-z_][A-Za-z_0-9]*\s*\(', t)
  if not (t.startswith('(') or m):
    return False, text
  if not t.endswith(')'):
    return False, text
  start = t.index('(')
  st = sqllex.ScanState()
  for i, ch in enumerate(t[start:]):
    sqllex.scan(ch, st)
    if st.error:
      return False, text
    if not st.stack and st.quote is None and start + i < len(t) - 1:
      return False, text      # the first group closes before the end
  return st.balanced(), text


def atomic_fragments(chk, rid):
  """Results of infix operators and combines are parenthesised on every path
  before ConvertToSql returns them (the infix templates do not protect their
  operands, so a bare `a + b` spliced into `- %s` or `%s || %s` re-associates)."""
  from sa import strshape
  from sa.absint import Interp, State, Sym
  repo = chk.repo
  fi = repo.func('expr_translate.QL.ConvertToSql')

  def run_branch(stmts, label):
    fn = ast.FunctionDef(name='branch', args=ast.arguments(
        posonlyargs=[], args=[], kwonlyargs=[], kw_defaults=[], defaults=[]),
        body=stmts, decorator_list=[], lineno=stmts[0].lineno, col_offset=0)

    def call(node, st, interp):
      t = call_tail(node)
      if t in ('Infix', 'TranslateRule', 'Function'):
        return Sym(t.upper())
      r = strshape.call_hook(node, st, interp)
      return r
    it = Interp(fn, dict(call=call, expr=strshape.expr_hook,
                         loop=lambda n, s: 'once'))
    outs = [o for o in it.run(State()) if o.kind == 'return']
    if not outs:
      raise AnalysisError('ConvertToSql: %s branch has no return' % label)
    bad = []
    for o in outs:
      ok, text = _atomic(o.value)
      if not ok:
        bad.append((text, '; '.join(o.state.trace)))
    chk.ob(rid, not bad, None, '%s results are parenthesised on every path (%d)' % (label, len(outs)),
           'a path returns the bare fragment `%s` (%s): spliced into a prefix '
           'or infix template it re-associates, e.g. -(x + y) becomes - (x) + (y)'
           % (bad[0] if bad else ('', '')), fi=fi, node=stmts[0])

  disp = K.table_dispatch(FnView(repo, 'expr_translate.QL.ConvertToSql'), 'built_in_infix_operators')
  if not disp:
    raise AnalysisError('ConvertToSql: dispatch over built_in_infix_operators not found')
  for _, hit in disp:
    run_branch(hit, 'infix operator')
  comb = [x for x in walk_local(fi.node) if isinstance(x, ast.If) and
          isinstance(x.test, ast.Compare) and const_str(x.test.left) == 'combine' and
          dotted(x.test.comparators[0]) == 'expression']
  if not comb:
    raise AnalysisError("ConvertToSql: 'combine' branch not found")
  run_branch(comb[0].body, 'combine sub-query')


# ---------------------------------------------------------------------------
def pure_translation(chk, rid):
  from sa import shapes
  from sa.callgraph import CallGraph
  repo = chk.repo
  m = repo.by_name('expr_translate')
  cg = CallGraph(repo, [m])
  reach = cg.reachable(['expr_translate.QL.ConvertToSql'])
  for fq in sorted(reach):
    fi = cg.funcs.get(fq)
    if fi is None or fi.module is not m:
      continue
    params = [p_ for p_ in fi.params if p_ not in ('self', 'cls')]
    # nested helpers see the parameters of the enclosing method too
    q = fi.parent
    while q is not None:
      params += [p_ for p_ in q.params if p_ not in ('self', 'cls')]
      q = q.parent
    if not params:
      continue
    bad = shapes.stores_into_arguments(fi.node, params)
    chk.ob(rid, not bad, None, '%s leaves the tree it translates untouched' % fi.qualname,
           'the translation writes into the expression it was given (`%s`): the '
           'object is shared by every use of the variable it was unified with, '
           'so later uses are translated from the rewritten tree'
           % ', '.join(b[1] for b in bad[:3]), fi=fi, node=bad[0][0] if bad else None)


# ---------------------------------------------------------------------------
def merge_and_product(chk, rid):
  """Conjunction multiplies, disjunction adds; injection merges every
  component of the injected structure; WHERE is a conjunction."""
  repo = chk.repo
  # InjectStructure merges every constraint-carrying component
  inj = repo.func('universe.InjectStructure')
  params = inj.params
  if len(params) != 2:
    raise AnalysisError('InjectStructure(target, source) signature changed')
  tgt, src = params
  merged = {}
  for c in walk_local(inj.node):
    if isinstance(c, ast.Call) and call_tail(c) in ('update', 'extend') and \
        isinstance(c.func, ast.Attribute) and isinstance(c.func.value, ast.Attribute) and \
        dotted(c.func.value.value) == tgt and c.args and \
        isinstance(c.args[0], ast.Attribute) and dotted(c.args[0].value) == src:
      merged[c.func.value.attr] = c.args[0].attr
  rs = repo.by_name('rule_translate').cls('RuleStructure')
  init = rs.methods['__init__']
  carried = set()
  for x in walk_local(init.node):
    if isinstance(x, ast.Assign) and dotted(x.targets[0]) and dotted(x.targets[0]).startswith('self.'):
      name = dotted(x.targets[0])[5:]
      if isinstance(x.value, (ast.List, ast.Dict)) and name not in ('select', 'distinct_vars', 'vars_heritage_map'):
        carried.add(name)
  # tables are handled by RunInjections itself (new_tables)
  need = carried - {'tables'}
  for name in sorted(need):
    chk.ob(rid, merged.get(name) == name, None,
           'InjectStructure merges source.%s into target.%s' % (name, name),
           'an injected rule loses its %s: the host query no longer carries '
           'the conditions / variables of the inlined predicate' % name, fi=inj)
  # DNF: conjunction = cartesian product (a + b), disjunction = concatenation
  from sa import shapes
  cj = repo.func('parse.DisjunctiveNormalForm.ConjunctionOfDnfs')
  ok = False
  for pr_ in shapes.productions(cj.node):
    if pr_.kind != 'append' or pr_.conds or len(pr_.gens) != 2:
      continue
    (t1, i1), (t2, i2) = pr_.gens
    e = pr_.elt
    cjv = FnView(repo, 'parse.DisjunctiveNormalForm.ConjunctionOfDnfs')
    rec = any(isinstance(c, ast.Call) and call_tail(c) == 'ConjunctionOfDnfs'
              for it_ in (i1, i2) for c in ast.walk(cjv.expand(it_)))
    if isinstance(e, ast.BinOp) and isinstance(e.op, ast.Add) and isinstance(t1, ast.Name) and \
        isinstance(t2, ast.Name) and {dotted(e.left), dotted(e.right)} == {t1.id, t2.id} and \
        t1.id != t2.id and rec:
      ok = True
  chk.ob(rid, ok, None,
         'conjunction of DNFs is the product of the alternatives (a + b for all pairs)',
         'the DNF of a conjunction is not the cartesian product of the DNFs of '
         'its conjuncts: alternatives are lost or duplicated', fi=cj)
  dj = repo.func('parse.DisjunctiveNormalForm.DisjunctsToDNF')
  prods = shapes.productions(dj.node)
  whole = bool(prods)
  for pr_ in prods:
    if pr_.conds:
      whole = False
    elif pr_.kind == 'extend':
      # result += d / result.extend(d) for d in dnfs: d whole
      if not (len(pr_.gens) == 1 and isinstance(pr_.elt, ast.Name) and
              isinstance(pr_.gens[0][0], ast.Name) and pr_.elt.id == pr_.gens[0][0].id):
        whole = False
    else:
      # [c for d in dnfs for c in d]
      if not (len(pr_.gens) == 2 and isinstance(pr_.elt, ast.Name) and
              isinstance(pr_.gens[1][0], ast.Name) and pr_.elt.id == pr_.gens[1][0].id and
              isinstance(pr_.gens[0][0], ast.Name) and dotted(pr_.gens[1][1]) == pr_.gens[0][0].id):
        whole = False
  chk.ob(rid, whole, None,
         'disjunction of DNFs is the concatenation of the alternatives',
         'alternatives of a disjunction are not all kept', fi=dj)
  every_body_normalised(chk, rid)
  r2r = repo.func('parse.DisjunctiveNormalForm.RuleToRules')

  def deepcopies(fi_, depth=2):
    n_ = 0
    for c in walk_local(fi_.node):
      if isinstance(c, ast.Call):
        if call_tail(c) == 'deepcopy':
          n_ += 1
        elif depth and isinstance(c.func, ast.Attribute) and dotted(c.func.value) in ('cls', 'self'):
          h = repo.lookup_method(fi_.module, fi_.cls, c.func.attr) if fi_.cls else None
          if h is not None and h is not fi_:
            n_ += deepcopies(h, depth - 1)
    return n_
  chk.ob(rid, deepcopies(r2r) >= 2, None, 'each alternative becomes its own deep-copied rule',
         'rules generated from one disjunction share sub-trees: later in-place '
         'rewrites of one alternative change the others', fi=r2r)
  # WHERE is a conjunction of all (non-ephemeral) constraints; FROM a comma list
  v = FnView(repo, K.ASSQL)
  joins = [c for n, c in v.all_calls() if call_tail(c) == 'join' and
           isinstance(c.func, ast.Attribute) and const_str(c.func.value) is not None]
  where = [c for c in joins if c.args and 'constraints' in norm(v.expand(c.args[0]), 2000)]
  chk.ob(rid, bool(where) and all(sql_tokens(const_str(c.func.value)) == ['AND'] for c in where),
         None, 'WHERE joins the constraints with AND',
         'constraints are combined with %s' % [const_str(c.func.value) for c in where], fi=v.fi)
  frm = [c for c in joins if c.args and dotted(c.args[0]) == 'tables']
  chk.ob(rid, bool(frm) and all(const_str(c.func.value).strip() == ',' for c in frm), None,
         'FROM is a comma (cross) join of the tables',
         'tables are combined with %r' % [const_str(c.func.value) for c in frm], fi=v.fi)
  # loops and comprehensions over self.constraints, with the filter they apply
  loops = []
  for x in walk_local(v.fi.node):
    if isinstance(x, ast.For) and dotted(x.iter) == 'self.constraints':
      loops.append([c for c in ast.walk(x) if isinstance(c, ast.Compare)])
    elif isinstance(x, (ast.ListComp, ast.GeneratorExp, ast.SetComp)) and any(
        dotted(g.iter) == 'self.constraints' for g in x.generators):
      loops.append([c for g in x.generators for i in g.ifs for c in ast.walk(i)
                    if isinstance(c, ast.Compare)])
  skipped = set()
  for cmps in loops:
    for x in cmps:
      if isinstance(x.ops[0], ast.NotIn):
        try:
          skipped |= set(tables.const_value(x.comparators[0]))
        except AnalysisError:
          pass
  chk.ob(rid, bool(loops) and skipped <= {'~'}, None,
         'every constraint except the type hint ~ reaches WHERE',
         'constraints with predicate %s are dropped from WHERE' % sorted(skipped - {'~'}), fi=v.fi)
  # every argument of a predicate call becomes a column unification
  eps = repo.func('rule_translate.ExtractPredicateStructure')
  loops = [x for x in walk_local(eps.node) if isinstance(x, ast.For) and 'field_value' in norm(x.iter)]
  ok = False
  for l in loops:
    apps = [c for c in ast.walk(l) if isinstance(c, ast.Call) and call_tail(c) == 'append'
            and 'vars_unification' in norm(c.func)]
    maps = [x for x in ast.walk(l) if isinstance(x, ast.Assign) and isinstance(x.targets[0], ast.Subscript)
            and 'vars_map' in norm(x.targets[0].value)]
    if apps and len(maps) >= 2:
      ok = True
  chk.ob(rid, ok, None, 'every argument of a body literal yields a column variable and a unification',
         'arguments of predicate calls are not all tied to the columns of the table', fi=eps)
  u2c = repo.func(K.U2C)
  dicts = tables.find_dicts_with(u2c.node, 'predicate_name', '==')
  sides = {const_str(k) for d in ast.walk(u2c.node) if isinstance(d, ast.Dict)
           for k, val in zip(d.keys, d.values) if const_str(k) == 'field'
           for k in [val]}
  fields = set()
  for d in ast.walk(u2c.node):
    if isinstance(d, ast.Dict):
      kv = {const_str(k): val for k, val in zip(d.keys, d.values) if k is not None}
      if 'field' in kv and const_str(kv['field']):
        fields.add(const_str(kv['field']))
  chk.ob(rid, bool(dicts) and fields == {'left', 'right'}, None,
         'a remaining unification becomes the constraint left == right',
         'unifications become %s constraints over %s' % (
             'no' if not dicts else '==', sorted(fields)), fi=u2c)


# ---------------------------------------------------------------------------
def producer_keys(repo, fq, extra_callees=()):
  """Keys of dict literals a parser function returns; `return v` of a value
  obtained from another parser function contributes that function's keys."""
  fi = repo.func(fq)
  keys = dict(tables.returned_dict_keys(fi))
  for x in walk_local(fi.node):
    if isinstance(x, ast.Return) and isinstance(x.value, ast.Name):
      name = x.value.id
      for y in walk_local(fi.node):
        if (isinstance(y, ast.Assign) and isinstance(y.value, ast.Call) and
            any(isinstance(t, ast.Name) and t.id == name for t in y.targets)):
          for tgt in repo.resolve(fi, y.value):
            if tgt.startswith(fi.module.name + '.') and tgt != fi.fq:
              sub = repo.func(tgt)
              # only callees that are returned verbatim right after a test
              if _returned_verbatim(fi, y, name):
                for k, n in _deep_return_keys(repo, sub, 0).items():
                  keys.setdefault(k, n)
  return keys


def _returned_verbatim(fi, assign, name):
  """`v = F(..)` immediately followed by `if v: return v`."""
  body = _containing_body(fi.node, assign)
  if body is None:
    return False
  i = body.index(assign)
  if i + 1 < len(body) and isinstance(body[i + 1], ast.If):
    nxt = body[i + 1]
    if dotted(nxt.test) == name:
      for s in nxt.body:
        if isinstance(s, ast.Return) and dotted(s.value) == name:
          return True
  return False


def _containing_body(root, stmt):
  for x in ast.walk(root):
    for fld in ('body', 'orelse', 'finalbody'):
      b = getattr(x, fld, None)
      if isinstance(b, list) and stmt in b:
        return b
  return None


def _deep_return_keys(repo, fi, depth):
  keys = dict(tables.returned_dict_keys(fi))
  if depth > 3:
    return keys
  for x in walk_local(fi.node):
    if isinstance(x, ast.Return) and isinstance(x.value, ast.Call):
      for tgt in repo.resolve(fi, x.value):
        if tgt.startswith(fi.module.name + '.') and tgt != fi.fq:
          try:
            sub = repo.func(tgt)
          except AnalysisError:
            continue
          for k, n in _deep_return_keys(repo, sub, depth + 1).items():
            keys.setdefault(k, n)
    if isinstance(x, ast.Return) and isinstance(x.value, ast.Name):
      # `expression = {...}; return expression`
      for y in walk_local(fi.node):
        if (isinstance(y, ast.Assign) and isinstance(y.value, ast.Dict) and
            any(isinstance(t, ast.Name) and t.id == x.value.id
                for t in y.targets)):
          for k in y.value.keys:
            if const_str(k) is not None:
              keys.setdefault(const_str(k), y)
  return keys


def ast_kinds(chk, rid):
  repo = chk.repo
  # expression kinds
  prod = producer_keys(repo, 'parse.ActuallyParseExpression')
  prod.pop('expression_heritage', None)
  if len(prod) < 6:
    raise AnalysisError('ActuallyParseExpression: expression kinds not '
                        'recognised (%s)' % sorted(prod))
  cons_fi = repo.func('expr_translate.QL.ConvertToSql')
  cons = tables.tested_keys(cons_fi, 'expression')
  for k in sorted(prod):
    chk.ob(rid, k in cons, None, "expression kind '%s' handled by QL.ConvertToSql" % k,
           "the parser builds {'%s': ..} expressions but ConvertToSql has no "
           "branch testing '%s' in expression: every program using the form "
           'ends in the internal assertion' % (k, k), fi=cons_fi)
  # literal kinds
  lit = dict(tables.returned_dict_keys(repo.func('parse.ParseLiteral')))
  sub = repo.func('parse.ParseSubscript')
  for d in tables.find_dicts_with(sub.node, 'the_symbol'):
    lit.setdefault('the_symbol', d)
  if len(lit) < 6:
    raise AnalysisError('ParseLiteral: literal kinds not recognised')
  cons_l = tables.tested_keys(cons_fi, 'literal')
  # the_symbol is consumed by direct indexing in the subscript branch
  indexed = {const_str(x.slice) for x in walk_local(cons_fi.node)
             if isinstance(x, ast.Subscript) and const_str(x.slice)}
  for k in sorted(lit):
    ok = k in cons_l or (k == 'the_symbol' and k in indexed)
    chk.ob(rid, ok, None, "literal kind '%s' handled by QL.ConvertToSql" % k,
           "the parser builds {'%s': ..} literals but ConvertToSql does not "
           'handle them' % k, fi=cons_fi)
  # proposition kinds
  prop = producer_keys(repo, 'parse.ParseProposition')
  if len(prop) < 5:
    raise AnalysisError('ParseProposition: conjunct kinds not recognised (%s)'
                        % sorted(prop))
  dnf = tables.tested_keys(repo.func('parse.DisjunctiveNormalForm.PropositionToDNF'))
  ecs_fi = repo.func('rule_translate.ExtractConjunctiveStructure')
  ecs = tables.tested_keys(ecs_fi)
  for k in sorted(prop):
    chk.ob(rid, k in dnf or k in ecs, None,
           "proposition kind '%s' handled by PropositionToDNF or "
           'ExtractConjunctiveStructure' % k,
           "the parser builds {'%s': ..} propositions that neither the DNF "
           'rewrite nor ExtractConjunctiveStructure recognises' % k, fi=ecs_fi)
  # structural kinds eliminated by DNF must really be eliminated there
  for k in ('conjunction', 'disjunction'):
    chk.ob(rid, k in dnf, None, "DNF rewrite dispatches on '%s'" % k,
           'PropositionToDNF no longer recognises %s: nested %ss reach '
           'ExtractConjunctiveStructure' % (k, k),
           fi=repo.func('parse.DisjunctiveNormalForm.PropositionToDNF'))


# ---------------------------------------------------------------------------
_FMT = re.compile(r'^([A-Za-z_]*)%d$')


_FMT2 = re.compile(r'^([A-Za-z_]*)\{(0|)(:d)?\}$')


def word_number(x):
  """(word, operand) when x formats `<word><number>` in one of the usual
  spellings: 'w%d' % v, f'w{v}', 'w{}'.format(v), 'w' + str(v)."""
  if isinstance(x, ast.BinOp) and isinstance(x.op, ast.Mod) and const_str(x.left) is not None \
      and _FMT.match(const_str(x.left)):
    right = x.right
    if isinstance(right, ast.Tuple) and len(right.elts) == 1:
      right = right.elts[0]
    return _FMT.match(const_str(x.left)).group(1), right
  if isinstance(x, ast.JoinedStr) and len(x.values) == 2 and const_str(x.values[0]) is not None \
      and isinstance(x.values[1], ast.FormattedValue) and re.match(r'^[A-Za-z_]*$', const_str(x.values[0])):
    return const_str(x.values[0]), x.values[1].value
  if isinstance(x, ast.Call) and call_tail(x) == 'format' and isinstance(x.func, ast.Attribute) and \
      const_str(x.func.value) is not None and _FMT2.match(const_str(x.func.value)) and len(x.args) == 1:
    return _FMT2.match(const_str(x.func.value)).group(1), x.args[0]
  if isinstance(x, ast.BinOp) and isinstance(x.op, ast.Add) and const_str(x.left) is not None and \
      re.match(r'^[A-Za-z_]+$', const_str(x.left)) and isinstance(x.right, ast.Call) and \
      call_tail(x.right) == 'str' and len(x.right.args) == 1:
    return const_str(x.left), x.right.args[0]
  return None


def positional_name_sites(repo):
  """Sites `'<word>%d' % v` where v is known to be an int field: v is tested
  with isinstance(v, int/str) in the same function, or v is an enumerate
  index whose formatted value is recorded as an observed field name."""
  sites = []
  for m in repo.pipeline():
    for fi in m.funcs.values():
      tested = set()
      enum_idx = set()
      for x in walk_local(fi.node):
        if (isinstance(x, ast.Call) and call_tail(x) == 'isinstance' and
            len(x.args) == 2 and dotted(x.args[1]) in ('int', 'str')):
          tested.add(norm(x.args[0]))
        if isinstance(x, ast.For) and isinstance(x.iter, ast.Call) and \
            call_tail(x.iter) == 'enumerate' and isinstance(x.target, ast.Tuple):
          if isinstance(x.target.elts[0], ast.Name):
            enum_idx.add(x.target.elts[0].id)
      for x in walk_local(fi.node):
        wn = word_number(x)
        if wn is not None:
          operand = norm(wn[1])
          if operand in tested:
            sites.append((fi, x, wn[0]))
          elif operand in enum_idx and fi.name == 'ParseRecordInternals':
            sites.append((fi, x, wn[0]))
  return sites


def column_names(chk, rid):
  repo = chk.repo
  sites = positional_name_sites(repo)
  need = {'parse.ParseRecordInternals', 'rule_translate.LogicaFieldToSqlField',
          'expr_translate.QL.Subscript', 'universe.LogicaProgram.FunctionSql',
          'expr_translate.QL.ConvertToSql', 'infer.ArgumentNames'}
  found = {fi.fq for fi, _, _ in sites}
  missing = sorted(f for f in need if f not in found and
                   not any(x.startswith(f + '.') for x in found))
  if missing:
    raise AnalysisError('positional-field naming sites no longer recognised '
                        'in: %s' % ', '.join(missing))
  for fi, node, prefix in sites:
    chk.ob(rid, prefix == 'col', None,
           "positional field formatted as '%s%%d'" % prefix,
           "this site names positional column N '%sN' while the property "
           "(and every other site) uses 'colN': injected or nested reads of "
           'the column miss' % prefix, fi=fi, node=node)
  writers = ['parse.ParseHeadCall', 'parse.BuildTreeForCombine',
             'parse.NegationTree',
             'rule_translate.InlinePredicateValuesRecursively']
  for w in writers:
    fi = repo.func(w)
    fields = []
    for d in ast.walk(fi.node):
      if isinstance(d, ast.Dict):
        kv = {const_str(k): v for k, v in zip(d.keys, d.values) if k is not None}
        if 'field' in kv and 'value' in kv and const_str(kv['field']) is not None:
          fields.append(const_str(kv['field']))
    chk.ob(rid, bool(fields) and all(f == 'logica_value' for f in fields),
           None, 'value field written by %s is logica_value' % w,
           'the functional value is stored under %s, readers look for '
           'logica_value' % sorted(set(fields)), fi=fi)


# ---------------------------------------------------------------------------
def sql_tokens(s):
  return re.findall(r'[A-Za-z_]+|\S', s.upper())


def union_all(chk, rid):
  repo = chk.repo
  fi = repo.func('universe.LogicaProgram.PredicateSql')
  joins = []
  for x in walk_local(fi.node):
    if (isinstance(x, ast.Call) and call_tail(x) == 'join' and
        isinstance(x.func, ast.Attribute) and const_str(x.func.value) is not None
        and x.args and (dotted(x.args[0]) == 'rules_sql' or
                        # the list of per-rule SELECTs under another name: the
                        # one that is filled from SingleRuleSql results
                        (isinstance(x.args[0], ast.Name) and any(
                            isinstance(c_, ast.Call) and call_tail(c_) == 'append' and
                            dotted(c_.func.value) == x.args[0].id and
                            'single_rule_sql' in norm(c_, 200) or
                            isinstance(c_, ast.Call) and call_tail(c_) == 'append' and
                            dotted(c_.func.value) == x.args[0].id and
                            'SingleRuleSql' in norm(c_, 300)
                            for c_ in walk_local(fi.node))))):
      joins.append(x)
  if not joins:
    raise AnalysisError('PredicateSql: join over rules_sql not found')
  for j in joins:
    toks = sql_tokens(const_str(j.func.value))
    chk.ob(rid, toks == ['UNION', 'ALL'], None,
           'per-rule SELECTs joined with %r' % const_str(j.func.value).strip(),
           'rules of one predicate are combined with %r: multiplicities of '
           'several rules no longer add up' % ' '.join(toks), fi=fi, node=j)
  # every non-nil rule contributes its own branch: the only condition on the
  # way to the append is the nil test (two rules with the same SQL are two
  # branches - that is what adds their multiplicities)
  pv_ = FnView(repo, 'universe.LogicaProgram.PredicateSql')
  lists_ = {dotted(j.args[0]) for j in joins}
  extra_ = None
  for n_, c_ in pv_.all_calls():
    if call_tail(c_) == 'append' and isinstance(c_.func, ast.Attribute) and \
        dotted(c_.func.value) in lists_:
      # conditions INSIDE the loop over the rules decide per branch; what
      # stands around the loop (no rules at all, one rule) decides the form
      loops_ = [l_ for l_ in walk_local(fi.node) if isinstance(l_, (ast.For, ast.While)) and
                any(y is c_ for y in ast.walk(l_))]
      inside_ = {id(y) for l_ in loops_ for y in ast.walk(l_)}
      for h_, pol_ in pv_.cfg.header_of(n_):
        st_ = pv_.cfg.stmt[h_]
        if id(st_) not in inside_ or not isinstance(st_, ast.If):
          continue
        t_ = norm(pv_.expand(st_.test, 2), 200)
        if 'nil' in t_ or 'distinct_denoted' in t_:
          continue
        extra_ = st_.test
  chk.ob(rid, extra_ is None, None,
         'every non-nil rule of a predicate becomes a branch of the UNION ALL',
         'a branch is added only under `%s`: rules (facts, disjuncts) that compile to the '
         'same SELECT are merged, their multiplicities no longer add up'
         % (norm(extra_, 60) if extra_ is not None else ''), fi=fi, node=extra_)
  consts = [c for c in ast.walk(fi.node)
            if isinstance(c, ast.Constant) and isinstance(c.value, str)
            and not _is_message(fi.node, c)]
  bad = [c for c in consts if 'DISTINCT' in sql_tokens(c.value) and
         'SELECT' in sql_tokens(c.value)]
  chk.ob(rid, not bad, None, 'PredicateSql emits no SELECT DISTINCT',
         'a DISTINCT in the union wrapper collapses duplicate rows', fi=fi)
  v = FnView(repo, K.ASSQL)
  asql = v.fi
  bad = [c for c in ast.walk(asql.node)
         if isinstance(c, ast.Constant) and isinstance(c.value, str) and
         'DISTINCT' in sql_tokens(c.value)]
  chk.ob(rid, not bad, None, 'RuleStructure.AsSql emits no DISTINCT',
         'AsSql adds DISTINCT to a rule SELECT: duplicate solutions collapse',
         fi=asql)
  # GROUP BY only under the distinct_vars test
  gb = []
  for n in v.cfg.stmt_nodes():
    for x in v.cfg.sub_nodes(n):
      if isinstance(x, ast.Constant) and isinstance(x.value, str) and \
          sql_tokens(x.value)[:2] == ['GROUP', 'BY']:
        gb.append((n, x))
  if not gb:
    raise AnalysisError('AsSql: GROUP BY emission not found')
  for n, x in gb:
    facts = v.guards(n)
    ok = any(val is True and dotted(e) == 'self.distinct_vars' for e, val in facts)
    chk.ob(rid, ok, None, 'GROUP BY emitted only when self.distinct_vars',
           'GROUP BY is emitted for rules without distinct: duplicate '
           'solutions collapse', fi=asql, node=x)


def _is_message(fn, const):
  """Constant is (part of) an argument of an exception constructor / assert
  message / color.Format call - i.e. diagnostics, not SQL."""
  for x in ast.walk(fn):
    if isinstance(x, ast.Raise) and x.exc is not None:
      if any(c is const for c in ast.walk(x.exc)):
        return True
    if isinstance(x, ast.Assert) and x.msg is not None:
      if any(c is const for c in ast.walk(x.msg)):
        return True
  return False


def every_body_normalised(chk, rid):
  repo = chk.repo
  r2r = repo.func('parse.DisjunctiveNormalForm.RuleToRules')
  # every rule body goes through PropositionToDNF - it also flattens nested
  # conjunctions (parenthesised groups), which the later stages do not accept
  r2v = FnView(repo, 'parse.DisjunctiveNormalForm.RuleToRules')
  dnf_calls = [n for n, c in r2v.all_calls() if call_tail(c) == 'PropositionToDNF']
  def no_body(e, val):
    return isinstance(e, ast.Compare) and len(e.ops) == 1 and const_str(e.left) == 'body' and (
        (isinstance(e.ops[0], ast.NotIn) and val) or (isinstance(e.ops[0], ast.In) and not val))
  body_rets = [n for n, r in r2v.returns()
               if not any(no_body(e, val) for e, val in r2v.guards(n))]
  chk.ob(rid, bool(dnf_calls) and all(n in dnf_calls or r2v.cfg.must_pass_before(n, dnf_calls)
                                      for n in body_rets),
         None, 'every rule with a body is rewritten through PropositionToDNF',
         'a path of RuleToRules returns the rule without normalising its body: '
         'nested conjunctions (parenthesised groups of conjuncts) survive and are '
         'rejected or mistranslated later', fi=r2r)

