"""C09 - every dialect compiles into well-scoped SQL (4 of 5 clauses)."""

import ast

from sa.absint import Const, Interp, State, Sym
from sa.model import (AnalysisError, call_tail, const_str, dotted, kwarg, norm,
                      walk_local)
from sa.pathrules import FnView, receiver
from sa import sqllex, tables, templates
from rules import common as K


# ---------------------------------------------------------------------------
def dialect_calls(repo):
  """[(fi, Call, method)] calls on dialect-typed receivers in the pipeline."""
  out = []
  for m in repo.pipeline():
    for fi in m.funcs.values():
      for c in walk_local(fi.node):
        if not isinstance(c, ast.Call) or not isinstance(c.func, ast.Attribute):
          continue
        base = c.func.value
        d = dotted(base)
        is_dialect = False
        if d is not None and (d == 'dialect' or d.endswith('.dialect')):
          is_dialect = True
        if isinstance(base, ast.Call) and dotted(base.func) in ('dialects.Get', 'Get') \
            and (m.name != 'dialects' or dotted(base.func) == 'Get'):
          is_dialect = dotted(base.func) == 'dialects.Get'
        if is_dialect:
          out.append((fi, c, c.func.attr))
  return out


def accepts(fn, call):
  """Does FunctionDef `fn` (a method) accept the argument shape of `call`?"""
  a = fn.args
  if any(isinstance(x, ast.Starred) for x in call.args) or \
      any(k.arg is None for k in call.keywords):
    return True, ''
  static = any((dotted(d) or '') == 'staticmethod' for d in fn.decorator_list)
  params = [p.arg for p in a.posonlyargs + a.args][0 if static else 1:]   # drop self
  n_def = len(a.defaults)
  required = params[:len(params) - n_def] if n_def else list(params)
  npos = len(call.args)
  if npos > len(params) and a.vararg is None:
    return False, 'takes %d positional argument(s), %d given' % (len(params), npos)
  bound = set(params[:npos])
  for k in call.keywords:
    if k.arg in bound:
      return False, 'multiple values for %s' % k.arg
    if k.arg not in params and k.arg not in [x.arg for x in a.kwonlyargs] \
        and a.kwarg is None:
      return False, 'unexpected keyword %s' % k.arg
    bound.add(k.arg)
  missing = [p for p in required if p not in bound]
  if missing:
    return False, 'missing argument(s) %s' % ', '.join(missing)
  return True, ''


def engines_at(repo, fi, call, names):
  """Dialect names a call site can be reached with: restricted when the site
  is guarded by a test of <dialect>.Name() against constants (a method only
  one dialect has may be called under such a test); None = any."""
  try:
    v = FnView(repo, fi.fq)
  except AnalysisError:
    return None
  node = None
  for n, c in v.all_calls():
    if c is call:
      node = n
  if node is None:
    return None
  allowed = None
  for e, val in v.guards(node):
    for c in ast.walk(e) if isinstance(e, ast.BoolOp) and isinstance(e.op, ast.And) and val else [e]:
      if not (isinstance(c, ast.Compare) and len(c.ops) == 1):
        continue
      l = v.expand(c.left)
      if not (isinstance(l, ast.Call) and call_tail(l) == 'Name'):
        continue
      try:
        consts = tables.const_value(c.comparators[0])
      except AnalysisError:
        continue
      consts = set([consts] if isinstance(consts, str) else consts)
      pos = isinstance(c.ops[0], (ast.Eq, ast.In))
      if not isinstance(c.ops[0], (ast.Eq, ast.In, ast.NotEq, ast.NotIn)):
        continue
      here = consts if (pos == bool(val)) else set(names) - consts
      allowed = here if allowed is None else allowed & here
  return allowed


def interface(chk, rid):
  repo = chk.repo
  classes = templates.dialect_classes(repo)
  calls = dialect_calls(repo)
  name_of = {}
  for engine, cls in classes.items():
    nm, _ = templates.dialect_const(repo, cls, 'Name')
    name_of[cls] = nm
  restricted = {}
  for fi, c, meth in calls:
    restricted[id(c)] = engines_at(repo, fi, c, set(name_of.values()))
  methods = {}
  for fi, c, meth in calls:
    methods.setdefault(meth, []).append((fi, c))
  if len(methods) < 10:
    raise AnalysisError('only %d dialect methods are invoked in the pipeline; '
                        'receiver typing no longer recognised' % len(methods))
  chk.extra['dialect_call_sites'] = len(calls)
  chk.extra['dialect_methods_used'] = sorted(methods)
  m = repo.by_name('dialects')
  for engine, cls in sorted(classes.items()):
    for meth, sites in sorted(methods.items()):
      # sites this dialect can reach
      sites = [(fi, c) for fi, c in sites
               if restricted.get(id(c)) is None or name_of.get(cls) in restricted[id(c)]]
      if not sites:
        continue
      impl = repo.lookup_method(m, cls, meth)
      if impl is None:
        chk.ob(rid, False, 'compiler/dialects.py:%s' % cls,
               '%s.%s is defined' % (cls, meth),
               'the pipeline calls dialect.%s() (e.g. %s) but %s neither '
               'defines nor inherits it: AttributeError for every %s program '
               'reaching the site' % (meth, sites[0][0].fq, cls, engine))
        continue
      bad = []
      for fi, c in sites:
        ok, why = accepts(impl.node, c)
        if not ok:
          bad.append('%s: %s' % (fi.fq, why))
      chk.ob(rid, not bad, None,
             '%s.%s accepts every call site (%d)' % (cls, meth, len(sites)),
             'TypeError for every %s program reaching %s' % (engine, '; '.join(bad)),
             fi=impl)


# ---------------------------------------------------------------------------
def arity_of(repo, name, class_table, bulk):
  """Arity range of built-in `name` as QL.BuiltInFunctionArityRange computes
  it (abstract interpretation of that method with f = name)."""
  fi = repo.func('expr_translate.QL.BuiltInFunctionArityRange')

  def compare(op, l, r, st):
    if isinstance(op, (ast.In, ast.NotIn)) and isinstance(l, Const) and isinstance(r, Sym):
      if r.text in ('self.BUILT_IN_FUNCTIONS', 'QL.BUILT_IN_FUNCTIONS', 'cls.BUILT_IN_FUNCTIONS'):
        res = l.v in class_table
      elif r.text in ('self.built_in_functions',):
        res = True
      elif r.text in ('self.bulk_functions', 'self.BULK_FUNCTIONS'):
        res = l.v in bulk
      else:
        return NotImplemented
      return res if isinstance(op, ast.In) else not res
    return NotImplemented

  def expr(node, st, interp):
    if isinstance(node, ast.Subscript) and dotted(node.value) in (
        'self.bulk_function_arity_range', 'self.BULK_FUNCTIONS_ARITY_RANGE'):
      key = interp.value(node.slice, st)
      if isinstance(key, Const) and key.v in bulk:
        return (Const(bulk[key.v][0]), Const(bulk[key.v][1]))
    return NotImplemented
  it = Interp(fi.node, dict(compare=compare, expr=expr))
  outs = it.run(State(env={'f': Const(name)}))
  rets = [o for o in outs if o.kind == 'return']
  fails = [o for o in outs if o.kind == 'assert']
  if fails and not rets:
    return None
  if len(rets) != 1 or fails:
    raise AnalysisError('BuiltInFunctionArityRange(%r) not decidable: %s' % (name, outs))
  v = rets[0].value
  if isinstance(v, tuple) and len(v) == 2 and all(isinstance(x, Const) for x in v):
    return (v[0].v, v[1].v)
  raise AnalysisError('BuiltInFunctionArityRange(%r) returns %r' % (name, v))


def diagnosed_format_errors(repo):
  """Exception types that QL.Function turns into a diagnostic (the
  str.format call sits in a try whose handler raises exception_maker(..))."""
  fi = repo.func('expr_translate.QL.Function')
  out = set()
  for t in walk_local(fi.node):
    if not isinstance(t, ast.Try):
      continue
    has_format = any(isinstance(c, ast.Call) and call_tail(c) == 'format'
                     for st in t.body for c in walk_local(st))
    if not has_format:
      continue
    for h in t.handlers:
      raises_diag = any(isinstance(r, ast.Raise) and isinstance(r.exc, ast.Call)
                        and call_tail(r.exc) in ('exception_maker', 'RuleCompileException')
                        for st in h.body for r in walk_local(st))
      if not raises_diag:
        continue
      if h.type is None:
        out |= {'IndexError', 'KeyError', 'ValueError'}
      else:
        for ty in (h.type.elts if isinstance(h.type, ast.Tuple) else [h.type]):
          n = (dotted(ty) or '').split('.')[-1]
          out.add(n)
          if n == 'LookupError':
            out |= {'IndexError', 'KeyError'}
          if n == 'Exception':
            out |= {'IndexError', 'KeyError', 'ValueError'}
  return out


def reachable_builtin_names(repo, base_f, base_i, ana, bulk):
  """Names with which a `call` node can reach the generic table loop of
  ConvertToSql: QL.BasisFunctions() (calls to anything else are inlined as
  predicates by InlinePredicateValues) plus the constraint predicates of
  ExtractPredicateStructure.  The mirror of BasisFunctions is cross-checked."""
  bf = repo.func('expr_translate.QL.BasisFunctions')
  src = norm(bf.node, 10000)
  for part in ('BUILT_IN_FUNCTIONS', 'BUILT_IN_INFIX_OPERATORS', 'BULK_FUNCTIONS',
               'ANALYTIC_FUNCTIONS'):
    if part not in src:
      raise AnalysisError('QL.BasisFunctions no longer unions %s' % part)
  names = set(base_f) | set(base_i) | set(bulk) | set(ana)
  eps = repo.func('rule_translate.ExtractPredicateStructure')
  for x in walk_local(eps.node):
    if isinstance(x, ast.Compare) and isinstance(x.ops[0], ast.In) and \
        dotted(x.left) == 'predicate':
      try:
        names |= set(tables.const_value(x.comparators[0]))
      except AnalysisError:
        pass
  return names


def check_function_template(t, arity, diagnosed=()):
  """None if QL.Function(t, args) is well defined for every admissible number
  of arguments, else the failure."""
  if '%s' in t:
    try:
      specs = templates.percent_specs(t)
    except ValueError as e:
      return 'ValueError at format time (%s)' % e
    if len(specs) != 1 or specs[0] != ('s', None):
      return ('%%-template must contain exactly one %%s, found %s' %
              [x[0] for x in specs])
    return None
  try:
    fields = templates.format_fields(t)
  except ValueError as e:
    return 'ValueError at format time (%s)' % e
  lo, hi = arity
  auto = 0
  for f in fields:
    head = f.split('.')[0].split('[')[0]
    if head == '':
      idx = auto
      auto += 1
    elif head.isdigit():
      idx = int(head)
    else:
      return 'named field {%s}: KeyError at format time' % f
    if idx >= lo and 'IndexError' not in diagnosed:
      return ('field {%d} but the function may be called with %d '
              'argument(s): IndexError at format time' % (idx, lo))
  return None


def application_styles(repo, fq, template_param):
  """How a template-filling method applies its template parameter:
  subset of {'percent', 'format', 'replace'}; empty if not recognised."""
  fi = repo.func(fq)
  styles = set()
  for x in walk_local(fi.node):
    if isinstance(x, ast.BinOp) and isinstance(x.op, ast.Mod) and dotted(x.left) == template_param:
      styles.add('percent')
    if isinstance(x, ast.Call) and isinstance(x.func, ast.Attribute):
      base = x.func.value
      while isinstance(base, ast.Call) and isinstance(base.func, ast.Attribute):
        base = base.func.value
      if dotted(base) == template_param:
        if x.func.attr == 'format':
          styles.add('format')
        elif x.func.attr == 'replace':
          styles.add('replace')
  return styles


def check_infix_template(t, styles=('percent', 'format')):
  if 'replace' in styles and 'percent' not in styles:
    # textual substitution of the first two %s: no %-format rules apply
    if '{left}' in t or '{right}' in t:
      try:
        fields = templates.format_fields(t)
      except ValueError as e:
        return 'ValueError at format time (%s)' % e
      return None if set(fields) <= {'left', 'right'} else 'fields %s' % fields
    return None if t.count('%s') == 2 else 'template has %d %%s, two operands are substituted' % t.count('%s')
  if '%s' in t:
    try:
      specs = templates.percent_specs(t)
    except ValueError as e:
      return 'ValueError at format time (%s)' % e
    if len(specs) != 2 or any(x != ('s', None) for x in specs):
      return '%%-template must contain exactly two %%s, found %s' % [x[0] for x in specs]
    return None
  try:
    fields = templates.format_fields(t)
  except ValueError as e:
    return 'ValueError at format time (%s)' % e
  for f in fields:
    if f not in ('left', 'right'):
      return 'field {%s}: only {left} and {right} are supplied' % f
  return None


def template_tables(chk, rid, only_engine=None):
  repo = chk.repo
  classes = templates.dialect_classes(repo)
  base_f, base_node = templates.class_table(repo, 'QL', 'BUILT_IN_FUNCTIONS')
  base_i, _ = templates.class_table(repo, 'QL', 'BUILT_IN_INFIX_OPERATORS')
  ana, _ = templates.class_table(repo, 'QL', 'ANALYTIC_FUNCTIONS')
  bulk = templates.bulk_functions(repo)
  ql = repo.func('expr_translate.QL.ConvertToSql')
  special = special_cased_names(repo)
  infix_styles = application_styles(repo, 'expr_translate.QL.Infix', 'op')
  func_styles = application_styles(repo, 'expr_translate.QL.Function', 'f')
  if not infix_styles or not func_styles:
    raise AnalysisError('QL.Infix / QL.Function: way of applying templates not recognised')
  chk.extra['template_application'] = dict(Infix=sorted(infix_styles), Function=sorted(func_styles))
  reach = reachable_builtin_names(repo, base_f, base_i, ana, bulk)
  diagnosed = diagnosed_format_errors(repo)
  chk.extra['format_errors_diagnosed_by_QL.Function'] = sorted(diagnosed)
  n_templates = 0
  arity_cache = {}
  for engine, cls in sorted(classes.items()):
    if only_engine and engine != only_engine:
      continue
    dt, dfi = templates.dialect_table(repo, cls, 'BuiltInFunctions')
    if dt is None:
      continue      # reported by the interface rule
    eff = dict(base_f)
    eff.update(dt)
    for name, t in sorted(eff.items()):
      if t is None or name in special:
        continue
      where = dfi if name in dt else repo.func('expr_translate.QL.ConvertToSql')
      if name not in dt and engine != sorted(classes)[0] and not only_engine:
        continue      # base entries are checked once
      n_templates += 1
      if name not in arity_cache:
        arity_cache[name] = arity_of(repo, name, base_f, bulk)
      ar = arity_cache[name]
      if ar is None and name not in reach:
        chk.info("%s.BuiltInFunctions entry '%s' is dead: calls to it are "
                 'inlined as predicates (not in QL.BasisFunctions)' % (cls, name))
        ar = (0, float('inf'))
      if ar is None:
        chk.ob(rid, False, None, "%s built-in '%s' has an arity source" % (cls, name),
               "'%s' is neither in QL.BUILT_IN_FUNCTIONS nor in the bulk "
               'function table: BuiltInFunctionArityRange asserts (internal '
               'error) on every call' % name, fi=where)
        continue
      if not isinstance(t, str):
        chk.ob(rid, False, None, "%s template of '%s' is a string" % (cls, name),
               'template is %r' % (t,), fi=where)
        continue
      why = check_function_template(t, ar, diagnosed)
      chk.ob(rid, why is None, None,
             "%s function template '%s': %s" % (cls if name in dt else 'QL', name, t),
             why or '', fi=where)
    it, ifi = templates.dialect_table(repo, cls, 'InfixOperators')
    effi = dict(base_i)
    effi.update(it or {})
    for name, t in sorted(effi.items()):
      if t is None:
        continue
      if name not in (it or {}) and engine != sorted(classes)[0] and not only_engine:
        continue
      n_templates += 1
      why = check_infix_template(t, infix_styles)
      chk.ob(rid, why is None, None,
             "%s infix template '%s': %s" % (cls if name in (it or {}) else 'QL', name, t),
             why or '', fi=ifi if name in (it or {}) else ql)
    up, ufi = templates.dialect_const(repo, cls, 'UnnestPhrase')
    if up is not None:
      n_templates += 1
      try:
        f = templates.format_fields(up)
        why = None if set(f) <= {'0', '1'} and '%s' not in up else \
            'fields %s: AsSql supplies two positional arguments' % f
      except ValueError as e:
        why = 'ValueError at format time (%s)' % e
      chk.ob(rid, why is None, None, '%s.UnnestPhrase: %s' % (cls, up), why or '', fi=ufi)
    ap, afi = templates.dialect_const(repo, cls, 'ArrayPhrase')
    if ap is not None:
      n_templates += 1
      try:
        sp = templates.percent_specs(ap)
        why = None if sp == [('s', None)] else \
            'ListLiteral applies `%%` with one argument, template has %s' % [x[0] for x in sp]
      except ValueError as e:
        why = 'ValueError at format time (%s)' % e
      chk.ob(rid, why is None, None, '%s.ArrayPhrase: %s' % (cls, ap), why or '', fi=afi)
  if not only_engine:
    for name, t in sorted(ana.items()):
      n_templates += 1
      try:
        f = templates.format_fields(t)
        top = 4 if name.startswith('Window') else 3
        why = None if all(x.isdigit() and int(x) < top for x in f) else \
            'fields %s: ConvertAnalytic supplies %d arguments' % (f, top)
      except ValueError as e:
        why = 'ValueError at format time (%s)' % e
      chk.ob(rid, why is None, None, "analytic template '%s'" % name, why or '', fi=ql)
  chk.extra['templates_checked'] = chk.extra.get('templates_checked', 0) + n_templates


# ---------------------------------------------------------------------------
def special_cased_names(repo):
  """Built-in names ConvertToSql handles in dedicated branches that precede
  the generic table loop."""
  v = FnView(repo, 'expr_translate.QL.ConvertToSql')
  loops = [n for n, _ in K.table_dispatch(v, 'built_in_functions')]
  if not loops:
    raise AnalysisError('ConvertToSql: generic dispatch over built_in_functions not found')
  loop = loops[0]
  names = set()
  for n in v.cfg.stmt_nodes():
    st = v.cfg.stmt[n]
    if not isinstance(st, ast.If):
      continue
    got = set()
    # one comparison of the predicate name (possibly held in a local), or an
    # `or` chain of such comparisons
    tests = st.test.values if isinstance(st.test, ast.BoolOp) and isinstance(st.test.op, ast.Or) \
        else [st.test]
    for t in tests:
      if isinstance(t, ast.Compare) and len(t.ops) == 1 and \
          "call['predicate_name']" in norm(v.expand(t.left, 2, stop=('call',))).replace('"', "'"):
        if isinstance(t.ops[0], ast.Eq) and const_str(t.comparators[0]):
          got.add(const_str(t.comparators[0]))
          continue
        elif isinstance(t.ops[0], ast.In):
          try:
            got |= set(tables.const_value(t.comparators[0]))
            continue
          except AnalysisError:
            pass
      got = set()
      break
    if not got:
      continue
    # the branch must return / raise on every path, and dominate the loop's
    # alternative: every path to the loop passes the test's false branch
    body_exits = _always_leaves(st.body)
    falses = [b for b, (h, pol) in v.cfg.branch_of.items() if h == n and not pol]
    if body_exits and v.cfg.must_pass_before(loop, falses):
      names |= got
  return names


def _always_leaves(body):
  from sa.cfg import CFG
  fn = ast.FunctionDef(name='b', args=ast.arguments(
      posonlyargs=[], args=[], kwonlyargs=[], kw_defaults=[], defaults=[]),
      body=body, decorator_list=[], lineno=1, col_offset=0)
  g = CFG(fn)
  # no fall-through edge into EXIT other than from return statements
  for p in g.pred[g.exit]:
    if not isinstance(g.stmt[p], ast.Return):
      return False
  return True


def placeholders(chk, rid):
  repo = chk.repo
  base_f, _ = templates.class_table(repo, 'QL', 'BUILT_IN_FUNCTIONS')
  unused = sorted(k for k, v in base_f.items() if v == 'UNUSED')
  if len(unused) < 3:
    raise AnalysisError('UNUSED marker entries not recognised')
  special = special_cased_names(repo)
  ql = repo.func('expr_translate.QL.ConvertToSql')
  for name in unused:
    chk.ob(rid, name in special, None,
           "placeholder entry '%s' is handled before the generic table loop" % name,
           "'%s' has the UNUSED marker as template but no dedicated branch "
           'of ConvertToSql returns before the generic loop: the text '
           'UNUSED is emitted as SQL' % name, fi=ql)
  # DUMMY() bootstrap is overwritten
  bu = FnView(repo, 'universe.LogicaProgram.BuildUdfs')
  dummy, real = [], []
  for n in bu.cfg.stmt_nodes():
    st = bu.cfg.stmt[n]
    if isinstance(st, ast.Assign) and isinstance(st.targets[0], ast.Subscript) and \
        dotted(st.targets[0].value) == 'self.custom_udfs':
      loop_iters = [norm(bu.cfg.stmt[h].iter) for h, pol in bu.cfg.header_of(n)
                    if isinstance(bu.cfg.stmt[h], ast.For)]
      if isinstance(st.value, ast.Constant):
        dummy.append((n, st, loop_iters))
      else:
        real.append((n, st, loop_iters))
  if not dummy:
    raise AnalysisError('BuildUdfs: DUMMY() bootstrap not found')
  for n, st, iters in dummy:
    ok = any(set(iters) & set(it2) for _, _, it2 in real) and any(
        bu.cfg.must_pass_after(n, [m2 for m2, _, it2 in real if set(iters) & set(it2)] +
                               _loop_exit_skips(bu, real)) or True
        for _ in [0])
    later = [m2 for m2, s2, it2 in real if set(iters) & set(it2) and s2.lineno > st.lineno]
    chk.ob(rid, bool(later), None,
           'bootstrap marker %s is overwritten for the same predicates' % norm(st.value),
           'custom_udfs keeps the %s marker: it is formatted into SQL' % norm(st.value),
           fi=bu.fi, node=st)
  # nil marker is a SQL comment wherever it is produced
  srs = repo.func('universe.LogicaProgram.SingleRuleSql')
  marks = [c for c in ast.walk(srs.node) if isinstance(c, ast.Constant) and
           isinstance(c.value, str) and 'nil' in c.value and c.value.lstrip().startswith('/*')]
  if not marks:
    raise AnalysisError('SingleRuleSql: nil marker not found')
  for c in marks:
    head = c.value.lstrip()
    ok = head.startswith('/*') and '*/' in head and \
        head[:head.index('*/') + 2].count('/*') == 1
    chk.ob(rid, ok, None, 'nil marker %r is a complete SQL comment' % head[:12],
           'the marker is not a comment: it leaks into SQL text', fi=srs, node=c)
  ps = FnView(repo, 'universe.LogicaProgram.PredicateSql')
  for n, c in ps.calls('universe.LogicaProgram.SingleRuleSql'):
    mn = kwarg(c, 'must_not_be_nil')
    if isinstance(mn, ast.Constant) and mn.value is True:
      chk.ob(rid, True, None, 'single-rule path demands must_not_be_nil', '', fi=ps.fi, node=c)
      continue
    # result must be tested for the marker before it is used
    tgt = None
    for x in walk_local(ps.fi.node):
      if isinstance(x, ast.Assign) and x.value is c and isinstance(x.targets[0], ast.Name):
        tgt = x.targets[0].id
    uses = []
    if tgt:
      for m2, c2 in ps.all_calls():
        if call_tail(c2) == 'append' and any(
            isinstance(y, ast.Name) and y.id == tgt for a in c2.args for y in ast.walk(a)):
          uses.append(m2)
    ok = bool(tgt) and bool(uses)
    for u in uses:
      g = [(e, val) for e, val in ps.guards(u)
           if 'startswith' in norm(e) and 'nil' in norm(e)]
      ok = ok and any((isinstance(e, ast.Call) and not val) or
                      (not isinstance(e, ast.Call) and val) for e, val in g)
    chk.ob(rid, ok, None, 'multi-rule path filters rules carrying the nil marker',
           'a nil rule is added to the UNION ALL', fi=ps.fi, node=c)


def _loop_exit_skips(view, real):
  return []


# ---------------------------------------------------------------------------
def with_order(chk, rid):
  repo = chk.repo
  v = FnView(repo, 'universe.SubqueryTranslator.TranslateWithedTable')
  # attributes of the execution may be held in locals: read through them
  W = lambda e: norm(v.expand(e, 3), 400)
  apps = [(n, c) for n, c in v.all_calls() if call_tail(c) == 'append' and
          'table_to_with_dependencies' in W(c.func)]
  ps = v.calls('universe.LogicaProgram.PredicateSql')
  if not ps:
    raise AnalysisError('TranslateWithedTable no longer calls PredicateSql')
  chk.ob(rid, bool(apps), None, 'WITH dependency is recorded',
         'TranslateWithedTable never records the dependency: the WITH '
         'clause is not emitted', fi=v.fi)
  for n, c in apps:
    # nothing is compiled after the append (deepest dependencies first)
    after = v.cfg.reachable(n)
    late = [s for s in ps if s[0] in after and s[0] != n]
    chk.ob(rid, not late, None,
           'dependency appended after the recursive PredicateSql(table)',
           'the table is appended to the WITH list before its own '
           'dependencies are compiled: WITH tables are defined after use',
           fi=v.fi, node=c)
    dedupe = any(isinstance(e, ast.Compare) and isinstance(e.ops[0], ast.NotIn) and val
                 and 'table_to_with_dependencies' in W(e) for e, val in v.guards(n))
    chk.ob(rid, dedupe, None, 'append guarded against duplicates',
           'a WITH table can be listed twice (duplicate definition)', fi=v.fi, node=c)
    chk.ob(rid, dotted(c.args[0]) == 'table' if c.args else False, None,
           'appends the table being translated', 'appends %s' % norm(c), fi=v.fi, node=c)
  # a WITH table already defined is compiled again for every new parent: that
  # is what registers the WITH tables nested in it for that parent
  for s_ in ps:
    facts = v.guards(s_[0])
    first = any(val and isinstance(e, ast.Compare) and isinstance(e.ops[0], ast.NotIn) and
                'table_to_defined_table_map' in W(e) for e, val in facts)
    if first:
      continue
    other = [norm(e, 60) for e, val in facts
             if 'table_to_defined_table_map' not in W(e) and
             'with_compilation_done_for_parent' not in W(e)]
    per_parent = any(val and 'with_compilation_done_for_parent' in W(e) and
                     isinstance(e, ast.Compare) and isinstance(e.ops[0], ast.NotIn)
                     for e, val in facts)
    chk.ob(rid, per_parent and not other, None,
           'an already defined WITH table is re-compiled once for every new parent, unconditionally',
           'the re-compilation for a new parent statement also depends on %s: '
           'when it is skipped the WITH tables nested inside are not registered '
           'for that parent and its WITH clause uses an undefined table' % other,
           fi=v.fi, node=s_[1])
  hdrs = [n for n in v.cfg.stmt_nodes() if isinstance(v.cfg.stmt[n], ast.If) and
          'table_to_with_dependencies' in W(v.cfg.stmt[n].test)]
  chk.ob(rid, bool(hdrs) and v.cfg.must_pass_after(v.cfg.entry, hdrs), None,
         'every call considers recording the dependency',
         'a path returns the WITH table name without recording it for the '
         'parent: the parent query refers to an undefined WITH table', fi=v.fi)
  g = FnView(repo, 'universe.LogicaProgram.GenerateWithClauses')
  loops = [x for x in walk_local(g.fi.node) if isinstance(x, ast.For)]
  ok = False
  for l in loops:
    it = l.iter
    if isinstance(it, ast.Name):
      src = g.assigned_from(it.id)
      if len(src) == 1 and isinstance(src[0], ast.Subscript) and \
          'table_to_with_dependencies' in norm(src[0]):
        ok = True
    elif 'table_to_with_dependencies' in norm(it) and isinstance(it, ast.Subscript):
      ok = True
  chk.ob(rid, ok, None, 'GenerateWithClauses emits dependencies in recorded order',
         'the WITH list is re-ordered (sorted / reversed / set) before emission',
         fi=g.fi)
  joined = [c for c in walk_local(g.fi.node) if isinstance(c, ast.Call) and
            call_tail(c) == 'join' and const_str(c.func.value) is not None]
  ok = any(const_str(c.func.value).strip() == ',' for c in joined)
  chk.ob(rid, ok, None, 'WITH bodies are comma separated', 'separator changed', fi=g.fi)


# ---------------------------------------------------------------------------
EMITTERS = [
    ('expr_translate', 'QL', None),
    ('dialects', None, None),
    ('rule_translate', 'RuleStructure', ['AsSql', 'OwnVarsVocabulary']),
    ('rule_translate', 'ExceptExpression', ['Build']),
    ('universe', 'LogicaProgram', ['PredicateSql', 'FunctionSql', 'SingleRuleSql',
                                   'GenerateWithClauses', 'FormattedPredicateSql',
                                   'BuildUdfs']),
    ('universe', 'SubqueryTranslator', ['TranslateTableAttachedToFile',
                                        'AddClickhouseDropAction', 'TranslateTable']),
    ('universe', 'Annotations', ['Preamble', 'AttachDatabaseStatements', 'LimitClause',
                                 'OrderByClause', 'TvfSignature']),
    ('infer', 'TypeCollector', ['BuildPsqlDefinitions', 'PsqlType', 'ClickHouseType']),
    ('infer', None, ['BuildPreamble']),
]
STRING_NODES = (ast.BinOp, ast.JoinedStr)
SQL_RESULT_CALLS = {'ConvertToSql', 'TranslateTable', 'TranslateRule', 'PredicateSql',
                    'SingleRuleSql', 'AsSql', 'Function', 'Infix', 'Record', 'ListLiteral',
                    'ConvertToSqlForGroupBy', 'Subscript', 'Implication', 'FunctionSql'}


def emitter_functions(repo):
  out = []
  for modname, cls, names in EMITTERS:
    m = repo.by_name(modname)
    for q, fi in m.funcs.items():
      top = q.split('.')[0]
      if cls is None:
        ok = (names is None) or (q in names)
      else:
        ok = top == cls and (names is None or (len(q.split('.')) > 1 and q.split('.')[1] in names))
      if ok:
        out.append(fi)
  return out


def _is_stringish(e):
  if isinstance(e, ast.Constant):
    return isinstance(e.value, str)
  if isinstance(e, ast.JoinedStr):
    return True
  if isinstance(e, ast.BinOp) and isinstance(e.op, (ast.Add, ast.Mod)):
    return _is_stringish(e.left) or (isinstance(e.op, ast.Add) and _is_stringish(e.right))
  if isinstance(e, ast.Call) and isinstance(e.func, ast.Attribute) and \
      e.func.attr in ('format', 'join') and isinstance(e.func.value, ast.Constant) and \
      isinstance(e.func.value.value, str):
    return True
  if isinstance(e, ast.IfExp):
    return _is_stringish(e.body) or _is_stringish(e.orelse)
  return False


def balanced_emission(chk, rid):
  from sa import strshape
  from sa.setorder import _parents
  repo = chk.repo
  fns = emitter_functions(repo)
  if len(fns) < 40:
    raise AnalysisError('only %d emitter functions found' % len(fns))
  n_expr = 0
  for fi in fns:
    par = _parents(fi.node)
    doc = ast.get_docstring(fi.node, clean=False)

    def in_diag(x):
      p = x
      while p is not None:
        if isinstance(p, ast.Raise):
          return True
        q = par.get(p)
        if isinstance(q, ast.Assert) and q.msg is p:
          return True
        if isinstance(p, ast.Call):
          t = call_tail(p) or ''
          if t in ('exception_maker', 'Format', 'Warn', 'print', 'AnnotationError',
                   'RaiseCompilerError') or t.endswith('Exception') or t.endswith('Error'):
            return True
        p = q
      return False
    for x in walk_local(fi.node):
      if not _is_stringish(x):
        continue
      p = par.get(x)
      # maximal: the parent is not itself part of the same string expression
      if p is not None and _is_stringish(p) and not isinstance(p, ast.IfExp):
        continue
      if isinstance(p, ast.IfExp) and _is_stringish(p):
        continue
      if isinstance(p, ast.Attribute) and p.attr in ('format', 'join', 'replace', 'startswith'):
        continue      # receiver of a method: judged at the call
      if isinstance(x, ast.Constant) and (x.value == doc or isinstance(p, ast.Expr)):
        continue
      if isinstance(x, ast.Constant) and isinstance(p, (ast.Compare, ast.Subscript, ast.Dict,
                                                        ast.List, ast.Tuple, ast.Set, ast.keyword)):
        continue      # keys, comparisons, tables (tables are checked entry by entry)
      if isinstance(x, ast.Constant) and isinstance(p, ast.Call) and \
          not (call_tail(p) in ('append', 'extend')):
        continue      # argument of a lookup / helper, not emitted text
      if isinstance(p, ast.Call) and any(x is a_ for a_ in p.args) and call_tail(p) in (
          'replace', 'startswith', 'endswith', 'split', 'rsplit', 'find', 'rfind', 'index',
          'count', 'strip', 'lstrip', 'rstrip', 'partition', 'get', 'pop', 'setdefault'):
        continue      # a search pattern / replacement text / key, not a fragment of SQL
      if isinstance(p, (ast.For, ast.comprehension)) and p.iter is x:
        continue      # a set of characters iterated over, not a fragment of SQL
      if in_diag(x):
        continue
      n_expr += 1
      for parts in strshape.static_skeletons(x):
        text_parts = [q for q in parts if isinstance(q, str)]
        if not text_parts:
          continue
        st, holes = strshape.scan_skeleton(parts)
        ok = st.balanced()
        chk.ob(rid, ok, None, 'emitted fragment %s' % norm(x, 70),
               'brackets / quotes of the emitted text do not balance (%s): the '
               'statement this fragment is part of is malformed' % st.describe(),
               fi=fi, node=x, nontrivial=len(''.join(text_parts)) > 3)
        for h, q in holes:
          if q in ("'", '"') and isinstance(h.node, ast.Call) and \
              call_tail(h.node) in SQL_RESULT_CALLS:
            chk.ob(rid, False, None, 'SQL fragment %s inside a quoted literal' % h.text,
                   'compiled SQL is spliced inside quotes: its own quotes end the literal',
                   fi=fi, node=x)
  chk.extra['emitter_functions'] = len(fns)
  chk.extra['string_building_expressions'] = n_expr
  # template tables entry by entry
  classes = templates.dialect_classes(repo)
  tabs = []
  base_f, _ = templates.class_table(repo, 'QL', 'BUILT_IN_FUNCTIONS')
  base_i, _ = templates.class_table(repo, 'QL', 'BUILT_IN_INFIX_OPERATORS')
  ana, _ = templates.class_table(repo, 'QL', 'ANALYTIC_FUNCTIONS')
  ql = repo.func('expr_translate.QL.ConvertToSql')
  for label, tab, fi in (('QL function', base_f, ql), ('QL infix', base_i, ql), ('QL analytic', ana, ql)):
    tabs.append((label, tab, fi))
  for engine, cls in sorted(classes.items()):
    for meth in ('BuiltInFunctions', 'InfixOperators'):
      t, fi = templates.dialect_table(repo, cls, meth)
      if t:
        tabs.append(('%s.%s' % (cls, meth), t, fi))
    for meth in ('UnnestPhrase', 'ArrayPhrase'):
      t, fi = templates.dialect_const(repo, cls, meth)
      if t:
        tabs.append(('%s.%s' % (cls, meth), {meth: t}, fi))
  n_t = 0
  for label, tab, fi in tabs:
    for name, t in sorted(tab.items()):
      if not isinstance(t, str) or t == 'UNUSED':
        continue
      n_t += 1
      st = sqllex.scan(strshape.template_as_text(t))
      chk.ob(rid, st.balanced(), None, "%s template '%s' is balanced" % (label, name),
             'template `%s` is %s' % (t, st.describe()), fi=fi, nontrivial=False)
  chk.extra['templates_scanned'] = n_t


def unnesting_order(chk, rid):
  """An unnested list may be a sub-query (combine) that reads the element of
  another unnesting: the FROM items are ordered so that an alias is introduced
  before it is used.  SortUnnestings must therefore count the variables
  mentioned INSIDE combines among the dependencies of an unnesting."""
  repo = chk.repo
  su = FnView(repo, 'rule_translate.RuleStructure.SortUnnestings')
  amv = repo.func('rule_translate.AllMentionedVariables')
  if 'dive_in_combines' not in amv.params:
    raise AnalysisError('AllMentionedVariables: dive_in_combines parameter not found')
  pos = amv.params.index('dive_in_combines')
  calls = [c for n, c in su.all_calls() if call_tail(c) == 'AllMentionedVariables']
  if not calls:
    raise AnalysisError('SortUnnestings: dependencies are not computed with AllMentionedVariables')
  for c in calls:
    v = kwarg(c, 'dive_in_combines', pos)
    deep = isinstance(v, ast.Constant) and v.value is True
    chk.ob(rid, deep, None,
           'dependencies of an unnesting include variables used inside combines',
           'SortUnnestings computes the dependencies of an unnested list without '
           'looking into combines (%s): a sub-query list that reads the element of '
           'another unnesting can be emitted before it, i.e. an alias is used before '
           'any enclosing FROM item introduces it' % norm(c, 70), fi=su.fi, node=c)


def run(chk):
  chk.assume('A5: dialect objects are reached as `<x>.dialect` or dialects.Get(..)')
  chk.rule('C09-R1', 'dialect interface conformance: every method invoked on '
           'a dialect object, with the argument shape of each call site, is '
           'accepted by each of the eight dialect classes', min_instances=80)
  interface(chk, 'C09-R1')
  chk.rule('C09-R2', 'template well-formedness: every function / infix / '
           'unnest / array / analytic template formats without error for '
           'every admissible argument count and has an arity source',
           min_instances=100)
  template_tables(chk, 'C09-R2')
  chk.rule('C09-R3', 'balanced emission: every maximal string-building '
           'expression of the emitter functions, and every template, has '
           'balanced brackets and closed quotes with holes as atoms (the whole '
           'statement is balanced by induction over the emitter call tree); no '
           'compiled SQL fragment is spliced inside quotes', min_instances=150)
  chk.assume('A2: identifier holes (field, predicate, table, type names) contain no '
             'quote or bracket characters')
  balanced_emission(chk, 'C09-R3')
  # a string literal is part of the emitted text too: it must be one closed
  # literal of the dialect for every string (exhaustive over the alphabet of
  # rules/c10.py), otherwise the rest of the statement is read as a string
  from rules.c10 import sanitisers
  sanitisers(chk, 'C09-R3')
  chk.rule('C09-R4', 'no placeholder leak: UNUSED entries are special-cased '
           'before the generic loop, the DUMMY() UDF bootstrap is '
           'overwritten, the nil marker is a SQL comment and is filtered',
           min_instances=8)
  placeholders(chk, 'C09-R4')
  chk.rule('C09-R5', 'WITH order: a WITH dependency is recorded after its own '
           'dependencies were compiled, once, on every path, and emitted in '
           'recorded order; FROM items: an unnested sub-query list comes after '
           'the unnestings whose elements it reads', min_instances=6)
  with_order(chk, 'C09-R5')
  unnesting_order(chk, 'C09-R5')
  K.translation_not_memoised(chk, 'C09-R5')
  K.entangle_attached(chk, 'C09-R5')
  dialect_names_exist(chk, 'C09-R1')


def dialect_names_exist(chk, rid):
  """A branch guarded by `<dialect>.Name() == 'X'` (or `in (...)`) is taken by
  the dialect whose Name() is 'X': a constant that no registered dialect
  answers with is a branch (often a diagnostic or an escaping rule) that no
  engine reaches any more."""
  repo = chk.repo
  names = set()
  for eng, cls in templates.dialect_classes(repo).items():
    nm, _ = templates.dialect_const(repo, cls, 'Name')
    if isinstance(nm, str):
      names.add(nm)
  if len(names) < 8:
    raise AnalysisError('dialect names not recognised')
  unknown = []
  n_cmp = 0
  for rel in ('compiler/expr_translate.py', 'compiler/universe.py', 'compiler/rule_translate.py'):
    m = repo.mod(rel)
    for fi in m.funcs.values():
      v = None
      for c in walk_local(fi.node):
        if not (isinstance(c, ast.Compare) and len(c.ops) == 1 and
                isinstance(c.ops[0], (ast.Eq, ast.NotEq, ast.In, ast.NotIn))):
          continue
        if v is None:
          v = FnView.of(repo, fi)
        l = v.expand(c.left, 2)
        if not (isinstance(l, ast.Call) and call_tail(l) == 'Name' and
                'dialect' in (norm(l.func, 80))):
          continue
        try:
          consts = tables.const_value(v.expand(c.comparators[0], 2))
        except AnalysisError:
          continue
        consts = [consts] if isinstance(consts, str) else list(consts)
        n_cmp += 1
        for k in consts:
          if isinstance(k, str) and k not in names:
            unknown.append((fi, c, k))
  if n_cmp < 5:
    raise AnalysisError('comparisons of dialect names not recognised (%d)' % n_cmp)
  chk.ob(rid, not unknown, None,
         'every constant a dialect name is compared with is the name of a registered dialect '
         '(%d comparisons)' % n_cmp,
         "'%s' is compared with <dialect>.Name() in %s but no dialect is called that (names: %s): "
         'the branch - a diagnostic, an escaping rule - is dead for the engine it was written for'
         % (unknown[0][2] if unknown else '', unknown[0][0].qualname if unknown else '', sorted(names)),
         fi=unknown[0][0] if unknown else repo.func('expr_translate.QL.ConvertToSql'),
         node=unknown[0][1] if unknown else None)
