"""C15 - layout, comments and string contents (scanner discipline)."""

import ast

from sa.model import (AnalysisError, call_tail, const_str, dotted, norm,
                      walk_local)
from sa.pathrules import FnView
from rules import common as K

SCANNER = {'Traverse', 'RemoveComments', 'IsWhole', 'SplitRaw', 'StripSpaces',
           'ShowTraverse', 'Traverse.State'}
SEARCH_METHODS = {'find', 'rfind', 'index', 'rindex', 'split', 'rsplit',
                  'partition', 'rpartition', 'replace', 'count', 'splitlines'}
TEXT_METHODS = {'strip', 'lstrip', 'rstrip', 'lower', 'upper', 'capitalize'}

# infix searches on program text outside the scanner, confirmed by reading
ALLOWED = {
    # (function, searched text): every search of that text in that function
    ('ParseString', 's[1:-1]'):
        'the token is already delimited by the scanner; the test only rejects an inner quote',
    ('ParseString', 's[3:-3]'):
        'the token is already delimited by the scanner; the test only rejects an inner triple quote',
    ('SplitImport', 'import_path'):
        'an import path contains no strings or comments',
    ('ParseImport', 'file_import_str'):
        'an import path contains no strings or comments',
    ('ParseFile', 'this_file_name'):
        'a file name, not program text',
    ('EnactIncantations', 'main_code'):
        'whole-file search for the incantation, by design',
}


def _targets(repo, m, fi, call):
  """parse.* functions a call may reach: resolved callees, or - for a call
  through a loop variable ranging over a dispatch table - every function of the
  table."""
  out = [t for t in repo.resolve(fi, call) if t.startswith('parse.')]
  if not out and isinstance(call.func, ast.Name):
    from sa import tables
    out = ['parse.' + n for n in tables.loop_functions(fi, call.func.id) if n in m.funcs]
  return out


class TextTyping(object):
  """Which names of parse.py hold program text (provenance from ParseFile)."""

  def __init__(self, m, repo):
    self.m = m
    self.repo = repo
    self.param = {}      # (qualname, param) -> kind
    self.ret = {}        # qualname -> kind
    self.local = {}      # (qualname, name) -> kind
    self.param[('ParseFile', 's')] = 'T'
    self.param[('EnactIncantations', 'main_code')] = 'T'
    for _ in range(12):
      if not self._round():
        break

  def kind(self, fi, e):
    if e is None:
      return None
    if isinstance(e, ast.Name):
      q = fi
      while q is not None:
        k = self.local.get((q.qualname, e.id)) or self.param.get((q.qualname, e.id))
        if k:
          return k
        q = q.parent
      return None
    if isinstance(e, ast.Subscript):
      b = self.kind(fi, e.value)
      if b == 'T':
        return 'T'
      if b in ('LT', 'TT') and not isinstance(e.slice, ast.Slice):
        return 'T'
      if b == 'LT':
        return 'LT'
      return None
    if isinstance(e, ast.Call):
      t = call_tail(e)
      if t == 'HeritageAwareString':
        return 'T'
      if isinstance(e.func, ast.Attribute) and t in TEXT_METHODS and \
          self.kind(fi, e.func.value) == 'T':
        return 'T'
      if isinstance(e.func, ast.Attribute) and t in ('split', 'rsplit') and \
          self.kind(fi, e.func.value) == 'T':
        return 'LT'
      if isinstance(e.func, ast.Attribute) and t == 'join':
        return 'T' if e.args and self.kind(fi, e.args[0]) in ('LT', 'T') else None
      for tg in _targets(self.repo, self.m, fi, e):
        k = self.ret.get(tg[6:])
        if k:
          return k
      return None
    if isinstance(e, ast.BinOp) and isinstance(e.op, ast.Add):
      if self.kind(fi, e.left) == 'T' or self.kind(fi, e.right) == 'T':
        return 'T'
      return None
    if isinstance(e, ast.Tuple):
      if any(self.kind(fi, x) == 'T' for x in e.elts):
        return 'TT'
      if any(isinstance(x, ast.Tuple) and self.kind(fi, x) == 'TT' for x in e.elts):
        return 'TT'
      return None
    if isinstance(e, ast.ListComp):
      # element kind with the comprehension variable bound
      g = e.generators[0]
      if self.kind(fi, g.iter) == 'LT':
        return 'LT'
      # [s[a:b] for (a, b) in cuts]: a list of pieces of text
      if self.kind(fi, e.elt) == 'T':
        return 'LT'
      return None
    if isinstance(e, ast.IfExp):
      return self.kind(fi, e.body) or self.kind(fi, e.orelse)
    if isinstance(e, ast.BoolOp):
      for v in e.values:
        k = self.kind(fi, v)
        if k:
          return k
    return None

  def _set(self, table, key, k):
    if k and table.get(key) != k and not (table.get(key) == 'T'):
      table[key] = k
      return True
    return False

  def _bind(self, fi, target, k):
    ch = False
    if isinstance(target, ast.Name):
      ch |= self._set(self.local, (fi.qualname, target.id), k)
    elif isinstance(target, (ast.Tuple, ast.List)) and k in ('TT', 'LT'):
      for t in target.elts:
        if isinstance(t, ast.Name):
          ch |= self._set(self.local, (fi.qualname, t.id), 'T')
        elif isinstance(t, (ast.Tuple, ast.List)):
          for t2 in t.elts:
            if isinstance(t2, ast.Name):
              ch |= self._set(self.local, (fi.qualname, t2.id), 'T')
    return ch

  def _round(self):
    ch = False
    for fi in self.m.funcs.values():
      for x in walk_local(fi.node):
        if isinstance(x, ast.Assign):
          k = self.kind(fi, x.value)
          for t in x.targets:
            ch |= self._bind(fi, t, k)
        elif isinstance(x, (ast.For, ast.comprehension)):
          k = self.kind(fi, x.iter)
          it = x.iter
          if isinstance(it, ast.Call) and call_tail(it) == 'enumerate' and it.args:
            k2 = self.kind(fi, it.args[0])
            if k2 == 'LT' and isinstance(x.target, ast.Tuple) and len(x.target.elts) == 2:
              ch |= self._bind(fi, x.target.elts[1], 'T')
          elif k == 'LT':
            ch |= self._bind(fi, x.target, 'T')
          elif k == 'T':
            ch |= self._bind(fi, x.target, 'T')
        elif isinstance(x, ast.Call):
          for tg in _targets(self.repo, self.m, fi, x):
            callee = self.m.funcs.get(tg[6:])
            if callee is None:
              continue
            params = callee.params
            for i, a in enumerate(x.args):
              if i < len(params):
                k = self.kind(fi, a)
                if k in ('T', 'LT'):
                  ch |= self._set(self.param, (callee.qualname, params[i]), k)
            for kw in x.keywords:
              if kw.arg in params:
                k = self.kind(fi, kw.value)
                if k in ('T', 'LT'):
                  ch |= self._set(self.param, (callee.qualname, kw.arg), k)
        elif isinstance(x, ast.Return) and x.value is not None:
          k = self.kind(fi, x.value)
          if k:
            ch |= self._set(self.ret, fi.qualname, k)
      # `parts.append(<text>)` makes parts a list of text
      for x in walk_local(fi.node):
        if isinstance(x, ast.Call) and call_tail(x) in ('append', 'extend') and \
            isinstance(x.func, ast.Attribute) and isinstance(x.func.value, ast.Name) and x.args:
          k = self.kind(fi, x.args[0])
          if k in ('T', 'LT'):
            ch |= self._set(self.local, (fi.qualname, x.func.value.id), 'LT')
    return ch


def infix_searches(m, tt):
  """[(fi, node, text)] searches inside program text."""
  out = []
  for fi in m.funcs.values():
    for x in walk_local(fi.node):
      if isinstance(x, ast.Compare) and len(x.ops) == 1 and \
          isinstance(x.ops[0], (ast.In, ast.NotIn)):
        if tt.kind(fi, x.comparators[0]) == 'T':
          out.append((fi, x, norm(x), norm(x.comparators[0])))
      elif isinstance(x, ast.Call) and isinstance(x.func, ast.Attribute):
        if x.func.attr in SEARCH_METHODS and tt.kind(fi, x.func.value) == 'T':
          out.append((fi, x, norm(x), norm(x.func.value)))
        d = dotted(x.func)
        if d and d.startswith('re.') and any(tt.kind(fi, a) == 'T' for a in x.args):
          out.append((fi, x, norm(x), ' '.join(norm(a) for a in x.args if tt.kind(fi, a) == 'T')))
  return out


def _allowed_through_parameter(m, fi, subject, depth=2):
  """a confirmed text handed to a helper as an argument is still that text:
  when `subject` is a parameter of `fi` and every call of `fi` passes a value
  that is allow-listed in its caller, the allow-list entry applies."""
  if depth == 0 or fi.parent is not None or subject not in fi.params:
    return None
  pos = fi.params.index(subject)
  found = None
  n_calls = 0
  for q, caller in m.funcs.items():
    for c in walk_local(caller.node):
      if isinstance(c, ast.Call) and call_tail(c) == fi.name and caller is not fi:
        n_calls += 1
        arg = None
        if pos < len(c.args):
          arg = c.args[pos]
        for k in c.keywords:
          if k.arg == subject:
            arg = k.value
        if arg is None:
          return None
        top = caller.qualname.split('.')[0]
        key = next((k for k in ALLOWED if k == (top, norm(arg))), None) or \
            _allowed_through_parameter(m, caller, norm(arg), depth - 1)
        if key is None:
          return None
        found = key
  return found if n_calls else None


def run(chk):
  repo = chk.repo
  m = repo.by_name('parse')
  tt = TextTyping(m, repo)
  texty = sorted({q for (q, p), k in tt.param.items() if k == 'T'})
  chk.extra['functions_with_program_text_parameters'] = len(texty)
  if len(texty) < 30:
    raise AnalysisError('program-text provenance reaches only %d functions of '
                        'parse.py; typing no longer works' % len(texty))
  chk.rule('C15-R1', 'only the scanner searches inside program text: infix '
           'searches (in / find / split / replace / re) on text-typed values '
           'occur only in Traverse, RemoveComments, IsWhole, SplitRaw, '
           'StripSpaces or at six confirmed sites', min_instances=6)
  sites = infix_searches(m, tt)
  seen_allowed = set()
  # the rule is about what ParseFile computes: functions of parse.py that the
  # parsing pipeline never reaches (helpers for tools) are listed, not judged
  pipeline, todo_ = set(), ['ParseFile', 'EnactIncantations']
  while todo_:
    q_ = todo_.pop()
    if q_ in pipeline:
      continue
    pipeline.add(q_)
    for n_, f_ in m.funcs.items():
      if n_ == q_ or n_.startswith(q_ + '.'):
        for x in ast.walk(f_.node):
          t_ = x.id if isinstance(x, ast.Name) else (x.attr if isinstance(x, ast.Attribute) else None)
          if t_ and t_ not in pipeline and (t_ in m.funcs or t_ in m.classes):
            todo_.append(t_)
    if q_ in m.classes:
      for n_ in m.funcs:
        if n_.startswith(q_ + '.'):
          todo_.append(n_)
  for fi, node, text, subject in sites:
    top = fi.qualname.split('.')[0]
    if top not in pipeline:
      chk.info('search %s in parse.%s: not reached from ParseFile, not judged' % (text, fi.qualname))
      continue
    if fi.qualname in SCANNER or top in SCANNER:
      chk.ob('C15-R1', True, None, 'scanner search %s' % text, '', fi=fi, node=node,
             nontrivial=False)
      continue
    key = next((k for k in ALLOWED if k == (top, subject)), None)
    if key is None:
      key = _allowed_through_parameter(m, fi, subject)
    if key is None:
      # a local that merely names the confirmed text (`meat = s[1:-1]`)
      subj_node = node.comparators[0] if isinstance(node, ast.Compare) else \
          (node.func.value if isinstance(node.func, ast.Attribute) else None)
      if isinstance(subj_node, ast.Name):
        try:
          fv_ = FnView.of(repo, fi)
          wide = norm(fv_.expand(subj_node, 2))
          if wide == subj_node.id:
            rv = fv_.reaching_value(subj_node)
            wide = norm(rv) if rv is not None else None
        except AnalysisError:
          wide = None
        key = next((k for k in ALLOWED if k == (top, wide)), None)
    if key is not None:
      seen_allowed.add(key)
      chk.ob('C15-R1', True, None, 'confirmed site %s' % text, ALLOWED[key], fi=fi, node=node)
      continue
    chk.ob('C15-R1', False, None, 'infix search on program text: %s' % text,
           'program text is searched outside the bracket/string/comment aware '
           'scanner: characters inside a string literal or a comment can be '
           'taken for syntax here', fi=fi, node=node)
  for key in ALLOWED:
    if key not in seen_allowed:
      chk.info('allow-listed site %s / %s no longer present' % key)

  # redundant parentheses around a group of conjuncts disappear only because
  # every rule body goes through the DNF rewrite (it flattens nested groups)
  from rules.c01 import every_body_normalised
  every_body_normalised(chk, 'C15-R1')
  chk.rule('C15-R2', 'span arithmetic: slices of program text that escape '
           'have a non-negative lower bound and no step; HeritageAwareString '
           'computes spans by plain addition relative to its own start',
           min_instances=8)
  n_slices = 0
  for fi in m.funcs.values():
    par = None
    for x in walk_local(fi.node):
      if isinstance(x, ast.Subscript) and isinstance(x.slice, ast.Slice) and \
          tt.kind(fi, x.value) == 'T' and isinstance(x.ctx, ast.Load):
        n_slices += 1
        sl = x.slice
        neg = isinstance(sl.lower, ast.UnaryOp) and isinstance(sl.lower.op, ast.USub)
        step = sl.step is not None
        if not neg and not step:
          chk.ob('C15-R2', True, None, 'slice %s' % norm(x, 50), '', fi=fi, node=x,
                 nontrivial=False)
          continue
        # negative lower bound: only compared, never stored or passed on
        if par is None:
          from sa.setorder import _parents
          par = _parents(fi.node)
        p = par.get(x)
        compared = isinstance(p, ast.Compare)
        chk.ob('C15-R2', compared and not step, None, 'slice %s is only compared' % norm(x, 50),
               'a slice with a negative lower bound (or a step) escapes: '
               'GetSlice adds the lower bound to the start offset, so the '
               'recorded span is shifted / wrong', fi=fi, node=x)
  if n_slices < 15:
    raise AnalysisError('only %d program-text slices recognised' % n_slices)
  gs = m.func('HeritageAwareString.GetSlice')
  stores = {}
  for x in walk_local(gs.node):
    if isinstance(x, ast.Assign) and isinstance(x.targets[0], ast.Attribute) and \
        dotted(x.targets[0].value) == 'substring':
      stores[x.targets[0].attr] = norm(x.value)
  chk.ob('C15-R2', stores.get('start') == 'self.start + start', None,
         'substring.start = self.start + start', 'start is computed as %s' % stores.get('start'), fi=gs)
  chk.ob('C15-R2', stores.get('stop') == 'self.start + stop', None,
         'substring.stop = self.start + stop', 'stop is computed as %s' % stores.get('stop'), fi=gs)
  chk.ob('C15-R2', stores.get('heritage') == 'self.heritage', None,
         'substring.heritage = self.heritage', 'heritage is %s' % stores.get('heritage'), fi=gs)
  gi = m.func('HeritageAwareString.__getitem__')
  rets = [x for x in walk_local(gi.node) if isinstance(x, ast.Return)]
  ok = any(isinstance(r.value, ast.Call) and call_tail(r.value) == 'GetSlice' for r in rets)
  chk.ob('C15-R2', ok, None, 'slicing goes through GetSlice', 'slices lose their span', fi=gi)
  # statements are re-rooted in ParseFile / ParseFunctionRule only through HeritageAwareString(...)
  pf = m.func('ParseFile')
  rer = [c for c in walk_local(pf.node) if isinstance(c, ast.Call) and
         call_tail(c) == 'HeritageAwareString']
  chk.ob('C15-R2', len(rer) >= 3, None, 'ParseFile re-roots statements as HeritageAwareString',
         'statements are parsed as plain str: spans are lost', fi=pf)
  # the scanner yields an index for every character it does not skip
  tv = FnView(repo, 'parse.Traverse')
  ys = [x for x in walk_local(tv.fi.node) if isinstance(x, ast.Yield)]
  ok = all(isinstance(y.value, ast.Tuple) and len(y.value.elts) == 3 and
           dotted(y.value.elts[0]) == 'idx' for y in ys) and len(ys) >= 5
  chk.ob('C15-R2', ok, None, 'Traverse yields (idx, state, status) triples', '', fi=tv.fi,
         nontrivial=False)

  rc = m.func('RemoveComments')
  apps = [c for c in walk_local(rc.node) if isinstance(c, ast.Call) and call_tail(c) == 'append']
  ok = bool(apps)
  for c in apps:
    a0 = c.args[0] if c.args else None
    if not (isinstance(a0, ast.Subscript) and tt.kind(rc, a0.value) == 'T' and
            not isinstance(a0.slice, ast.Slice)):
      ok = False
  joins = [c for c in walk_local(rc.node) if isinstance(c, ast.Call) and call_tail(c) == 'join']
  chk.ob('C15-R2', ok and bool(joins), None,
         'RemoveComments copies the characters the scanner yields verbatim',
         'RemoveComments appends %s: characters of the program (including those '
         'inside string literals) are rewritten before parsing' % [
             norm(c.args[0], 40) for c in apps if c.args], fi=rc)

  # every expression node carries the span of the very text it was parsed
  # from: all paths of ParseExpression store its own argument as the heritage
  pe = FnView(repo, 'parse.ParseExpression')
  par0 = pe.fi.params[0]
  stores = [n for n in pe.cfg.stmt_nodes() if isinstance(pe.cfg.stmt[n], ast.Assign) and
            isinstance(pe.cfg.stmt[n].targets[0], ast.Subscript) and
            const_str(pe.cfg.stmt[n].targets[0].slice) == 'expression_heritage' and
            dotted(pe.cfg.stmt[n].value) == par0]
  rets = [(n, r) for n, r in pe.returns() if r.value is not None and
          not (isinstance(r.value, ast.Constant) and r.value.value is None)]
  chk.ob('C15-R2', bool(stores) and bool(rets) and all(
      pe.cfg.must_pass_before(n, stores) for n, r in rets), None,
         'ParseExpression stamps every tree it returns with the span of its own argument',
         'a path returns a tree whose expression_heritage was not set from the '
         'text being parsed (a cached or shared tree): diagnostics point into '
         'another statement', fi=pe.fi)

  sv = FnView(repo, 'parse.Strip')
  # the test for an outer pair mentions '(' (directly or as argument of a helper)
  tests = [n for n in sv.cfg.stmt_nodes() if isinstance(sv.cfg.stmt[n], (ast.If, ast.While)) and
           any(const_str(c) == '(' for c in ast.walk(sv.cfg.stmt[n].test))]
  strips = [n for n, c in sv.all_calls() if call_tail(c) == 'StripSpaces']

  def is_peel(e):
    return isinstance(e, ast.Subscript) and norm(e.slice) == '1:-1'
  peel, peel_stripped = [], set()
  for n in sv.cfg.stmt_nodes():
    st_ = sv.cfg.stmt[n]
    if isinstance(st_, ast.Assign) and any(is_peel(e) for e in ast.walk(st_.value)):
      peel.append(n)
      v = st_.value
      if isinstance(v, ast.Call) and call_tail(v) == 'StripSpaces' and v.args and \
          any(is_peel(e) for e in ast.walk(v.args[0])):
        peel_stripped.add(n)        # s = StripSpaces(s[1:-1]): stripped as it is peeled
  if not tests or not peel:
    raise AnalysisError('Strip: parenthesis test / peeling not recognised')
  ok = all(sv.cfg.must_pass_before(t, strips) for t in tests)
  for x in peel:
    if x in peel_stripped:
      continue
    r = sv.cfg.reachable(x, avoid=strips)
    if any(t in r for t in tests):
      ok = False
  chk.ob('C15-R2', ok, None, 'Strip removes layout before every test for an outer parenthesis pair',
         'after an outer pair is removed the next test runs without stripping '
         'spaces first: `( (e) )` keeps its inner parentheses, so redundant '
         'parentheses with layout between them change the parse', fi=sv.fi)

  chk.rule('C15-R3', 'comment / string states of the scanner: comments are '
           'skipped (continue) without being yielded, string states switch '
           'off bracket tracking', min_instances=4)
  # inside '#' and '/' states nothing is yielded; inside string states
  # track_parenthesis is False
  t = tv
  state_expr = K.scanner_state_expr(t.fi.node)
  for n in t.cfg.stmt_nodes():
    st = t.cfg.stmt[n]
    if isinstance(st, ast.Assign) and dotted(st.targets[0]) == 'track_parenthesis' and \
        isinstance(st.value, ast.Constant) and st.value.value is False:
      g = [norm(e) for e, val in t.guards(n) if val]
      chk.ob('C15-R3', any(state_expr in x for x in g), None,
             'bracket tracking switched off in state %s' % [x for x in g if state_expr in x][-1:],
             '', fi=t.fi, node=st, nontrivial=False)
  states = set()
  for n in t.cfg.stmt_nodes():
    st = t.cfg.stmt[n]
    if not isinstance(st, ast.If):
      continue
    # the branch taken in the state: body of `if State() == s`, else-branch of
    # `if not State() == s` / `if State() != s`
    test, branch = st.test, st.body
    if isinstance(test, ast.UnaryOp) and isinstance(test.op, ast.Not):
      test, branch = test.operand, st.orelse
    if not (isinstance(test, ast.Compare) and norm(test.left) == state_expr and len(test.ops) == 1):
      continue
    cmp0 = test.comparators[0]
    op0 = test.ops[0]
    if isinstance(op0, (ast.NotEq, ast.NotIn)):
      branch = st.orelse if branch is st.body else st.body
      op0 = ast.Eq() if isinstance(op0, ast.NotEq) else ast.In()
    if isinstance(op0, ast.Eq) and const_str(cmp0) is not None:
      syms = [const_str(cmp0)]
    elif isinstance(op0, ast.In) and isinstance(cmp0, (ast.Tuple, ast.List, ast.Set)) \
        and all(const_str(e) is not None for e in cmp0.elts):
      syms = [const_str(e) for e in cmp0.elts]      # merged states
    elif isinstance(op0, ast.In) and const_str(cmp0) is not None:
      syms = list(const_str(cmp0))                  # State() in '"\''
    else:
      continue
    for sym in syms:
      states.add(sym)
      offs = [x for x in ast.walk(ast.Module(body=branch, type_ignores=[]))
              if isinstance(x, ast.Assign) and dotted(x.targets[0]) == 'track_parenthesis'
              and isinstance(x.value, ast.Constant) and x.value.value is False]
      if sym in ('"', "'", '`', '3', '#', '/'):
        chk.ob('C15-R3', bool(offs), None, "state %r does not track brackets" % sym,
               'brackets inside %s are counted as syntax' % (
                   'a comment' if sym in '#/' else 'a string literal'), fi=t.fi, node=st)
  need = {'#', '"', "'", '`', '3', '/', '\\'}
  chk.ob('C15-R3', need <= states, None, 'scanner has states for %s' % ' '.join(sorted(need)),
         'missing states %s' % sorted(need - states), fi=t.fi)
  sr = FnView(repo, 'parse.SplitRaw')
  # a cut is recorded (a piece or its boundaries appended to a list) inside the
  # loop over the scanner's steps only when the scanner state is empty
  def in_scan_loop(n):
    return any(pol and isinstance(sr.cfg.stmt[h], ast.For) and
               'Traverse' in norm(sr.expand(sr.cfg.stmt[h].iter))
               for h, pol in sr.cfg.header_of(n))
  splits = [(n, c) for n, c in sr.all_calls() if call_tail(c) == 'append' and in_scan_loop(n)]
  ok = bool(splits)
  for n, c in splits:
    facts = sr.guards(n)
    if not any((not val) and dotted(e) == 'state' for e, val in facts):
      ok = False
  # whether an occurrence of the separator splits may depend on its neighbours
  # only through the `||` exception: the neighbouring character is compared
  # with the constant '|', never with something derived from the separator
  # (a run of the separator itself - `;;`, two blanks - is layout and splits)
  seps = set(sr.fi.params[1:2])
  grew_ = True
  while grew_:
    grew_ = False
    for x in walk_local(sr.fi.node):
      if isinstance(x, ast.Assign) and isinstance(x.targets[0], ast.Name) and \
          x.targets[0].id not in seps and any(
              isinstance(n_, ast.Name) and n_.id in seps for n_ in ast.walk(x.value)) and \
          not (isinstance(x.value, ast.Call) and call_tail(x.value) in ('len', 'isalnum')):
        seps.add(x.targets[0].id)
        grew_ = True
  neigh_bad = []
  for x in walk_local(sr.fi.node):
    if isinstance(x, ast.Compare) and len(x.ops) == 1 and isinstance(x.ops[0], (ast.Eq, ast.NotEq)):
      sides = [x.left, x.comparators[0]]
      sub = [e for e in sides if isinstance(e, ast.Subscript) and not isinstance(e.slice, ast.Slice)
             and dotted(e.value) == sr.fi.params[0]]
      if sub:
        other = [e for e in sides if e is not sub[0]][0]
        if any(isinstance(n_, ast.Name) and n_.id in seps for n_ in ast.walk(other)):
          neigh_bad.append(x)
  chk.ob('C15-R3', not neigh_bad, None,
         "a neighbouring character stops a split only when it is the constant '|'",
         'SplitRaw compares the character next to a separator with a value derived '
         'from the separator (`%s`): a run of the separator itself (`;;`, two spaces '
         'before an operator) no longer splits, so layout changes what is parsed'
         % (norm(neigh_bad[0], 60) if neigh_bad else ''), fi=sr.fi,
         node=neigh_bad[0] if neigh_bad else None)
  chk.ob('C15-R3', ok, None, 'SplitRaw splits only at depth 0 outside strings (`not state`)',
         'separators inside brackets or string literals split the text', fi=sr.fi)
