"""C19 - invalid programs are rejected with a diagnostic (error discipline)."""

import ast

from sa.callgraph import CallGraph
from sa.model import (AnalysisError, call_tail, const_str, dotted, norm,
                      walk_local)
from sa.pathrules import FnView, arg_is_const, raised_type, receiver
from rules import common as K

DIAG = {'ParsingException', 'RuleCompileException', 'FunctorError',
        'TypeErrorCaughtException'}
# helpers whose only effect is to raise a diagnostic
RAISING_HELPERS = {'universe.RaiseCompilerError': 'RuleCompileException',
                   'universe.AnnotationError': 'RuleCompileException'}

ENTRY = ['parse.ParseFile', 'universe.LogicaProgram.__init__',
         'universe.LogicaProgram.FormattedPredicateSql']


def idents(expr):
  """Identifiers, attribute names and string constants mentioned."""
  out = set()
  for x in ast.walk(expr):
    if isinstance(x, ast.Name):
      out.add(x.id)
    elif isinstance(x, ast.Attribute):
      out.add(x.attr)
    elif isinstance(x, ast.Constant) and isinstance(x.value, str):
      out.add(x.value)
  return out


def expanded_idents(view, expr, depth=2):
  out = idents(expr)
  if depth <= 0:
    return out
  for x in ast.walk(expr):
    if isinstance(x, ast.Name):
      for d in view.assigned_from(x.id):
        if isinstance(d, tuple):
          d = d[2]
        if isinstance(d, ast.AST):
          out |= expanded_idents(view, d, depth - 1)
      # containers grown elsewhere: what is appended, and under which tests
      for n, c in view.all_calls():
        if call_tail(c) in ('append', 'extend', 'add') and receiver(c) == x.id:
          for a in c.args:
            out |= idents(a)
          for e, _ in view.guards(n):
            out |= idents(e)
  return out


def diag_sites(repo, view):
  """[(cfg node, ast node, type)] raise statements / raising-helper calls."""
  out = []
  for n, r in view.raises():
    out.append((n, r, raised_type(repo, view.fi, r)))
  for n, c in view.all_calls():
    for t in repo.resolve(view.fi, c):
      if t in RAISING_HELPERS:
        out.append((n, c, RAISING_HELPERS[t]))
  return out


def guarded_sites(repo, view, typ, mentions, polarity_of=None):
  """Diagnostic sites of type `typ` whose dominating tests mention every
  identifier of `mentions` (after expanding local definitions); with
  polarity_of = (identifier, bool): the fact mentioning it has that truth."""
  hits = []
  for n, node, t in diag_sites(repo, view):
    if t != typ:
      continue
    facts = view.guards(n)
    seen = set()
    pol_ok = polarity_of is None
    dead = False
    for e, val in facts:
      if isinstance(e, ast.Constant) and bool(e.value) != val:
        dead = True              # guarded by a constant that never holds
      if _positive(e, val):
        seen |= expanded_idents(view, e)
      if polarity_of is not None and polarity_of[0] in idents(e):
        # `x`, `not x`, `x == const` ... : only plain mentions carry polarity
        if _plain_polarity(e, polarity_of[0], val) == polarity_of[1]:
          pol_ok = True
          seen.add(polarity_of[0])
    if dead:
      continue
    # loops: `for .. in Traverse(s)` style iteration sources count as guards
    for h, pol in view.cfg.header_of(n):
      st = view.cfg.stmt[h]
      if isinstance(st, ast.For):
        seen |= expanded_idents(view, st.iter)
    if set(mentions) <= seen and pol_ok:
      hits.append((n, node))
  return hits


def _positive(e, val):
  """The fact asserts what the expression mentions (rather than excluding
  it): a true test, an emptiness/absence test `not x`, or a false `!=`."""
  if val:
    return True
  if isinstance(e, (ast.Name, ast.Attribute)):
    return True
  if isinstance(e, ast.Compare) and len(e.ops) == 1 and isinstance(
      e.ops[0], (ast.NotEq, ast.NotIn, ast.IsNot, ast.Eq, ast.In, ast.Is)):
    # `x in s` false is `x not in s` true: the same relation, spelled the
    # other way round by an early `continue` / `return`
    return True
  return False


def _plain_polarity(e, name, val):
  if isinstance(e, ast.Name) and e.id == name:
    return val
  if isinstance(e, ast.Compare) and len(e.ops) == 1:
    l, r = e.left, e.comparators[0]
    if isinstance(l, ast.Name) and l.id == name and isinstance(r, ast.Constant):
      eq = isinstance(e.ops[0], (ast.Eq, ast.Is))
      return (r.value if eq else not r.value) if val else \
          ((not r.value) if eq else r.value)
  return val


CATALOGUE = [
    # (label, function, exception type, identifiers the guard must mention,
    #  polarity requirement or None, minimal number of sites)
    ('unassigned variables (full elimination)',
     'rule_translate.RuleStructure.ElliminateInternalVariables',
     'RuleCompileException', ['assert_full_ellimination'],
     ('assert_full_ellimination', True), 1),
    ('unassigned variables (injected sub-rule)',
     'rule_translate.RuleStructure.ElliminateInternalVariables',
     'RuleCompileException', ['assert_full_ellimination'],
     ('assert_full_ellimination', False), 1),
    ('aggregation in a non-distinct head (parser)',
     'parse.ParseHeadCall.CheckAggregationCoherence',
     'ParsingException', ['aggregation', 'distinct_from_outside'],
     ('distinct_from_outside', False), 1),
    ('aggregation in a non-distinct rule (compiler)',
     'rule_translate.ExtractRuleStructure',
     'RuleCompileException', ['distinct_denoted'],
     ('distinct_denoted', False), 1),
    ('inconsistent distinct among bodies (parser)',
     'parse.MultiBodyAggregation.SplitAggregation',
     'ParsingException', ['distinct_denoted'], None, 1),
    ('inconsistent distinct among rules (compiler)',
     'universe.LogicaProgram.CheckDistinctConsistency',
     'RuleCompileException', ['distinct_denoted'], None, 1),
    ('recursion without base case (predicate proven empty)',
     'functors.Functors.RemoveRulesProvenToBeNil',
     'FunctorError', [], None, 1),
    ('unresolvable @Make order / all rules nil after unfolding',
     'functors.Functors.MakeAll', 'FunctorError', [], None, 2),
    ('single rule is nil',
     'universe.LogicaProgram.SingleRuleSql',
     'RuleCompileException', ['nil', 'must_not_be_nil'],
     ('must_not_be_nil', True), 1),
    ('all disjuncts nil',
     'universe.LogicaProgram.PredicateSql',
     'RuleCompileException', ['/* nil */'], None, 1),
    ('functor applied to a predicate it does not depend on',
     'functors.Functors.CallFunctor',
     'FunctorError', ['args_map', 'args_of'], None, 1),
    ('annotation of a missing predicate',
     'universe.Annotations.CheckAnnotatedObjects',
     'RuleCompileException', ['head', 'predicate_name'], None, 1),
    ('unbalanced parenthesis (comment removal)',
     'parse.RemoveComments', 'ParsingException', ['Unmatched'], None, 1),
    ('unbalanced parenthesis (splitting)',
     'parse.SplitRaw', 'ParsingException', ['OK', 'Traverse'], None, 1),
    ('unbalanced parenthesis (rule head)',
     'parse.ParseHeadCall', 'ParsingException', ['OK', 'Traverse'], None, 1),
]


def param_facts(view, n):
  """{param: required truth value} from plain tests on parameters that
  dominate node n."""
  out = {}
  params = set(view.fi.params)
  for e, val in view.guards(n):
    if isinstance(e, ast.Name) and e.id in params:
      out[e.id] = val
  return out


def call_bindings(repo, callee_fi):
  """[{param: constant or None-if-unknown}] for every call site of callee in
  the pipeline (defaults filled in)."""
  fn = callee_fi.node
  params = [a.arg for a in fn.args.posonlyargs + fn.args.args]
  defaults = dict(zip(params[len(params) - len(fn.args.defaults):], fn.args.defaults))
  is_method = callee_fi.cls is not None
  out = []
  for m in repo.pipeline():
    for fi in m.funcs.values():
      for c in walk_local(fi.node):
        if isinstance(c, ast.Call) and call_tail(c) == callee_fi.name and \
            callee_fi.fq in repo.resolve(fi, c):
          ps = params[1:] if is_method and isinstance(c.func, ast.Attribute) else params
          b = {}
          for p_ in ps:
            d = defaults.get(p_)
            b[p_] = d.value if isinstance(d, ast.Constant) else '?'
          for i, a in enumerate(c.args):
            if i < len(ps):
              b[ps[i]] = a.value if isinstance(a, ast.Constant) else '?'
          for k in c.keywords:
            if k.arg:
              b[k.arg] = k.value.value if isinstance(k.value, ast.Constant) else '?'
          out.append((fi, c, b))
  return out


def reachable_by_some_caller(repo, view, n):
  """Is there a call site whose constant arguments are consistent with the
  parameter tests guarding node n?  (no call sites at all -> True)"""
  need = param_facts(view, n)
  if not need:
    return True, ''
  sites = call_bindings(repo, view.fi)
  if not sites:
    return True, ''
  for fi, c, b in sites:
    ok = True
    for p_, val in need.items():
      v = b.get(p_, '?')
      if v != '?' and bool(v) != val:
        ok = False
    if ok:
      return True, ''
  return False, 'needs %s but the call sites pass %s' % (
      need, [{k: v for k, v in b.items() if k in need} for _, _, b in sites])


def must_raise(chk, rid, fq, typ, core, label):
  """Under the scenario 'the core condition of the diagnostic holds' every
  path through the function (loop bodies taken once) ends in a raise of the
  diagnostic type; any other condition is left unknown, so an added escape
  (`if <something>: continue`) shows up as a path that does not raise.

  core: list of predicates on condition expressions: (set of identifiers the
  condition must mention, truth value to assume)."""
  from sa.absint import Const, Interp, State, Sym
  repo = chk.repo
  fi = repo.func(fq)
  facts = {}
  matched = 0
  tests = []
  for x in walk_local(fi.node):
    if isinstance(x, (ast.If, ast.While)):
      tests.append(x.test)
  POL = {ast.In: ('in', True), ast.NotIn: ('in', False), ast.Eq: ('eq', True),
         ast.NotEq: ('eq', False), ast.Is: ('eq', True), ast.IsNot: ('eq', False)}
  for need, kind, val in core:
    hit = False
    for t in tests:
      for e in ast.walk(t):
        if kind == 'truthy':
          if isinstance(e, ast.Name) and e.id in need:
            facts[norm(e)] = val
            # a flag variable: the same truth for the expression it was computed from
            for a in walk_local(fi.node):
              if (isinstance(a, ast.Assign) and len(a.targets) == 1
                  and isinstance(a.targets[0], ast.Name) and a.targets[0].id == e.id):
                facts[norm(a.value)] = val
            hit = True
        elif isinstance(e, ast.Compare) and len(e.ops) == 1 and type(e.ops[0]) in POL \
            and POL[type(e.ops[0])][0] == kind and set(need) <= idents(e):
          # the relation itself has truth `val`, however the test spells it
          facts[norm(e)] = (val == POL[type(e.ops[0])][1])
          hit = True
    if hit:
      matched += 1
  if matched < len(core):
    # scenario not recognisable: the catalogue rule judges this site
    chk.info('C19-R1 must-raise scenario for %s not recognised (conditions renamed?); '
             'only the catalogue clause judged it' % fq)
    return None

  def call(node, st, interp):
    for t in repo.resolve(fi, node):
      if t in RAISING_HELPERS:
        st.effects.append(('raised', RAISING_HELPERS[t]))
    return NotImplemented
  it = Interp(fi.node, dict(call=call, loop=lambda n, s: 'body'), max_paths=4000)
  try:
    outs = it.run(State(facts=facts))
  except AnalysisError:
    return None
  bad = []
  for o in outs:
    raised = o.kind == 'raise' and raised_type(repo, fi, o.node) == typ
    raised = raised or any(e[0] == 'raised' and e[1] == typ for e in o.state.effects)
    if o.kind == 'assert':
      continue
    if not raised:
      bad.append('; '.join(o.state.trace) or 'fall through')
  chk.ob(rid, not bad, None, 'whenever %s, %s raises %s' % (label, fq.split('.')[-1], typ),
         'although %s, a path avoids the diagnostic (%s): some programs of this '
         'kind are accepted silently' % (label, bad[0] if bad else ''), fi=fi)
  return not bad


def _conjuncts(t):
  if isinstance(t, ast.BoolOp) and isinstance(t.op, ast.And):
    out = []
    for v in t.values:
      out += _conjuncts(v)
    return out
  return [t]


MUST_RAISE = [
    # (function, diagnostic, core condition as relations: (identifiers, kind, truth), label)
    ('universe.Annotations.CheckAnnotatedObjects', 'RuleCompileException',
     [(['annotation_name'], 'in', True), (['annotated_predicate', 'all_predicates'], 'in', False)],
     'an annotated predicate does not exist'),
    ('functors.Functors.CallFunctor', 'FunctorError', [(['bad_args'], 'truthy', True)],
     'a functor is applied to arguments it does not have'),
    ('parse.MultiBodyAggregation.SplitAggregation', 'ParsingException',
     [(['distinct_denoted', 'rule'], 'in', False)], 'one body of an aggregating predicate lacks distinct'),
    ('parse.RemoveComments', 'ParsingException', [(['status', 'Unmatched'], 'eq', True)],
     'a closing bracket matches nothing'),
    ('parse.SplitRaw', 'ParsingException', [(['status', 'OK'], 'eq', False)],
     'the scanner reports an unmatched bracket'),
]


def must_call(chk, rid, caller, callee, why, after=None, arg_check=None):
  """Every normal path through `caller` calls `callee`."""
  v = FnView(chk.repo, caller)
  sites = v.calls(callee)
  if arg_check:
    sites = [s for s in sites if arg_check(s[1])]
  ok = bool(sites) and v.cfg.must_pass_after(v.cfg.entry, v.nodes_of(sites))
  chk.ob(rid, ok, None, '%s always calls %s' % (caller.split('.', 1)[1],
                                                callee.split('.')[-1]),
         why, fi=v.fi)
  return v, sites


def run(chk):
  repo = chk.repo
  chk.rule('C19-R1', 'catalogue: each class of invalid program named by the '
           'property has a detection site raising the right diagnostic type '
           'under a guard derived from the relevant condition',
           min_instances=15)
  for label, fq, typ, mentions, pol, least in CATALOGUE:
    v = FnView(repo, fq)
    hits = guarded_sites(repo, v, typ, mentions, pol)
    live_hits = []
    dead_why = ''
    for n, node in hits:
      ok, why = reachable_by_some_caller(repo, v, n)
      if ok:
        live_hits.append((n, node))
      else:
        dead_why = why
    if len(hits) >= least and len(live_hits) < least:
      chk.ob('C19-R1', False, None, 'detects %s -> %s' % (label, typ),
             'the detection site exists but no caller can reach it: it %s' % dead_why,
             fi=v.fi, node=hits[0][1])
      continue
    hits = live_hits
    chk.ob('C19-R1', len(hits) >= least, None,
           'detects %s -> %s' % (label, typ),
           'no `raise %s` guarded by a test over %s is left in %s: this class '
           'of invalid program is no longer diagnosed here' % (typ, mentions, fq),
           fi=v.fi)
  for fq, typ, core, label in MUST_RAISE:
    must_raise(chk, 'C19-R1', fq, typ, core, label)
  K.bad_functor_arguments_diagnosed(chk, 'C19-R1')
  # the range-restriction check reports InternalVariables() = AllVariables() -
  # ExtractedVariables(): AllVariables must see the variables of every part of
  # the structure, and the collector must descend below the top level of the
  # select (where the only exemption - a column that happens to be called
  # 'variable' - applies)
  av = repo.func('rule_translate.RuleStructure.AllVariables')
  parts = set()
  from sa import tables as _tables
  for c in walk_local(av.node):
    if isinstance(c, ast.Call) and call_tail(c) == 'AllMentionedVariables' and c.args:
      # directly, or once per row of a literal table of the parts
      for binding in _tables.table_bindings(av, c):
        d = dotted(_tables.bound(c.args[0], binding)) or ''
        if d.startswith('self.'):
          parts.add(d[5:])
  need = {'select', 'vars_unification', 'constraints', 'unnestings'}
  chk.ob('C19-R1', need <= parts, None,
         'AllVariables() collects the variables of select, unifications, constraints and unnestings',
         'variables of %s are not collected: an unbound variable that occurs only '
         'there is never reported' % sorted(need - parts), fi=av)
  amv = repo.func('rule_translate.AllMentionedVariables')
  flag = 'this_is_select' if 'this_is_select' in amv.params else None
  if flag is None:
    raise AnalysisError('AllMentionedVariables: select flag parameter not found')
  fpos = amv.params.index(flag)
  deep_uses = []
  for sub in amv.nested.values():
    for x in ast.walk(sub.node):
      if isinstance(x, ast.Name) and x.id == flag:
        deep_uses.append(x)
  for c in walk_local(amv.node):
    if isinstance(c, ast.Call) and call_tail(c) == 'AllMentionedVariables':
      passed = [k.value for k in c.keywords if k.arg == flag]
      if len(c.args) > fpos:
        passed.append(c.args[fpos])
      for v in passed:
        if not (isinstance(v, ast.Constant) and v.value is False):
          deep_uses.append(v)
  chk.ob('C19-R1', not deep_uses, None,
         'the select exemption of AllMentionedVariables applies at the top level only',
         'the flag that exempts a column named `variable` is also in force below '
         'the top level of the select (%s): variables that occur only in the head '
         'are not collected, so a head-only unbound variable escapes the '
         'range-restriction diagnostic' % (norm(deep_uses[0], 40) if deep_uses else ''), fi=amv)
  # Traverse reports unmatched closers
  tv = FnView(repo, 'parse.Traverse')
  y = [x for x in walk_local(tv.fi.node) if isinstance(x, ast.Yield) and
       isinstance(x.value, ast.Tuple) and len(x.value.elts) == 3 and
       const_str(x.value.elts[2]) == 'Unmatched']
  chk.ob('C19-R1', bool(y), None, "Traverse yields status 'Unmatched'",
         'the scanner no longer reports a closing bracket that matches '
         'nothing', fi=tv.fi)

  # an unmatched OPENER is reported only because nothing parses: each of the
  # bracketed forms is accepted only when the text between its first and last
  # bracket is whole (IsWhole) - on every way to a successful return
  for q in ('parse.ParseGenericCall', 'parse.ParseRecord', 'parse.ParseList'):
    w = FnView(repo, q)
    n_ret = 0
    bad = None
    for n, r in w.returns():
      if r.value is None or (isinstance(r.value, ast.Constant) and r.value.value is None):
        continue
      n_ret += 1
      whole = [e for e, val in w.guards(n) if val and isinstance(e, ast.Call) and
               call_tail(e) == 'IsWhole']
      if not whole:
        bad = r
    if not n_ret:
      raise AnalysisError('%s: no successful return recognised' % q)
    chk.ob('C19-R1', bad is None, None,
           '%s accepts only when IsWhole(inner text) holds' % q.split('.')[-1],
           'a successful return is reachable without IsWhole having held: a call / '
           'record / list whose inner text has a bracket that is never closed (`R((x)`) '
           'is accepted and compiled instead of being reported', fi=w.fi, node=bad)

  chk.rule('C19-R2', 'wiring: validators are must-calls of the entry points '
           'and every detection site is reachable from ParseFile / '
           'LogicaProgram.__init__ / FormattedPredicateSql', min_instances=18)
  must_call(chk, 'C19-R2', 'universe.LogicaProgram.__init__',
            'universe.LogicaProgram.CheckDistinctConsistency',
            'programs with inconsistent distinct are compiled')
  must_call(chk, 'C19-R2', 'universe.Annotations.__init__',
            'universe.Annotations.CheckAnnotatedObjects',
            'annotations of missing predicates are accepted')
  must_call(chk, 'C19-R2', 'functors.Functors.MakeAll',
            'functors.Functors.RemoveRulesProvenToBeNil',
            'empty recursion is not detected after @Make')
  pf = FnView(repo, 'parse.ParseFile')
  rc = pf.calls('parse.RemoveComments')
  deleg = pf.calls('logica_parse_cpp.ParseFile')
  chk.ob('C19-R2', bool(rc) and pf.cfg.must_pass_after(
      pf.cfg.entry, pf.nodes_of(rc + deleg)), None,
         'ParseFile always calls RemoveComments (or delegates to the C++ parser)',
         'unbalanced input is not rejected before splitting', fi=pf.fi)
  # ParseHeadCall: coherence check on both non-aggregating paths
  ph = FnView(repo, 'parse.ParseHeadCall')
  cc = ph.calls('parse.ParseHeadCall.CheckAggregationCoherence')
  rets = [(n, r) for n, r in ph.returns()
          if isinstance(r.value, ast.Tuple) and len(r.value.elts) == 2 and
          isinstance(r.value.elts[1], ast.Constant) and r.value.elts[1].value is False]
  if not rets:
    raise AnalysisError('ParseHeadCall: non-aggregating returns not found')
  for n, r in rets:
    chk.ob('C19-R2', ph.cfg.must_pass_before(n, ph.nodes_of(cc)), None,
           'CheckAggregationCoherence before `return (call, False)`',
           'a head without head-level aggregation operator is returned '
           'without checking for aggregated fields', fi=ph.fi, node=r)
  for fq in ('universe.LogicaProgram.SingleRuleSql',
             'universe.LogicaProgram.FunctionSql'):
    v = FnView(repo, fq)
    el = [s for s in v.calls(K.ELIM)
          if arg_is_const(s[1], 'assert_full_ellimination', 0, True)]
    sites = v.need_calls(K.ASSQL)
    chk.ob('C19-R2', bool(el) and all(v.precedes(el, s) for s in sites), None,
           'full elimination asserted before AsSql in %s' % fq.split('.')[-1],
           'SQL is produced without the unassigned-variable check', fi=v.fi)
  cg = CallGraph(repo)
  chk.extra['functions_analysed'] = len(cg.funcs)
  chk.extra['call_sites'] = cg.calls_total
  chk.extra['calls_resolved'] = cg.calls_resolved
  reach = cg.reachable(ENTRY)
  seen_fq = set()
  for label, fq, typ, mentions, pol, least in CATALOGUE:
    if fq in seen_fq:
      continue
    seen_fq.add(fq)
    fi = repo.func(fq)
    chk.ob('C19-R2', fi.fq in reach, None,
           '%s reachable from the compilation entry points' % fq,
           'the detection site exists but nothing on the way from ParseFile / '
           'LogicaProgram calls it any more', fi=fi)

  chk.rule('C19-R3', 'types and propagation: catalogue functions raise only '
           'the four diagnostic types; no handler between entry and site '
           'swallows them; the CLI entry points catch all of them',
           min_instances=20)
  allowed_extra = {'<reraise>'}
  for fq in sorted(seen_fq):
    v = FnView(repo, fq)
    for n, r, t in diag_sites(repo, v):
      ok = t in DIAG or t in allowed_extra or _reraises_caught(v, r)
      chk.ob('C19-R3', ok, None, 'raises %s' % t,
             'raises %s, which the command line does not catch: the user '
             'gets a traceback instead of a diagnostic' % t, fi=v.fi, node=r)
  # exception_maker lambdas construct RuleCompileException
  for fq in (K.ASSQL, 'universe.LogicaProgram.FunctionSql'):
    fi = repo.func(fq)
    makers = []
    for x in walk_local(fi.node):
      if isinstance(x, ast.Call) and call_tail(x) == 'QL':
        if len(x.args) >= 3:
          makers.append(x.args[2])
    if not makers:
      raise AnalysisError('%s: QL(...) construction not found' % fq)
    for mk in makers:
      ok = isinstance(mk, ast.Lambda) and isinstance(mk.body, ast.Call) and \
          (dotted(mk.body.func) or '').split('.')[-1] == 'RuleCompileException'
      chk.ob('C19-R3', ok, None,
             'exception_maker passed to QL builds RuleCompileException',
             'expression-level errors are raised as %s' % norm(mk, 60),
             fi=fi, node=mk)
  # swallowing handlers on the way
  on_path = set()
  for fq in seen_fq:
    on_path |= (cg.can_reach(fq) & reach)
  checked = 0
  for fq in sorted(on_path):
    fi = cg.funcs.get(fq)
    if fi is None:
      continue
    for t in walk_local(fi.node):
      if not isinstance(t, ast.Try):
        continue
      # does the protected body call something that can reach a site?
      leads = False
      for st in t.body:
        for c in walk_local(st):
          if isinstance(c, ast.Call):
            for tg in repo.resolve(fi, c):
              tg = cg._ctor(tg)
              if tg in on_path or tg in seen_fq:
                leads = True
      if not leads:
        continue
      for h in t.handlers:
        names = _handler_types(h)
        broad = (not names) or bool(names & (DIAG | {'Exception', 'BaseException'}))
        if not broad:
          continue
        checked += 1
        chk.ob('C19-R3', _handler_terminates(h), None,
               'handler `except %s` re-raises or exits' % (', '.join(sorted(names)) or '<bare>'),
               'a handler on the way from the entry point to a detection '
               'site catches the diagnostic and continues normally', fi=fi, node=h)
  chk.extra['handlers_checked'] = checked
  # CLI catch sites
  for relfq, need_compile in (
      ('logica.main', DIAG),
      ('run_in_terminal.Run', DIAG - {'ParsingException'}),
      ('run_in_terminal.RunMany', DIAG - {'ParsingException'})):
    fi = repo.func(relfq)
    for callee, need in (('ParseFile', {'ParsingException'}),
                         ('FormattedPredicateSql', need_compile)):
      tries = []
      for t in walk_local(fi.node):
        if isinstance(t, ast.Try) and any(
            isinstance(c, ast.Call) and call_tail(c) == callee
            for st in t.body for c in walk_local(st)):
          if callee == 'FormattedPredicateSql' and not any(
              isinstance(c, ast.Call) and call_tail(c) == 'LogicaProgram'
              for st in t.body for c in walk_local(st)):
            continue   # program construction must be protected as well
          tries.append(t)
      if not tries:
        calls = [c for c in walk_local(fi.node)
                 if isinstance(c, ast.Call) and call_tail(c) == callee]
        if not calls:
          raise AnalysisError('%s no longer calls %s' % (relfq, callee))
        chk.ob('C19-R3', False, None, '%s(...) protected by handlers for %s'
               % (callee, sorted(need)),
               'the call is not inside a try block: diagnostics surface as '
               'tracebacks', fi=fi, node=calls[0])
        continue
      for t in tries:
        caught = set()
        good = True
        for h in t.handlers:
          names = _handler_types(h)
          caught |= names
          if names & DIAG and not _handler_reports(h):
            good = False
        chk.ob('C19-R3', need <= caught and good, None,
               '%s(...) protected by handlers for %s' % (callee, sorted(need)),
               'handlers catch %s; missing %s (or a handler does not show the '
               'message and exit non-zero)' % (sorted(caught & DIAG),
                                               sorted(need - caught)),
               fi=fi, node=t)


def _handler_types(h):
  if h.type is None:
    return set()
  ts = h.type.elts if isinstance(h.type, ast.Tuple) else [h.type]
  return {(dotted(t) or '?').split('.')[-1] for t in ts}


def _handler_terminates(h):
  """Every path through the handler ends in raise / sys.exit."""
  from sa.cfg import CFG
  fn = ast.FunctionDef(name='h', args=ast.arguments(
      posonlyargs=[], args=[], kwonlyargs=[], kw_defaults=[], defaults=[]),
      body=h.body, decorator_list=[], lineno=h.lineno, col_offset=0)
  g = CFG(fn)
  ends = set()
  for n in g.stmt_nodes():
    st = g.stmt[n]
    if isinstance(st, ast.Raise):
      ends.add(n)
    elif isinstance(st, ast.Expr) and isinstance(st.value, ast.Call) and \
        dotted(st.value.func) in ('sys.exit', 'exit', 'os._exit'):
      ends.add(n)
  return g.must_pass_after(g.entry, ends)


def _handler_reports(h):
  shows = any(isinstance(c, ast.Call) and call_tail(c) == 'ShowMessage'
              for st in h.body for c in walk_local(st))
  exits = any(isinstance(c, ast.Call) and dotted(c.func) == 'sys.exit' and
              c.args and isinstance(c.args[0], ast.Constant) and c.args[0].value
              for st in h.body for c in walk_local(st))
  return shows and exits


def _reraises_caught(view, r):
  """`raise e` where e is the name bound by an enclosing except clause."""
  if not isinstance(r.exc, ast.Name):
    return False
  for x in walk_local(view.fi.node):
    if isinstance(x, ast.ExceptHandler) and x.name == r.exc.id:
      if any(y is r for st in x.body for y in ast.walk(st)):
        return True
  return False
