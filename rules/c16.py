"""C16 - type unification: exhaustive top-level case analysis of Unify."""

import ast

from sa.absint import Const, Interp, State, Sym
from sa.model import AnalysisError, call_tail, const_str, dotted, norm, walk_local
from sa.pathrules import FnView
from rules import common as K

GROUND = ['Num', 'Str', 'Bool', 'Time']
CLASSES = ['Any', 'Singular', 'Sequential'] + GROUND + ['list', 'OpenRecord', 'ClosedRecord']
ALL = CLASSES + ['BadType']


class TC(object):
  """Abstract concrete type: one of the classes; remembers whose it is."""

  def __init__(self, cls, who=None):
    self.cls = cls
    self.who = who
    self.key = 'tc:%s' % cls

  def __repr__(self):
    return 'TC(%s)' % self.cls


class Ref(object):
  """Abstract TypeReference argument."""

  def __init__(self, name, cls):
    self.name = name
    self.cls = cls
    self.key = 'ref:' + name

  def __repr__(self):
    return 'Ref(%s:%s)' % (self.name, self.cls)


class Bad(object):
  key = 'incompatible'


def tc_isinstance(tc, typ):
  if typ == 'BadType':
    return tc.cls == 'BadType'
  if typ == 'list':
    return tc.cls == 'list'
  if typ == 'OpenRecord':
    return tc.cls == 'OpenRecord'
  if typ == 'ClosedRecord':
    return tc.cls == 'ClosedRecord'
  if typ == 'dict':
    return tc.cls in ('OpenRecord', 'ClosedRecord')
  if typ == 'str':
    return tc.cls in ('Any', 'Singular', 'Sequential') + tuple(GROUND)
  if typ == 'tuple':
    return tc.cls == 'BadType'
  return None


MODULE = [None]      # reference_algebra module (set by run)


def _module_dict(name):
  """{key: value} of a module-level dict constant of reference_algebra."""
  if MODULE[0] is None:
    return None
  from sa import tables as _t
  d = _t.module_constant(MODULE[0], name)
  if d is None:
    return None
  try:
    v = _t.const_value(d)
  except AnalysisError:
    return None
  return v if isinstance(v, dict) else None


def hooks(rank):
  def call(node, st, interp):
    t = call_tail(node)
    args = [interp.value(a, st) for a in node.args]
    if t == 'ConcreteType' and args:
      if isinstance(args[0], Ref):
        return TC(args[0].cls, args[0].name)
      if isinstance(args[0], TC):
        return args[0]
    if t == 'isinstance' and len(node.args) == 2:
      typs = []
      for e in (node.args[1].elts if isinstance(node.args[1], ast.Tuple) else [node.args[1]]):
        v_ = interp.value(e, st) if isinstance(e, ast.Name) and e.id in st.env else None
        typs.append(v_.text.split('.')[-1] if isinstance(v_, Sym) else
                    (dotted(e) or '').split('.')[-1])
      if isinstance(args[0], Ref):
        return Const('TypeReference' in typs)
      if isinstance(args[0], TC):
        rs = [tc_isinstance(args[0], typ) for typ in typs]
        if any(r is True for r in rs):
          return Const(True)
        if all(r is False for r in rs):
          return Const(False)
    if t == 'len' and args and isinstance(args[0], tuple):
      return Const(len(args[0]))
    if t == 'index' and isinstance(node.func, ast.Attribute) and args:
      seq = interp.value(node.func.value, st)
      if isinstance(seq, tuple) and all(isinstance(x, Const) for x in seq):
        key = args[0].cls if isinstance(args[0], TC) else (
            args[0].v if isinstance(args[0], Const) else None)
        vals = [x.v for x in seq]
        if key in vals:
          return Const(vals.index(key))
    if t == 'id' and args and isinstance(args[0], Ref):
      return Const('id:' + args[0].name)
    if t == 'Rank' and args and isinstance(args[0], TC) and rank is not None:
      return Const(rank[args[0].cls])
    if t == 'WeMustGoDeeper':
      return Const(False)
    if t == 'Incompatible':
      return Bad()
    if t == 'Unify':
      st.effects.append(('recurse',))
      return Const(None)
    if t == 'UnifyFriendlyRecords':
      typ = (dotted(node.args[2]) or '?').split('.')[-1] if len(node.args) > 2 else '?'
      names = tuple(sorted(a.name for a in args[:2] if isinstance(a, Ref)))
      st.effects.append(('merge', typ) + names)
      return Const(None)
    if t == 'To' and args:
      return args[0]
    # a small helper of the module (e.g. the clash marking moved out of Unify)
    # is interpreted in place
    if isinstance(node.func, ast.Name) and MODULE[0] is not None and \
        node.func.id in MODULE[0].funcs and MODULE[0].funcs[node.func.id].parent is None:
      h = MODULE[0].funcs[node.func.id]
      if len(h.node.body) <= 6 and len(h.params) == len(args):
        return interp.inline(h.node, dict(zip(h.params, args)), st)
    return NotImplemented

  def compare(op, l, r, st):
    if isinstance(l, TC) and isinstance(r, Sym) and isinstance(op, (ast.In, ast.NotIn)):
      # membership in a module-level table keyed by the atomic type names
      tab = _module_dict(r.text)
      if tab is not None:
        inn = l.cls in tab
        return inn if isinstance(op, ast.In) else not inn
    if isinstance(l, TC) and isinstance(r, Const) and isinstance(r.v, str):
      eq = l.cls == r.v
      if isinstance(op, ast.Eq):
        return eq
      if isinstance(op, ast.NotEq):
        return not eq
    if isinstance(l, TC) and isinstance(r, tuple) and all(isinstance(x, Const) for x in r):
      inn = any(l.cls == x.v for x in r)
      if isinstance(op, ast.In):
        return inn
      if isinstance(op, ast.NotIn):
        return not inn
    if isinstance(l, TC) and isinstance(r, TC):
      if l.cls in GROUND + ['Any', 'Singular', 'Sequential'] and \
          r.cls in GROUND + ['Any', 'Singular', 'Sequential']:
        if isinstance(op, ast.Eq):
          return l.cls == r.cls
        if isinstance(op, ast.NotEq):
          return l.cls != r.cls
      if isinstance(op, ast.Eq) and (l.cls in GROUND) != (r.cls in GROUND):
        return False
      if isinstance(op, ast.NotEq) and (l.cls in GROUND) != (r.cls in GROUND):
        return True
    if isinstance(l, Ref) and isinstance(r, Ref):
      if isinstance(op, (ast.Eq, ast.Is)):
        return l.name == r.name
      if isinstance(op, (ast.NotEq, ast.IsNot)):
        return l.name != r.name
    return NotImplemented

  def store(target, val, st, interp):
    if isinstance(target, ast.Attribute) and target.attr == 'target':
      who = interp.value(target.value, st)
      wn = who.name if isinstance(who, Ref) else norm(target.value)
      if isinstance(val, Bad):
        st.effects.append(('clash', wn))
      elif isinstance(val, Ref):
        st.effects.append(('link', wn, val.name))
      elif isinstance(val, Const):
        st.effects.append(('set', wn, val.v))
      elif isinstance(val, Sym) and val.text.endswith('.target'):
        st.effects.append(('link', wn, val.text.split('.')[0]))
      else:
        st.effects.append(('set', wn, 'list' if isinstance(val, tuple) else '?'))

  def attr(node, st, interp):
    return NotImplemented

  def expr(node, st, interp):
    # TABLE[x] for a module-level dict keyed by the atomic type names
    if isinstance(node, ast.Subscript) and isinstance(node.value, ast.Name):
      tab = _module_dict(node.value.id)
      key = interp.value(node.slice, st)
      if tab is not None and isinstance(key, TC) and key.cls in tab:
        return Const(tab[key.cls])
    return NotImplemented

  def loop_policy(node, st):
    # a loop over a literal table of the module is run row by row, any other
    # loop is chain compression and has no effect on the abstract classes
    if isinstance(node, ast.For) and isinstance(node.iter, ast.Name) and MODULE[0] is not None:
      from sa import tables as _t
      d = _t.module_constant(MODULE[0], node.iter.id)
      if isinstance(d, (ast.Tuple, ast.List)):
        return 'unroll'
    return 'skip'

  return dict(call=call, compare=compare, store=store, loop=loop_policy, attr=attr, expr=expr)


def rank_table(repo):
  fi = repo.func('reference_algebra.Rank')
  table = {}
  for c in ALL:
    it = Interp(fi.node, hooks(None))
    outs = it.run(State(env={'x': TC(c, 'x')}))
    rets = [o for o in outs if o.kind == 'return']
    if len(outs) != 1 or len(rets) != 1 or not isinstance(rets[0].value, Const):
      raise AnalysisError('Rank(%s) is not a single constant: %s' % (c, outs))
    table[c] = rets[0].value.v
  return table


def unify_table(repo, rank):
  fi = repo.func('reference_algebra.Unify')
  table = {}
  paths = 0
  for ca in ALL:
    for cb in ALL:
      it = Interp(fi.node, hooks(rank))
      outs = it.run(State(env={'a': Ref('A', ca), 'b': Ref('B', cb)}))
      paths += len(outs)
      res = set()
      cls_of = {'A': ca, 'B': cb}
      for o in outs:
        effs = set()
        for e in o.state.effects:
          if e[0] == 'link':
            # direction of a union-find link is unobservable; what both
            # references denote afterwards is the class of the link target
            e = ('link', 'both denote ' + cls_of.get(e[2], e[2]))
          effs.add(e)
        eff = tuple(sorted(effs))
        res.add((o.kind if o.kind != 'fall' else 'return', eff))
      table[(ca, cb)] = res
  return table, paths


def swap_names(res):
  m = {'A': 'B', 'B': 'A'}
  out = set()
  for kind, eff in res:
    e2 = []
    for e in eff:
      e2.append(tuple(m.get(x, x) if isinstance(x, str) else x for x in e))
    # merge carries sorted names: re-sort
    e3 = []
    for e in e2:
      if e[0] == 'merge':
        e = e[:2] + tuple(sorted(e[2:]))
      e3.append(e)
    out.add((kind, tuple(sorted(set(e3)))))
  return out


def verdict(res):
  """never / always / conditional clash."""
  clash = [any(e[0] == 'clash' for e in eff) for kind, eff in res]
  if all(clash):
    return 'always'
  if not any(clash):
    return 'never'
  return 'conditional'


def spec(x, y):
  """Clash specification derived from the property statement (unordered)."""
  scal = set(GROUND)
  rec = {'OpenRecord', 'ClosedRecord'}
  pair = {x, y}
  if 'BadType' in pair:
    return 'never'          # absorbing: nothing new is reported
  if 'Any' in pair:
    return 'never'
  if pair == {'Singular', 'list'}:
    return 'always'         # lists are not elements of lists
  if 'Singular' in pair:
    return 'never'
  if 'Sequential' in pair:
    other = (pair - {'Sequential'}).pop() if len(pair) == 2 else 'Sequential'
    return 'never' if other in ('Str', 'Sequential', 'list') else 'always'
  if x in scal and y in scal:
    return 'never' if x == y else 'always'
  if (x in scal) != (y in scal):
    return 'always'         # scalar vs list / record
  if pair == {'list'}:
    return 'conditional'    # on the element types
  if 'list' in pair:
    return 'always'         # list vs record
  if pair == {'OpenRecord'}:
    return 'never'
  return 'conditional'      # closed records: on the field sets


def chain_followers(ci):
  """{method name: variable} for methods of TypeReference that advance a
  variable with `while x.WeMustGoDeeper(): x = x.target` (x starts at self):
  after the loop x is the end of the chain."""
  out = {}
  for name, fi in ci.methods.items():
    for w in walk_local(fi.node):
      if isinstance(w, ast.While) and 'WeMustGoDeeper' in norm(w.test):
        base = norm(w.test).split('.')[0]
        for st in w.body:
          if isinstance(st, ast.Assign) and dotted(st.targets[0]) == base and \
              norm(st.value) == '%s.target' % base:
            out[name] = base
  return out


def returns_end_of_chain(ci):
  """methods whose every return hands out the advanced variable itself (the
  last reference of the chain), e.g. a LastReference() helper."""
  fol = chain_followers(ci)
  out = set()
  for name, base in fol.items():
    rets = [r for r in walk_local(ci.methods[name].node) if isinstance(r, ast.Return)]
    if rets and all(r.value is not None and dotted(r.value) == base for r in rets):
      out.add(name)
  return out


def end_of_chain(chk, rid):
  """Methods of TypeReference (other than the constructor) that redirect a
  reference do so at the END of the chain: the variable whose `.target` is
  assigned was advanced by `while x.WeMustGoDeeper(): x = x.target`.  Writing
  `self.target` would detach the first link only: references already unified
  with it keep seeing the old value."""
  repo = chk.repo
  m = repo.by_name('reference_algebra')
  ci = m.cls('TypeReference')
  n = 0
  for name, fi in sorted(ci.methods.items()):
    if name == '__init__':
      continue
    for x in walk_local(fi.node):
      if isinstance(x, ast.Assign):
        for t in x.targets:
          if isinstance(t, ast.Attribute) and t.attr == 'target':
            n += 1
            base = dotted(t.value)
            advanced = False
            # the variable comes from a helper that returns the end of the chain
            for y in walk_local(fi.node):
              if isinstance(y, ast.Assign) and dotted(y.targets[0]) == base and \
                  isinstance(y.value, ast.Call) and isinstance(y.value.func, ast.Attribute) and \
                  y.value.func.attr in returns_end_of_chain(ci) and \
                  dotted(y.value.func.value) == 'self':
                advanced = True
            for w in walk_local(fi.node):
              if isinstance(w, ast.While) and 'WeMustGoDeeper' in norm(w.test) and \
                  norm(w.test).startswith(str(base) + '.'):
                for st in w.body:
                  if isinstance(st, ast.Assign) and dotted(st.targets[0]) == base and \
                      norm(st.value) == '%s.target' % base:
                    advanced = True
            chk.ob(rid, advanced and base != 'self', None,
                   'TypeReference.%s redirects the end of the reference chain' % name,
                   '%s assigns `%s.target` without following the chain to its end: '
                   'only the first link changes, every reference already unified '
                   'with it keeps the old type' % (name, base), fi=fi, node=x)
  if n == 0:
    raise AnalysisError('TypeReference: no method assigning .target found (CloseRecord?)')


def list_elements_kept(chk, rid, table=None, fi=None):
  """two lists: the element references that were unified are stored back into
  both lists (directly, or into the list the other side is linked to) - a raw
  element left in one of them forgets what was learnt about the element."""
  repo = chk.repo
  if table is None:
    MODULE[0] = repo.by_name('reference_algebra')
    table, _ = unify_table(repo, rank_table(repo))
    fi = repo.func('reference_algebra.Unify')
  ll = table[('list', 'list')]
  ok_ll = True
  n_ok = 0
  for kind, eff in ll:
    if any(e[0] == 'clash' for e in eff):
      continue
    n_ok += 1
    rebuilt = {e[1] for e in eff if e[0] == 'set' and e[2] == 'list'}
    linked = {e[1]: e[2] for e in eff if e[0] == 'link' and len(e) > 2}
    for side in ('A', 'B'):
      other = 'B' if side == 'A' else 'A'
      if not (side in rebuilt or (side in linked and other in rebuilt) or
              any(e[0] == 'link' and 'both denote' in str(e[1]) for e in eff) and rebuilt):
        ok_ll = False
  chk.ob(rid, ok_ll and n_ok > 0, None,
         'Unify(list, list) stores the unified element references back into both lists',
         'after two lists were unified one of them still holds its old element '
         '(the unified element reference is dropped): what is learnt later about '
         'the elements of one list is not seen through the other, so clashes '
         'between their elements are missed', fi=fi)


def run(chk):
  repo = chk.repo
  chk.assume('A3-like: the specification matrix in rules/c16.py (derived from the '
             'property statement) is the trusted oracle; chain compression loops '
             'do not change the abstract class of a reference')
  MODULE[0] = repo.by_name('reference_algebra')
  rank = rank_table(repo)
  chk.extra['rank'] = rank
  chk.rule('C16-R1', 'exhaustive 11x11 decision table of Unify over the type '
           'classes (abstract interpretation, all paths): total (no assert), '
           'symmetric, clash exactly where the classes have no common '
           'instance, BadType absorbing, Singular^Sequential=Str, both sides '
           'linked on success', min_instances=300)
  fi = repo.func('reference_algebra.Unify')
  if len(set(rank.values())) != len(rank):
    dup = sorted(k for k in rank if list(rank.values()).count(rank[k]) > 1)
    chk.ob('C16-R1', False, None, 'Rank is injective on the type classes',
           'classes %s share a rank: the swap no longer normalises the order '
           'of the two arguments' % dup, fi=repo.func('reference_algebra.Rank'))
  table, paths = unify_table(repo, rank)
  chk.extra['exhaustive'] = True
  chk.extra['pairs'] = len(table)
  chk.extra['paths_explored'] = paths
  chk.more_evaluations += paths
  for (ca, cb), res in sorted(table.items()):
    name = 'Unify(%s, %s)' % (ca, cb)
    asserts = [r for r in res if r[0] == 'assert']
    chk.ob('C16-R1', not asserts, None, '%s is total' % name,
           'an internal assertion is reachable for this pair of classes', fi=fi)
    raises = [r for r in res if r[0] == 'raise']
    chk.ob('C16-R1', not raises, None, '%s does not raise' % name, '', fi=fi,
           nontrivial=False)
    if ca <= cb:
      sym = swap_names(table[(cb, ca)]) == res
      chk.ob('C16-R1', sym, None, '%s = Unify(%s, %s) with roles swapped' % (name, cb, ca),
             'outcomes differ by argument order: %s vs %s' % (
                 sorted(res), sorted(swap_names(table[(cb, ca)]))), fi=fi)
    want = spec(ca, cb)
    got = verdict(res)
    chk.ob('C16-R1', got == want, None, '%s clash verdict is %s' % (name, want),
           'the code %s reports a clash for these classes, the property '
           'requires %s' % ({'never': 'never', 'always': 'always',
                             'conditional': 'conditionally'}[got], want), fi=fi)
    if 'BadType' in (ca, cb):
      quiet = all(not eff for kind, eff in res)
      chk.ob('C16-R1', quiet, None, '%s changes nothing' % name,
             'a reference that already carries a type error is modified again',
             fi=fi)
    elif want == 'never' and not (ca == cb and ca in GROUND):
      linked = all(any(e[0] in ('link', 'merge') for e in eff) for kind, eff in res)
      chk.ob('C16-R1', linked, None, '%s leaves both sides denoting one type' % name,
             'a successful unification path does not link the two references',
             fi=fi)
  # two closed records have no rank order between them: whatever decides
  # clash / merge there must be a symmetric relation of the two field sets
  # (equality), not inclusion of the first in the second
  it = Interp(fi.node, hooks(rank))
  outs = it.run(State(env={'a': Ref('A', 'ClosedRecord'), 'b': Ref('B', 'ClosedRecord')}))
  deciding = set()
  for o in outs:
    for tr in o.state.trace:
      deciding.add(tr.rsplit('=', 1)[0])
  asym = []
  for text in sorted(deciding):
    try:
      e = ast.parse(text, mode='eval').body
    except SyntaxError:
      continue
    for c in ast.walk(e):
      if isinstance(c, ast.Compare) and any(isinstance(op, (ast.Lt, ast.LtE, ast.Gt, ast.GtE))
                                            for op in c.ops):
        asym.append(text)
      if isinstance(c, ast.Call) and call_tail(c) in ('issubset', 'issuperset'):
        asym.append(text)
  chk.ob('C16-R1', bool(deciding) and not asym, None,
         'Unify(ClosedRecord, ClosedRecord) is decided by a symmetric relation of the field sets',
         'two closed records are unified when `%s`: with the arguments the '
         'other way round the same two types clash (and a closed record gains '
         'fields it does not have)' % (asym[0] if asym else ''), fi=fi)
  list_elements_kept(chk, 'C16-R1', table, fi)
  ss = table[('Singular', 'Sequential')]
  ok = all(any(e[0] == 'set' and e[2] == 'Str' for e in eff) for kind, eff in ss)
  chk.ob('C16-R1', ok, None, 'Singular ^ Sequential = Str',
         'a value that is both an element and a sequence must be a string', fi=fi)

  chk.rule('C16-R2', 'UnifyFriendlyRecords keeps every field known on either '
           'side and links both references to one merged record',
           min_instances=3)
  uf = repo.func('reference_algebra.UnifyFriendlyRecords')
  loops = [x for x in walk_local(uf.node) if isinstance(x, ast.For)]
  union = any(isinstance(l.iter, ast.BinOp) and isinstance(l.iter.op, ast.BitOr) and
              'concrete_a' in norm(l.iter) and 'concrete_b' in norm(l.iter)
              for l in loops) or any(
                  call_tail(l.iter) == 'union' if isinstance(l.iter, ast.Call) else False
                  for l in loops)
  chk.ob('C16-R2', union, None, 'iterates the union of both field sets',
         'fields known on only one side are dropped from the merged record', fi=uf)
  stores = [x for x in walk_local(uf.node) if isinstance(x, ast.Assign) and
            isinstance(x.targets[0], ast.Subscript) and dotted(x.targets[0].value) == 'result']
  chk.ob('C16-R2', bool(stores), None, 'every visited field is stored in the result',
         'the merged record does not receive the unified field types', fi=uf)
  v = FnView(repo, 'reference_algebra.UnifyFriendlyRecords')
  last = {}
  for n in v.cfg.stmt_nodes():
    st = v.cfg.stmt[n]
    if isinstance(st, ast.Assign) and dotted(st.targets[0]) in ('a.target', 'b.target') \
        and v.cfg.exit in v.cfg.succ[n] + [x for s in v.cfg.succ[n] for x in v.cfg.succ[s]]:
      last[dotted(st.targets[0])] = st
  tail = [s for s in uf.node.body[-2:] if isinstance(s, ast.Assign)]
  linked = len(tail) == 2 and {dotted(t.targets[0]) for t in tail} == {'a.target', 'b.target'} \
      and any(norm(t.value) in ('a.target', 'b.target') for t in tail) and \
      any('record_type' in norm(t.value) for t in tail)
  if not linked and len(tail) == 2 and \
      {dotted(t.targets[0]) for t in tail} == {'a.target', 'b.target'}:
    # merged = TypeReference(record_type(result)); a.target = merged; b.target = merged
    va, vb = tail[0].value, tail[1].value
    linked = isinstance(va, ast.Name) and isinstance(vb, ast.Name) and va.id == vb.id and \
        va.id in v.single_defs() and 'record_type' in norm(v.single_defs()[va.id]) and \
        call_tail(v.single_defs()[va.id]) == 'TypeReference'
  chk.ob('C16-R2', linked, None, 'both references end on the same merged record of the requested kind',
         'after merging, a and b do not denote the same record type', fi=uf)
  uf_calls = [c for c in walk_local(uf.node) if isinstance(c, ast.Call) and call_tail(c) == 'Unify']
  chk.ob('C16-R2', len(uf_calls) >= 2, None, 'field types of both sides are unified into the merged field',
         'the merged field ignores the type known on one side', fi=uf)

  chk.rule('C16-R3', 'Unify compresses both reference chains before the '
           'identity test; Target / WeMustGoDeeper are the chain followers; only '
           'Unify, UnifyFriendlyRecords, CloseRecord and the constructor write '
           '`.target`', min_instances=5)
  u = FnView(repo, 'reference_algebra.Unify')
  whiles = [n for n in u.cfg.stmt_nodes() if isinstance(u.cfg.stmt[n], ast.While) and
            'WeMustGoDeeper' in norm(u.cfg.stmt[n].test)]
  def is_identity_test(t):
    for c in ast.walk(t):
      if isinstance(c, ast.Compare) and len(c.ops) == 1 and \
          isinstance(c.ops[0], (ast.Is, ast.Eq)):
        sides = []
        for e in (c.left, c.comparators[0]):
          if isinstance(e, ast.Call) and call_tail(e) == 'id' and e.args:
            e = e.args[0]
          sides.append(dotted(e))
        if None not in sides and set(sides) == set(u.fi.params[:2]) and \
            (isinstance(c.ops[0], ast.Is) or 'id(' in norm(c)):
          return True
    return False
  idtest = [n for n in u.cfg.stmt_nodes() if isinstance(u.cfg.stmt[n], ast.If) and
            is_identity_test(u.cfg.stmt[n].test)]
  subjects = {norm(u.cfg.stmt[n].test).split('.')[0] for n in whiles}
  ok = len(subjects) >= 2 and bool(idtest) and all(
      u.cfg.must_pass_before(idtest[0], [w]) for w in whiles)
  chk.ob('C16-R3', ok, None, 'both chains followed to their end before id(a) == id(b)',
         'references are compared / updated before their chains are followed: '
         'two references to the same type are unified against each other', fi=u.fi)
  m = repo.by_name('reference_algebra')
  owners = {'TypeReference.__init__', 'TypeReference.CloseRecord', 'Unify',
            'UnifyFriendlyRecords'}
  writers = {}
  for q, f in m.funcs.items():
    for x in walk_local(f.node):
      if isinstance(x, (ast.Assign, ast.AugAssign)):
        tgts = x.targets if isinstance(x, ast.Assign) else [x.target]
        for t in tgts:
          for tt in (t.elts if isinstance(t, ast.Tuple) else [t]):
            if isinstance(tt, ast.Attribute) and tt.attr == 'target':
              writers.setdefault(q, x)
  if not {'Unify', 'UnifyFriendlyRecords'} <= set(writers):
    raise AnalysisError('writers of .target not recognised: %s' % sorted(writers))
  def only_called_by_owners(q):
    callers = {g for g, f in m.funcs.items() if g != q and any(
        isinstance(c, ast.Call) and call_tail(c) == q.split('.')[-1] for c in walk_local(f.node))}
    return bool(callers) and callers <= owners
  for q, x in sorted(writers.items()):
    # a helper that only the owners call writes on their behalf
    chk.ob('C16-R3', q in owners or only_called_by_owners(q), None, '%s may redirect a reference' % q,
           '%s assigns `.target`: observers (Target, VeryConcreteType, '
           'RenderType, IsBadType ...) must not change what a reference '
           'denotes - a lookup between two unifications would change the '
           'result' % q, fi=m.funcs[q], node=x)
  end_of_chain(chk, 'C16-R3')
  copies_are_fresh(chk, 'C16-R3')
  constraints_unconditional(chk, 'C16-R3')
  tg = repo.func('reference_algebra.TypeReference.Target')
  ci_ = m.cls('TypeReference')
  def follows_targets(w):
    """`while isinstance(x, TypeReference): x = x.target` - the same walk,
    written over the targets instead of the references"""
    t_ = w.test
    if isinstance(t_, ast.Call) and call_tail(t_) == 'isinstance' and len(t_.args) == 2 and \
        isinstance(t_.args[0], ast.Name) and dotted(t_.args[1]) == 'TypeReference':
      v_ = t_.args[0].id
      return any(isinstance(st, ast.Assign) and dotted(st.targets[0]) == v_ and
                 norm(st.value) == '%s.target' % v_ for st in w.body) and any(
          isinstance(r_, ast.Return) and dotted(r_.value) == v_ for r_ in walk_local(tg.node))
    return False
  ok = any(isinstance(x, ast.While) and ('WeMustGoDeeper' in norm(x.test) or follows_targets(x))
           for x in walk_local(tg.node)) or any(
      isinstance(c, ast.Call) and isinstance(c.func, ast.Attribute) and
      c.func.attr in returns_end_of_chain(ci_) for c in walk_local(tg.node))
  chk.ob('C16-R3', ok, None, 'Target() follows the chain to its end',
         'Target returns an intermediate reference', fi=tg)


IMMUTABLE_TYPES = {'str', 'int', 'float', 'bool', 'bytes', 'tuple', 'frozenset', 'NoneType'}


def copies_are_fresh(chk, rid):
  """Unify mutates references in place; the outcome for one call site is a
  function of its own constraints only if each use of a predicate signature
  works on a fresh instance.  TypeStructureCopier provides the instances: a
  value it hands out (returns, memoises) is never the very object it was
  given, except for immutable values."""
  repo = chk.repo
  m = repo.by_name('reference_algebra')
  ci = m.cls('TypeStructureCopier')
  count = 0
  for q, fi in sorted(m.funcs.items()):
    if not q.startswith('TypeStructureCopier.') or len(fi.params) < 2 or fi.name.startswith('__'):
      continue
    if not fi.name.startswith('Copy'):
      continue
    v = FnView.of(repo, fi)
    t = fi.params[1]
    escaping = []                        # (cfg node, expr)
    for n in v.cfg.stmt_nodes():
      st = v.cfg.stmt[n]
      if isinstance(st, ast.Return) and st.value is not None:
        escaping.append((n, st.value))
      elif isinstance(st, ast.Assign) and any(isinstance(tg, ast.Subscript) and
                                             (dotted(tg.value) or '').startswith('self.')
                                             for tg in st.targets):
        escaping.append((n, st.value))
    assigns = {}
    for n in v.cfg.stmt_nodes():
      st = v.cfg.stmt[n]
      if isinstance(st, ast.Assign):
        for tg in st.targets:
          if isinstance(tg, ast.Name):
            assigns.setdefault(tg.id, []).append((n, st.value))
    def immutable_here(n):
      for e, val in v.guards(n):
        if val and isinstance(e, ast.Call) and call_tail(e) == 'isinstance' and \
            len(e.args) == 2 and dotted(e.args[0]) == t:
          kinds = e.args[1].elts if isinstance(e.args[1], ast.Tuple) else [e.args[1]]
          if all((dotted(k) or '') in IMMUTABLE_TYPES for k in kinds):
            return True
      return False
    bad = None
    seen = set()
    todo = list(escaping)
    while todo:
      n, e = todo.pop()
      if isinstance(e, ast.IfExp):
        todo += [(n, e.body), (n, e.orelse)]
        continue
      if isinstance(e, ast.Name):
        if e.id == t:
          if not immutable_here(n):
            bad = (n, e)
          continue
        if e.id in assigns and e.id not in seen:
          seen.add(e.id)
          todo += assigns[e.id]
    count += 1
    chk.ob(rid, bad is None, None,
           '%s hands out a new object (its argument only when that is immutable)' % q,
           '`%s` itself is returned / memoised: the "copy" of a signature shares this '
           'reference with the original, so unifications at one call site (closing a '
           'record, narrowing Any, a clash) show up at every other use of the '
           'signature and the result depends on the order of the call sites' % t,
           fi=fi, node=v.cfg.stmt[bad[0]] if bad else None)
  if count < 3:
    raise AnalysisError('TypeStructureCopier: %d Copy* methods recognised' % count)


def constraints_unconditional(chk, rid):
  """The outcome for a clash-free set of constraints does not depend on the
  order in which they are unified only if WHICH constraints an expression
  contributes does not depend on what is known when it is visited: the
  helpers that translate `b in a` and `a.f = b` into unifications issue each
  of their unifications on every path (no test of the current types)."""
  repo = chk.repo
  for fq, least in (('reference_algebra.UnifyListElement', 2),
                    ('reference_algebra.UnifyRecordField', 1)):
    v = FnView(repo, fq)
    calls = [(n, c) for n, c in v.all_calls() if call_tail(c) == 'Unify']
    if len(calls) < least:
      raise AnalysisError('%s: %d unifications recognised (expected >= %d)' % (fq, len(calls), least))
    cond = [c for n, c in calls if not v.cfg.must_pass_after(v.cfg.entry, [n])]
    tests = [norm(e, 50) for n, c in calls for e, val in v.guards(n)]
    chk.ob(rid, not cond, None,
           '%s issues each of its unifications unconditionally' % fq.split('.')[-1],
           '`%s` is issued only under a test of the types known so far (%s): whether the '
           'constraint exists depends on the order in which expressions are visited - a clash '
           'is found in one order and missed in the other' % (
               norm(cond[0], 60) if cond else '', '; '.join(tests[:2])), fi=v.fi,
           node=cond[0] if cond else None)
