"""C07 - independence of textual order and naming (structural clauses)."""

import ast

from sa.model import (AnalysisError, call_tail, const_str, dotted, kwarg, norm,
                      walk_local)
from sa.pathrules import FnView, receiver
from sa.setorder import _parents
from rules import common as K

# aggregates whose dependence on arrival order the property itself permits
ORDER_EXEMPT = {
    'ARRAY_CONCAT_AGG': 'list building (Agg++): element order of List is exempt',
    'ANY_VALUE': 'any value of the group by definition',
}


def injective_sort_key(module, key):
  """sorted(.., key=k) is a total order on distinct elements when k's value
  contains the element itself (ties in the other components are broken by
  it)."""
  if key is None:
    return True
  d = dotted(key)
  if d in ('str', 'repr'):
    return True
  fn = None
  if isinstance(key, ast.Lambda):
    params = [a.arg for a in key.args.args]
    body = key.body
  elif d and d in module.funcs:
    fn = module.funcs[d].node
    params = [a.arg for a in fn.args.args]
    rets = [x for x in walk_local(fn) if isinstance(x, ast.Return)]
    if len(rets) != 1:
      return False
    body = rets[0].value
  else:
    return False
  if not params:
    return False
  p = params[0]
  if isinstance(body, ast.Name) and body.id == p:
    return True
  if isinstance(body, ast.Tuple):
    for e in body.elts:
      if isinstance(e, ast.Name) and e.id == p:
        return True
      if isinstance(e, ast.IfExp) and any(isinstance(z, ast.Name) and z.id == p
                                          for z in (e.body, e.orelse)):
        return True
  return False


def result_kind(ci):
  init = ci.methods.get('__init__')
  if init is None:
    return None
  for x in walk_local(init.node):
    if isinstance(x, ast.Assign) and dotted(x.targets[0]) == 'self.result':
      v = x.value
      if isinstance(v, ast.Call) and call_tail(v) in ('set', 'frozenset'):
        return 'set'
      if isinstance(v, (ast.Set, ast.SetComp)):
        return 'set'
      if isinstance(v, (ast.List, ast.ListComp)):
        return 'list'
      if isinstance(v, ast.Dict):
        return 'dict'
      return 'scalar'
  return None


def sanitised_uses(module, fi, attr='self.result'):
  """Every read of self.result in fi is wrapped in sorted(<it>[, injective
  key]) / min / max / sum / len / set, possibly through list()/reversed()."""
  par = _parents(fi.node)
  bad = []
  n = 0
  for x in walk_local(fi.node):
    if isinstance(x, ast.Attribute) and dotted(x) == attr and isinstance(x.ctx, ast.Load):
      n += 1
      p = par.get(x)
      node = x
      ok = False
      hops = 0
      while p is not None and hops < 6:
        hops += 1
        if isinstance(p, ast.Call) and node in p.args:
          t = call_tail(p)
          if t == 'sorted':
            ok = injective_sort_key(module, kwarg(p, 'key'))
            break
          if t in ('min', 'max', 'sum', 'len', 'set', 'frozenset', 'any', 'all'):
            ok = True
            break
          if t in ('list', 'tuple', 'reversed', 'iter'):
            node, p = p, par.get(p)
            continue
          break
        if isinstance(p, ast.comprehension) and p.iter is node:
          comp = par.get(p)
          node, p = comp, par.get(comp)
          continue
        break
      if not ok:
        bad.append(norm(par.get(x) if par.get(x) is not None else x, 70))
  return n, bad


def aggregate_order(chk, rid):
  repo = chk.repo
  m = repo.by_name('sqlite3_logica')
  reg = repo.func('sqlite3_logica.ExtendConnectionWithLogicaFunctions')
  aggs = []
  for c in walk_local(reg.node):
    if isinstance(c, ast.Call) and call_tail(c) == 'create_aggregate' and len(c.args) >= 3:
      aggs.append((const_str(c.args[0]), dotted(c.args[2]), c))
  if len(aggs) < 4:
    raise AnalysisError('create_aggregate registrations not recognised')
  for sqlname, cname, node in aggs:
    if cname not in m.classes:
      raise AnalysisError('aggregate class %s not found' % cname)
    ci = m.classes[cname]
    fin = ci.methods.get('finalize')
    step = ci.methods.get('step')
    if fin is None or step is None:
      raise AnalysisError('aggregate class %s lacks step/finalize' % cname)
    kind = result_kind(ci)
    if sqlname in ORDER_EXEMPT:
      chk.ob(rid, True, None, 'aggregate %s (%s) may depend on arrival order' % (sqlname, cname),
             ORDER_EXEMPT[sqlname], fi=fin, nontrivial=False)
      continue
    if kind == 'set':
      n, bad = sanitised_uses(m, fin)
      chk.ob(rid, n > 0 and not bad, None,
             'aggregate %s: finalize reads the set self.result only through a total order' % sqlname,
             'finalize materialises the iteration order of a set (%s): the '
             'value of the aggregate depends on hash order / insertion history '
             'of its rows' % '; '.join(bad), fi=fin)
      # step may only add
      grows = [c for c in walk_local(step.node) if isinstance(c, ast.Call) and
               receiver(c) == 'self.result' and call_tail(c) not in ('add', 'update')]
      chk.ob(rid, not grows, None, 'aggregate %s: step only adds to the set' % sqlname,
             'step does %s' % [norm(g, 40) for g in grows], fi=step, nontrivial=False)
    elif kind == 'list':
      n, bad = sanitised_uses(m, fin)
      chk.ob(rid, n > 0 and not bad, None,
             'aggregate %s: finalize reads the arrival-ordered list only through a total order' % sqlname,
             'rows are collected in arrival order and finalize returns them '
             'without sorting (%s)' % '; '.join(bad), fi=fin)
    else:
      chk.ob(rid, False, None, 'aggregate %s keeps an order-independent accumulator' % sqlname,
             'accumulator kind %s is not recognised as order independent and '
             'the aggregate is not among the exempt ones' % kind, fi=step)


def iterates_sorted(repo, fq, what):
  fi = repo.func(fq)
  for x in walk_local(fi.node):
    it = x.iter if isinstance(x, (ast.For, ast.comprehension)) else None
    if it is not None and isinstance(it, ast.Call) and call_tail(it) == 'sorted' \
        and it.args and what in norm(it.args[0]):
      return True
  return False


def run(chk):
  repo = chk.repo
  chk.rule('C07-R1', 'aggregate UDFs return the same value for every arrival '
           'order of their rows (List element order, ANY_VALUE and ties of '
           'ArgMin/ArgMax excepted)', min_instances=5)
  aggregate_order(chk, 'C07-R1')
  chk.rule('C07-R2', 'order-driven loops of the rule compiler draw from sorted '
           'sequences: next unnesting, GROUP BY keys, variable replacement',
           min_instances=3)
  fi = repo.func('rule_translate.RuleStructure.SortUnnestings')
  chk.ob('C07-R2', iterates_sorted(repo, 'rule_translate.RuleStructure.SortUnnestings', 'unnesting_of'),
         None, 'SortUnnestings picks the next unnesting from sorted(unnesting_of.items())',
         'the order of UNNEST clauses follows the textual order of conjuncts '
         'instead of dependency + name order', fi=fi)
  fi = repo.func('rule_translate.ReplaceVariable')
  ok = any(isinstance(x, ast.Assign) and isinstance(x.value, ast.Call) and
           call_tail(x.value) == 'sorted' and 'keys' in norm(x.value)
           for x in walk_local(fi.node))
  chk.ob('C07-R2', ok, None, 'ReplaceVariable visits dict members in sorted key order',
         'replacement order follows dict insertion order', fi=fi)
  fi = repo.func('rule_translate.ExtractRuleStructure')
  ok = any(isinstance(x, ast.Assign) and dotted(x.targets[0]) == 's.distinct_vars' and
           isinstance(x.value, ast.Call) and call_tail(x.value) == 'sorted'
           for x in walk_local(fi.node))
  chk.ob('C07-R2', ok, None, 'GROUP BY keys are sorted', 'GROUP BY follows set order', fi=fi)
  # UNION ALL keeps program order of rules: PredicateSql iterates GetPredicateRules
  fi = repo.func('universe.LogicaProgram.GetPredicateRules')
  ok = any(isinstance(x, ast.For) and dotted(x.iter) == 'self.rules' for x in walk_local(fi.node))
  chk.ob('C07-R2', ok, None, 'rules of a predicate are enumerated from the ordered rule list',
         'rule enumeration no longer follows self.rules', fi=fi)
