"""C07 - independence of textual order and naming (structural clauses)."""

import ast

from sa.model import (AnalysisError, call_tail, const_str, dotted, kwarg, norm,
                      walk_local)
from sa.pathrules import FnView, receiver
from sa.setorder import _parents
from sa import tables
from rules import common as K

# aggregates whose dependence on arrival order the property itself permits
ORDER_EXEMPT = {
    'ARRAY_CONCAT_AGG': 'list building (Agg++): element order of List is exempt',
    'ANY_VALUE': 'any value of the group by definition',
}


def injective_sort_key(module, key):
  """sorted(.., key=k) is a total order on distinct elements when k's value
  contains the element itself (ties in the other components are broken by
  it)."""
  if key is None:
    return True
  d = dotted(key)
  if d in ('str', 'repr'):
    return True
  fn = None
  if isinstance(key, ast.Lambda):
    params = [a.arg for a in key.args.args]
    body = key.body
  elif d and d in module.funcs:
    fn = module.funcs[d].node
    params = [a.arg for a in fn.args.args]
    rets = [x for x in walk_local(fn) if isinstance(x, ast.Return)]
    if len(rets) != 1:
      return False
    body = rets[0].value
  else:
    return False
  if not params:
    return False
  p = params[0]
  if isinstance(body, ast.Name) and body.id == p:
    return True
  if isinstance(body, ast.Tuple):
    for e in body.elts:
      if isinstance(e, ast.Name) and e.id == p:
        return True
      if isinstance(e, ast.IfExp) and any(isinstance(z, ast.Name) and z.id == p
                                          for z in (e.body, e.orelse)):
        return True
  return False


def accumulator_attr(ci):
  """`self.<attr>` the aggregate accumulates in: self.result when there is
  one, else the single attribute the constructor initialises."""
  init = ci.methods.get('__init__')
  if init is None:
    return None
  attrs = [dotted(x.targets[0]) for x in walk_local(init.node) if isinstance(x, ast.Assign)
           and (dotted(x.targets[0]) or '').startswith('self.')]
  if 'self.result' in attrs:
    return 'self.result'
  return attrs[0] if len(set(attrs)) == 1 else None


def result_kind(ci):
  init = ci.methods.get('__init__')
  if init is None:
    return None
  acc = accumulator_attr(ci)
  for x in walk_local(init.node):
    if isinstance(x, ast.Assign) and acc and dotted(x.targets[0]) == acc:
      v = x.value
      if isinstance(v, ast.Call) and call_tail(v) in ('set', 'frozenset'):
        return 'set'
      if isinstance(v, (ast.Set, ast.SetComp)):
        return 'set'
      if isinstance(v, (ast.List, ast.ListComp)):
        return 'list'
      if isinstance(v, ast.Dict):
        return 'dict'
      return 'scalar'
  return None


def sanitised_uses(module, fi, attr='self.result'):
  """Every read of self.result in fi is wrapped in sorted(<it>[, injective
  key]) / min / max / sum / len / set, possibly through list()/reversed()."""
  par = _parents(fi.node)
  bad = []
  n = 0
  for x in walk_local(fi.node):
    if isinstance(x, ast.Attribute) and dotted(x) == attr and isinstance(x.ctx, ast.Load):
      n += 1
      p = par.get(x)
      node = x
      ok = False
      hops = 0
      while p is not None and hops < 6:
        hops += 1
        if (isinstance(p, ast.UnaryOp) and isinstance(p.op, ast.Not)) or \
            (isinstance(p, (ast.If, ast.While, ast.IfExp)) and p.test is node) or \
            isinstance(p, ast.BoolOp):
          ok = True                  # emptiness test: the same for every order
          break
        if isinstance(p, ast.Call) and node in p.args:
          t = call_tail(p)
          if t == 'sorted':
            ok = injective_sort_key(module, kwarg(p, 'key'))
            break
          if t in ('min', 'max', 'sum', 'len', 'set', 'frozenset', 'any', 'all'):
            ok = True
            break
          if t in ('list', 'tuple', 'reversed', 'iter'):
            node, p = p, par.get(p)
            continue
          break
        if isinstance(p, ast.comprehension) and p.iter is node:
          comp = par.get(p)
          node, p = comp, par.get(comp)
          continue
        break
      if not ok:
        bad.append(norm(par.get(x) if par.get(x) is not None else x, 70))
  return n, bad


def aggregate_order(chk, rid):
  repo = chk.repo
  m = repo.by_name('sqlite3_logica')
  reg = repo.func('sqlite3_logica.ExtendConnectionWithLogicaFunctions')
  aggs = []
  for c in tables.expand_calls(reg, ('create_aggregate',)):
    if len(c.args) >= 3:
      aggs.append((const_str(c.args[0]), dotted(c.args[2]), c))
  if len(aggs) < 4:
    raise AnalysisError('create_aggregate registrations not recognised')
  for sqlname, cname, node in aggs:
    if cname not in m.classes:
      raise AnalysisError('aggregate class %s not found' % cname)
    ci = repo.flat_class(m, cname)
    fin = ci.methods.get('finalize')
    step = ci.methods.get('step')
    if fin is None or step is None:
      raise AnalysisError('aggregate class %s lacks step/finalize' % cname)
    kind = result_kind(ci)
    if sqlname not in ORDER_EXEMPT:
      bad = data_truthiness(ci)
      # de-duplicate nested reports of the same operand
      seen = set()
      bad = [b for b in bad if not (b[2] in seen or seen.add(b[2]))]
      chk.ob(rid, not bad, None,
             'aggregate %s: no truthiness test on data values (0 and "" are values)' % sqlname,
             'step/finalize decide by the truthiness of %s: a row whose value '
             'is 0 (or an empty string) is treated as absent, so the result '
             'depends on where that row arrives' % ', '.join('`%s`' % b[2] for b in bad[:3]),
             fi=bad[0][0] if bad else step)
    if sqlname in ORDER_EXEMPT:
      chk.ob(rid, True, None, 'aggregate %s (%s) may depend on arrival order' % (sqlname, cname),
             ORDER_EXEMPT[sqlname], fi=fin, nontrivial=False)
      continue
    elements_unchanged(chk, rid, sqlname, ci, step, fin)
    acc = accumulator_attr(ci) or 'self.result'
    if kind == 'scalar':
      verdict, why = scalar_accumulator(chk.repo, ci, step, acc)
      if verdict is None:
        raise AnalysisError('aggregate %s: update of the scalar accumulator not understood (%s)'
                            % (sqlname, why))
      chk.ob(rid, verdict, None,
             'aggregate %s folds its rows with a commutative, associative operation' % sqlname,
             'the accumulator is updated by %s: the result depends on the order in which '
             'the rows arrive' % why, fi=step)
      continue
    if kind == 'list' and acc != 'self.result':
      n, bad = sanitised_uses(m, fin, acc)
      grows = [c for c in walk_local(step.node) if isinstance(c, ast.Call) and
               receiver(c) == acc and call_tail(c) not in ('append', 'extend')]
      chk.ob(rid, n > 0 and not bad and not grows, None,
             'aggregate %s: finalize reads the arrival-ordered list only through a total order' % sqlname,
             'rows are collected in arrival order and finalize returns them '
             'without sorting (%s)' % '; '.join(bad + [norm(g, 40) for g in grows]), fi=fin)
      continue
    if kind == 'set':
      n, bad = sanitised_uses(m, fin)
      chk.ob(rid, n > 0 and not bad, None,
             'aggregate %s: finalize reads the set self.result only through a total order' % sqlname,
             'finalize materialises the iteration order of a set (%s): the '
             'value of the aggregate depends on hash order / insertion history '
             'of its rows' % '; '.join(bad), fi=fin)
      # step may only add
      grows = [c for c in walk_local(step.node) if isinstance(c, ast.Call) and
               receiver(c) == 'self.result' and call_tail(c) not in ('add', 'update')]
      chk.ob(rid, not grows, None, 'aggregate %s: step only adds to the set' % sqlname,
             'step does %s' % [norm(g, 40) for g in grows], fi=step, nontrivial=False)
    elif kind == 'list':
      heap_discipline(chk, rid, m, sqlname, ci)
      n, bad = sanitised_uses(m, fin)
      chk.ob(rid, n > 0 and not bad, None,
             'aggregate %s: finalize reads the arrival-ordered list only through a total order' % sqlname,
             'rows are collected in arrival order and finalize returns them '
             'without sorting (%s)' % '; '.join(bad), fi=fin)
    else:
      chk.ob(rid, False, None, 'aggregate %s keeps an order-independent accumulator' % sqlname,
             'accumulator kind %s is not recognised as order independent and '
             'the aggregate is not among the exempt ones' % kind, fi=step)


def data_truthiness(ci, exempt_params=('self', 'limit')):
  """Truthiness tests on data values inside step/finalize: `if v`, `not v`,
  `a and b`, `a or b` where the operand is a step argument or an element read
  from the accumulator.  Zero, 0.0 and '' are values."""
  bad = []
  for mname in ('step', 'finalize'):
    fi = ci.methods.get(mname)
    if fi is None:
      continue
    data = set(p for p in fi.params if p not in exempt_params)
    changed = True
    while changed:
      changed = False
      for x in walk_local(fi.node):
        if isinstance(x, ast.Assign) and len(x.targets) == 1 and isinstance(x.targets[0], ast.Name):
          if x.targets[0].id not in data and _is_data(x.value, data):
            data.add(x.targets[0].id)
            changed = True

    def operands(e):
      if isinstance(e, ast.BoolOp):
        out = []
        for v in e.values:
          out += operands(v)
        return out
      if isinstance(e, ast.UnaryOp) and isinstance(e.op, ast.Not):
        return operands(e.operand)
      return [e]
    tests = []
    for x in walk_local(fi.node):
      if isinstance(x, (ast.If, ast.While)):
        tests.append(x.test)
      elif isinstance(x, ast.IfExp):
        tests.append(x.test)
      elif isinstance(x, ast.BoolOp):
        tests.append(x)
      elif isinstance(x, ast.UnaryOp) and isinstance(x.op, ast.Not):
        tests.append(x)
      elif isinstance(x, ast.Assert):
        tests.append(x.test)
    for t in tests:
      for o in operands(t):
        if isinstance(o, (ast.Compare, ast.Call, ast.Constant)):
          continue
        if _is_data(o, data, strict=True):
          bad.append((fi, o, norm(o, 50)))
  return bad


def truthiness_in_function(fn_node, params):
  """[(node, text)] truthiness tests on data in a scalar function: the
  operand of if / while / and / or / not / a comprehension filter is a
  parameter, a value computed from one, or an element of such a value."""
  data = set(params)
  changed = True
  body = fn_node.body if isinstance(fn_node.body, list) else [fn_node.body]
  nodes = [x for st in body for x in ast.walk(st)]

  def mentions(e):
    return any(isinstance(n, ast.Name) and n.id in data for n in ast.walk(e))
  while changed:
    changed = False
    for x in nodes:
      tg = None
      if isinstance(x, ast.Assign) and len(x.targets) == 1 and mentions(x.value):
        tg = x.targets[0]
      elif isinstance(x, (ast.For, ast.comprehension)) and mentions(x.iter):
        tg = x.target
      if tg is not None:
        for n in ast.walk(tg):
          if isinstance(n, ast.Name) and n.id not in data:
            data.add(n.id)
            changed = True

  def operands(e):
    if isinstance(e, ast.BoolOp):
      return [o for v in e.values for o in operands(v)]
    if isinstance(e, ast.UnaryOp) and isinstance(e.op, ast.Not):
      return operands(e.operand)
    return [e]
  tests = []
  for x in nodes:
    if isinstance(x, (ast.If, ast.While, ast.IfExp, ast.Assert)):
      tests.append(x.test)
    elif isinstance(x, ast.BoolOp):
      tests.append(x)
    elif isinstance(x, ast.UnaryOp) and isinstance(x.op, ast.Not):
      tests.append(x)
    elif isinstance(x, ast.comprehension):
      tests.extend(x.ifs)
  bad, seen = [], set()
  for t in tests:
    for o in operands(t):
      if isinstance(o, (ast.Compare, ast.Call, ast.Constant)):
        continue
      if _is_data(o, data, strict=True) and norm(o) not in seen:
        seen.add(norm(o))
        bad.append((o, norm(o, 50)))
  return bad


def _is_data(e, data, strict=False):
  """Expression denotes a data value: a data name, or an element read from
  self.result (self.result[i], self.result[i][j])."""
  if isinstance(e, ast.Name):
    return e.id in data
  if isinstance(e, ast.Subscript):
    b = e.value
    while isinstance(b, ast.Subscript):
      b = b.value
    return dotted(b) == 'self.result' or (isinstance(b, ast.Name) and b.id in data)
  if isinstance(e, ast.BoolOp) and not strict:
    return any(_is_data(v, data) for v in e.values)
  if isinstance(e, ast.IfExp) and not strict:
    return _is_data(e.body, data) or _is_data(e.orelse, data)
  return False


def heap_family(module, expr, depth=0):
  """{'min','max'} families a heap-primitive expression can denote, through
  module-level aliases, getattr(heapq, 'name', fallback) and `or`."""
  out = set()
  if depth > 4 or expr is None:
    return out
  d = dotted(expr)
  if d:
    tail = d.split('.')[-1]
    if d.startswith('heapq.') or tail.lstrip('_') in (
        'heapify', 'heapreplace', 'heappush', 'heappop', 'heappushpop',
        'heapify_max', 'heapreplace_max', 'heappop_max', 'heappush_max'):
      if d.startswith('heapq.') or '.' not in d:
        name = tail.lstrip('_')
        if name.startswith('heap'):
          out.add('max' if name.endswith('_max') else 'min')
          return out
    if '.' not in d:
      try:
        v = module.module_assign(d)
      except AnalysisError:
        return out
      return heap_family(module, v, depth + 1)
    return out
  if isinstance(expr, ast.BoolOp):
    for v in expr.values:
      out |= heap_family(module, v, depth + 1)
    return out
  if isinstance(expr, ast.IfExp):
    return heap_family(module, expr.body, depth + 1) | heap_family(module, expr.orelse, depth + 1)
  if isinstance(expr, ast.Call) and call_tail(expr) == 'getattr' and len(expr.args) >= 2:
    name = const_str(expr.args[1]) or ''
    if name.lstrip('_').startswith('heap'):
      out.add('max' if name.endswith('_max') else 'min')
    if len(expr.args) > 2:
      out |= heap_family(module, expr.args[2], depth + 1)
    return out
  return out


def heap_discipline(chk, rid, module, sqlname, ci):
  """A bounded K-best buffer: one heap family per class, the buffer is
  heapified (same family) before it is used as a heap, and the eviction test
  compares the root in the direction of that family."""
  step = ci.methods.get('step')
  uses = []     # (kind, families, call)
  for c in walk_local(step.node):
    if isinstance(c, ast.Call) and c.args and dotted(c.args[0]) == 'self.result':
      fam = heap_family(module, c.func)
      if fam:
        nm = (dotted(c.func) or '').split('.')[-1].lower()
        kind = 'heapify' if 'heapify' in nm else ('replace' if 'replace' in nm else 'other')
        if kind == 'other':
          # aliases: classify by what the alias resolves to
          try:
            src = norm(module.module_assign(dotted(c.func)), 200)
            kind = 'heapify' if 'heapify' in src else ('replace' if 'replace' in src else 'other')
          except AnalysisError:
            pass
        uses.append((kind, fam, c))
  if not uses:
    return
  fams = set()
  for k, f, c in uses:
    fams |= f
  chk.ob(rid, len(fams) == 1, None,
         'aggregate %s: all heap primitives belong to one family (%s-heap)' % (sqlname, '/'.join(sorted(fams))),
         'min-heap and max-heap primitives are mixed on the same buffer (%s): after '
         'the first eviction the buffer is ordered the wrong way and later rows '
         'evict the wrong element' % ', '.join(
             '%s -> %s' % (norm(c.func, 30), '/'.join(sorted(f))) for k, f, c in uses),
         fi=step)
  repl = [u for u in uses if u[0] == 'replace']
  heapify = [u for u in uses if u[0] == 'heapify']
  if repl:
    chk.ob(rid, bool(heapify), None,
           'aggregate %s: the buffer is heapified before heapreplace is used on it' % sqlname,
           'heapreplace is applied to a list that was never heapified: its '
           'first element is not the extreme one, so which row is evicted '
           'depends on arrival order', fi=step)
  # direction of the eviction test
  v = FnView.of(chk.repo, step)
  for k, f, c in repl:
    if len(f) != 1:
      continue
    fam = list(f)[0]
    n = [m for m, cc in v.all_calls() if cc is c]
    tests = []
    for e, val in (v.guards(n[0]) if n else []):
      if isinstance(e, ast.Compare) and len(e.ops) == 1 and 'self.result[0]' in norm(e):
        op = e.ops[0]
        root_left = 'self.result[0]' in norm(e.left)
        tests.append((type(op).__name__, root_left, val))
    ok = False
    for opn, root_left, val in tests:
      if not val:
        opn = {'Gt': 'LtE', 'Lt': 'GtE', 'GtE': 'Lt', 'LtE': 'Gt'}.get(opn, opn)
      if not root_left:
        opn = {'Gt': 'Lt', 'Lt': 'Gt', 'GtE': 'LtE', 'LtE': 'GtE'}.get(opn, opn)
      # max-heap keeps the K smallest: evict when root > value; min-heap: root < value
      if (fam == 'max' and opn in ('Gt',)) or (fam == 'min' and opn in ('Lt',)):
        ok = True
    chk.ob(rid, ok, None,
           'aggregate %s: eviction compares the %s-heap root in the matching direction' % (sqlname, fam),
           'the root of a %s-heap is replaced under the test %s: the buffer '
           'keeps the wrong K rows' % (fam, tests), fi=step, node=c)


def iterates_sorted(repo, fq, what):
  fi = repo.func(fq)
  for x in walk_local(fi.node):
    it = x.iter if isinstance(x, (ast.For, ast.comprehension)) else None
    if it is not None and isinstance(it, ast.Call) and call_tail(it) == 'sorted' \
        and it.args and what in norm(it.args[0]):
      return True
  return False


def fresh_names(chk, rid):
  """AllocateTable: the name returned is the name whose uniqueness was
  decided and the name recorded as taken (abstract interpretation: every
  path)."""
  from sa.absint import Const, Interp, State, Sym
  from sa import strshape
  repo = chk.repo
  fi = repo.func('rule_translate.NamesAllocator.AllocateTable')
  recorded = []

  def call(node, st, interp):
    t = call_tail(node)
    if t == 'add' and 'allocated_tables' in norm(node.func):
      st.effects.append(('taken', interp.value(node.args[0], st)))
      return Const(None)
    if t == 'join':
      return Sym('SUFFIX')
    return strshape.call_hook(node, st, interp)

  def compare(op, l, r, st):
    if isinstance(op, (ast.NotIn, ast.In)) and isinstance(r, Sym) and \
        r.text.endswith('allocated_tables'):
      st.effects.append(('tested', l, isinstance(op, ast.NotIn)))
    return NotImplemented

  def augassign(node, cur, v, st, interp):
    return NotImplemented
  it = Interp(fi.node, dict(call=call, compare=compare, expr=strshape.expr_hook,
                            loop=lambda n, s: 'once'))
  outs = [o for o in it.run(State(env={'hint_for_user': Sym('HINT')})) if o.kind == 'return']
  if not outs:
    raise AnalysisError('AllocateTable: no return path')
  n_bad = []
  for o in outs:
    ret = o.value
    taken = [e[1] for e in o.state.effects if e[0] == 'taken']
    tested = [e[1] for e in o.state.effects if e[0] == 'tested']
    rt = strshape.as_str(ret).text()
    same_taken = bool(taken) and strshape.as_str(taken[-1]).text() == rt
    numbered = 'table_num' in rt
    decided = numbered or any(strshape.as_str(t).text() == rt for t in tested)
    if not (same_taken and decided):
      n_bad.append('returns `%s`, recorded `%s`, uniqueness decided on `%s` (%s)' % (
          rt, [strshape.as_str(t).text() for t in taken],
          [strshape.as_str(t).text() for t in tested], '; '.join(o.state.trace)))
  chk.more_evaluations += len(outs)
  chk.ob(rid, not n_bad, None,
         'AllocateTable returns the name it tested / numbered and records exactly that name (%d paths)' % len(outs),
         'on a path %s: two tables of one query can get the same alias' % (n_bad[0] if n_bad else ''),
         fi=fi)
  av = repo.func('rule_translate.NamesAllocator.AllocateVar')
  inc = [x for x in walk_local(av.node) if isinstance(x, ast.AugAssign) and
         isinstance(x.op, ast.Add) and 'aux_var_num' in norm(x.target)]
  # the returned name is built from the counter (whatever the formatting idiom)
  avv = FnView(repo, 'rule_translate.NamesAllocator.AllocateVar')
  fmt = [r for n_, r in avv.returns() if r.value is not None and
         'aux_var_num' in norm(avv.expand(r.value), 1000)]
  chk.ob(rid, bool(inc) and bool(fmt), None, 'AllocateVar numbers variables with a counter it increments',
         'variable names can repeat', fi=av)


def run(chk):
  repo = chk.repo
  chk.rule('C07-R3', 'fresh names: every table alias handed out is unique in '
           'its compilation - the returned name is the one tested or '
           'numbered, and the one recorded', min_instances=2)
  fresh_names(chk, 'C07-R3')
  from rules.c02 import combine_disambiguation_total
  combine_disambiguation_total(chk, 'C07-R3')
  K.fresh_combine_names(chk, 'C07-R3')
  chk.rule('C07-R1', 'aggregate UDFs return the same value for every arrival '
           'order of their rows (List element order, ANY_VALUE and ties of '
           'ArgMin/ArgMax excepted)', min_instances=5)
  aggregate_order(chk, 'C07-R1')
  chk.rule('C07-R2', 'order-driven loops of the rule compiler draw from sorted '
           'sequences: next unnesting, GROUP BY keys, variable replacement',
           min_instances=3)
  fi = repo.func('rule_translate.RuleStructure.SortUnnestings')
  chk.ob('C07-R2', iterates_sorted(repo, 'rule_translate.RuleStructure.SortUnnestings', 'unnesting_of'),
         None, 'SortUnnestings picks the next unnesting from sorted(unnesting_of.items())',
         'the order of UNNEST clauses follows the textual order of conjuncts '
         'instead of dependency + name order', fi=fi)
  fi = repo.func('rule_translate.ReplaceVariable')
  ok = any(isinstance(x, ast.Assign) and isinstance(x.value, ast.Call) and
           call_tail(x.value) == 'sorted' and 'keys' in norm(x.value)
           for x in walk_local(fi.node))
  chk.ob('C07-R2', ok, None, 'ReplaceVariable visits dict members in sorted key order',
         'replacement order follows dict insertion order', fi=fi)
  fi = repo.func('rule_translate.ExtractRuleStructure')
  ok = any(isinstance(x, ast.Assign) and dotted(x.targets[0]) == 's.distinct_vars' and
           isinstance(x.value, ast.Call) and call_tail(x.value) == 'sorted'
           for x in walk_local(fi.node))
  chk.ob('C07-R2', ok, None, 'GROUP BY keys are sorted', 'GROUP BY follows set order', fi=fi)
  conjunct_translation_is_local(chk, 'C07-R2')
  reserved_prefix(chk, 'C07-R2')
  unfolding_anchor_from_annotated(chk, 'C07-R2')
  # UNION ALL keeps program order of rules: PredicateSql iterates GetPredicateRules
  fi = repo.func('universe.LogicaProgram.GetPredicateRules')
  ok = any(isinstance(x, ast.For) and dotted(x.iter) == 'self.rules' for x in walk_local(fi.node))
  chk.ob('C07-R2', ok, None, 'rules of a predicate are enumerated from the ordered rule list',
         'rule enumeration no longer follows self.rules', fi=fi)


def conjunct_translation_is_local(chk, rid):
  """Permuting conjuncts changes what the structure under construction holds
  when a given conjunct is reached, never the conjunct.  So the handlers of
  the conjunct kinds (Extract*Structure with the structure as a parameter)
  choose the translation from the conjunct alone: no test in them reads the
  structure (its fields, its methods, or a helper given the structure)."""
  repo = chk.repo
  m = repo.by_name('rule_translate')
  n = 0
  for q, fi in sorted(m.funcs.items()):
    if not q.startswith('Extract') or '.' in q or len(fi.params) != 2:
      continue
    sp = fi.params[1]
    n += 1
    bad = None
    for x in walk_local(fi.node):
      if not isinstance(x, (ast.If, ast.While, ast.IfExp, ast.Assert)):
        continue
      for y in ast.walk(x.test):
        if isinstance(y, ast.Attribute) and dotted(y.value) == sp and y.attr != 'allocator':
          bad = (x, norm(y, 40))
        elif isinstance(y, ast.Call) and any(dotted(a) == sp for a in y.args):
          bad = (x, norm(y, 40))
    chk.ob(rid, bad is None, None,
           '%s chooses the translation from the conjunct alone' % q,
           'a test reads the structure built from the conjuncts before it (`%s`): the '
           'same conjunct is translated differently depending on where it stands, so '
           'permuting conjuncts changes the SQL (and, where the forms differ in '
           'multiplicity, the rows)' % (bad[1] if bad else ''), fi=fi,
           node=bad[0] if bad else None)
  if n < 3:
    raise AnalysisError('conjunct handlers of rule_translate not recognised (%d)' % n)


def elements_unchanged(chk, rid, sqlname, ci, step, fin):
  """An aggregate that only collects its argument (step adds / appends the
  parameter itself to self.result) returns those very values: on the way to
  json.dumps they may be put in order or de-duplicated, never converted one by
  one (a per-element conversion such as decoding strings as JSON changes what
  `Set` / `List` of strings contain)."""
  params = [p_ for p_ in step.params if p_ != 'self']
  if len(params) != 1:
    return
  effects = [c for c in walk_local(step.node) if isinstance(c, ast.Call) and
             receiver(c) == 'self.result']
  if not effects or not all(call_tail(c) in ('add', 'append') and len(c.args) == 1 and
                            dotted(c.args[0]) == params[0] for c in effects):
    return
  v = FnView.of(chk.repo, fin)
  conv = None
  for n, r in v.returns():
    if r.value is None:
      continue
    e = v.expand(r.value, 3)
    for x in ast.walk(e):
      if isinstance(x, (ast.ListComp, ast.GeneratorExp, ast.SetComp)):
        tnames = {t_.id for g in x.generators for t_ in ast.walk(g.target) if isinstance(t_, ast.Name)}
        if not (isinstance(x.elt, ast.Name) and x.elt.id in tnames):
          conv = x.elt
      elif isinstance(x, ast.Call) and call_tail(x) == 'map':
        conv = x
  chk.ob(rid, conv is None, None,
         'aggregate %s returns the collected values themselves' % sqlname,
         'finalize converts each collected value (`%s`): a string that happens to read '
         'as a number, a boolean or JSON comes back as another value, so the result no '
         'longer contains its own inputs' % (norm(conv, 50) if conv is not None else ''),
         fi=fin, node=conv)


def reserved_prefix(chk, rid):
  """Consistently renaming a variable leaves the result unchanged only if no
  user-chosen name is treated specially.  The rule compiler treats EVERY name
  with a certain prefix as one of its own auxiliary variables
  (`startswith(<prefix>)` in rule_translate); so the parser must refuse every
  user variable with that prefix - the same `startswith` test, nothing
  narrower."""
  repo = chk.repo
  rt = repo.by_name('rule_translate')
  prefixes = set()
  for fi in rt.funcs.values():
    for c in walk_local(fi.node):
      if isinstance(c, ast.Call) and call_tail(c) == 'startswith' and c.args and \
          const_str(c.args[0]):
        prefixes.add(const_str(c.args[0]))
  alloc = FnView(repo, 'rule_translate.NamesAllocator.AllocateVar')
  made = {const_str(x.left).split('%')[0] for x in walk_local(alloc.fi.node)
          if isinstance(x, ast.BinOp) and isinstance(x.op, ast.Mod) and const_str(x.left)}
  made |= {x.values[0].value for x in walk_local(alloc.fi.node)
           if isinstance(x, ast.JoinedStr) and x.values and isinstance(x.values[0], ast.Constant)
           and isinstance(x.values[0].value, str)}
  made |= {const_str(x.func.value).split('{')[0] for x in walk_local(alloc.fi.node)
           if isinstance(x, ast.Call) and call_tail(x) == 'format' and
           isinstance(x.func, ast.Attribute) and const_str(x.func.value)}
  prefixes = {p_ for p_ in prefixes if any(m_.startswith(p_) for m_ in made)}
  if not prefixes:
    raise AnalysisError('rule_translate: prefix of compiler-internal variables not recognised')
  pv = FnView(repo, 'parse.ParseVariable')
  for pref in sorted(prefixes):
    ok = False
    for n, r in pv.raises():
      for e, val in pv.guards(n):
        if val and isinstance(e, ast.Call) and call_tail(e) == 'startswith' and e.args and \
            const_str(e.args[0]) is not None and pref.startswith(const_str(e.args[0])) and \
            const_str(e.args[0]):
          # the test stands alone: no other fact is needed for the raise
          hdr = [h for h, pol in pv.cfg.header_of(n)]
          tests = [pv.cfg.stmt[h].test for h in hdr if hasattr(pv.cfg.stmt[h], 'test')]
          ok = any(t_ is e for t_ in tests)
    chk.ob(rid, ok, None,
           "every user variable starting with '%s' is refused by the parser" % pref,
           "the rule compiler treats every name starting with '%s' as an auxiliary variable "
           "of its own, but ParseVariable does not refuse all such names: renaming a "
           "variable to one of them changes how it is eliminated / reported and thereby "
           "the rows" % pref, fi=pv.fi)


def scalar_accumulator(repo, ci, step, acc):
  """(True, '') when every update of the scalar accumulator folds the new value
  in with a commutative and associative operation (| & ^ max min, boolean
  or / and of bool(..) operands, a counter); (False, why) for an update that
  is order dependent by construction (overwrite, - / // %); (None, why) when
  the form is not one this rule knows."""
  v = FnView.of(repo, step)
  params = [p_ for p_ in step.params if p_ != 'self']
  ups = []
  for x in walk_local(step.node):
    if isinstance(x, ast.Assign) and dotted(x.targets[0]) == acc:
      ups.append(('=', v.expand(x.value, 3)))
    elif isinstance(x, ast.AugAssign) and dotted(x.target) == acc:
      ups.append((type(x.op).__name__, v.expand(x.value, 3)))
  if not ups:
    return None, 'no update found'

  def operand(e):
    """the accumulator, the new value, a constant - possibly through bool()/int()"""
    while isinstance(e, ast.Call) and call_tail(e) in ('bool', 'int') and len(e.args) == 1:
      e = e.args[0]
    if isinstance(e, ast.IfExp):
      return operand(e.body) and operand(e.orelse)
    return dotted(e) == acc or (isinstance(e, ast.Name) and e.id in params) or \
        isinstance(e, ast.Constant)

  def boolish(e):
    return isinstance(e, ast.Compare) or (isinstance(e, ast.Call) and call_tail(e) == 'bool'
                                          and len(e.args) == 1 and operand(e.args[0]))

  def fold(e):
    if isinstance(e, ast.IfExp):
      a_, b_ = fold(e.body), fold(e.orelse)
      if a_[0] is False or b_[0] is False:
        return a_ if a_[0] is False else b_
      if a_[0] is None or b_[0] is None:
        return a_ if a_[0] is None else b_
      return True, ''
    if isinstance(e, ast.Call) and call_tail(e) in ('int', 'bool') and len(e.args) == 1:
      return fold(e.args[0])
    if isinstance(e, ast.Constant):
      return True, ''
    if isinstance(e, ast.Name) and e.id in params:
      return True, ''               # first value (guarded by `is None` elsewhere) - judged below
    if dotted(e) == acc:
      return True, ''
    if isinstance(e, ast.BinOp):
      if isinstance(e.op, (ast.BitOr, ast.BitAnd, ast.BitXor)) and operand(e.left) and operand(e.right):
        return True, ''
      if isinstance(e.op, (ast.Sub, ast.Div, ast.FloorDiv, ast.Mod, ast.Pow, ast.LShift, ast.RShift)):
        return False, '`%s`' % norm(e, 40)
      return None, norm(e, 40)
    if isinstance(e, ast.Call) and call_tail(e) in ('max', 'min') and all(operand(a_) for a_ in e.args):
      return True, ''
    if isinstance(e, ast.BoolOp) and all(boolish(x_) for x_ in e.values):
      return True, ''
    return None, norm(e, 40)

  for op, e in ups:
    if op in ('BitOr', 'BitAnd', 'BitXor'):
      if not operand(e):
        return None, norm(e, 40)
      continue
    if op in ('Sub', 'Div', 'FloorDiv', 'Mod', 'Pow'):
      return False, 'an augmented `%s`' % op
    if op != '=':
      if op == 'Add' and isinstance(e, ast.Constant):
        continue                      # a counter
      return None, 'augmented %s' % op
    # a plain overwrite with the new value on a path where the accumulator is
    # already set is "last row wins"
    if isinstance(e, ast.Name) and e.id in params:
      return False, 'a plain overwrite with the new value (`%s = %s`)' % (acc, e.id)
    r_ = fold(e)
    if r_[0] is not True:
      return r_
  return True, ''


def unfolding_anchor_from_annotated(chk, rid):
  """Depth, stop and mode of a recursive component are read from the predicate
  chosen to unfold it.  When members of the component carry @Recursive the
  choice is made AMONG THEM (else the annotation is silently ignored and the
  result depends on which member sorts first, i.e. on predicate names)."""
  repo = chk.repo
  v = FnView(repo, 'functors.Functors.RecursiveAnalysis')
  assigns = []
  for n in v.cfg.stmt_nodes():
    st = v.cfg.stmt[n]
    if isinstance(st, ast.Assign) and len(st.targets) == 1 and dotted(st.targets[0]) == 'p' and \
        any(isinstance(l_, ast.For) and dotted(l_.iter) == 'cover' and
            any(y is st for y in ast.walk(l_)) for l_ in walk_local(v.fi.node)):
      assigns.append((n, st))
  if not assigns:
    raise AnalysisError('RecursiveAnalysis: choice of the unfolding predicate not recognised')
  bad = None
  for n, st in assigns:
    unannotated_only = any(
        ('deep' in norm(e, 100) or 'depth_map' in norm(e, 100)) and ((val is False and not isinstance(e, ast.UnaryOp)) or
                                    (val is True and isinstance(e, ast.UnaryOp)))
        for e, val in v.guards(n))
    if unannotated_only:
      continue
    e = v.expand(st.value, 3)
    sources = []
    for x in ast.walk(e):
      if isinstance(x, ast.Call) and call_tail(x) in ('min', 'max', 'sorted', 'next', 'iter', 'list') \
          and x.args and not isinstance(x.args[0], (ast.GeneratorExp, ast.ListComp)):
        sources.append(x.args[0])
      elif isinstance(x, (ast.GeneratorExp, ast.ListComp, ast.SetComp)):
        sources.append(x.generators[0].iter)
    top = [s_ for s_ in sources if not any(s_ is not o_ and any(y is s_ for y in ast.walk(o_))
                                           for o_ in sources)]
    # under `c & deep` (or unguarded with an IfExp / `or` fallback) every
    # source of candidates that is tried FIRST mentions the annotated set
    if isinstance(e, ast.IfExp) and ('deep' in norm(e.test, 100) or 'depth_map' in norm(e.test, 100)):
      continue
    def ann(s_):
      t_ = norm(s_, 200) + ' ' + norm(v.expand(s_, 3), 200)
      return 'deep' in t_ or 'depth_map' in t_
    firsts = [s_ for s_ in sources if not ann(s_)]
    annotated = [s_ for s_ in sources if ann(s_)]
    guarded_true = any(('deep' in norm(g_, 100) or 'depth_map' in norm(g_, 100)) and val
                       for g_, val in v.guards(n))
    def first_source(x):
      """the collection the FIRST candidate is drawn from"""
      if isinstance(x, ast.BoolOp) and isinstance(x.op, ast.Or):
        return first_source(x.values[0])
      if isinstance(x, ast.Subscript):
        return first_source(x.value)
      if isinstance(x, (ast.GeneratorExp, ast.ListComp, ast.SetComp)):
        return first_source(x.generators[0].iter)
      if isinstance(x, ast.Call) and call_tail(x) in ('min', 'max', 'sorted', 'next', 'iter',
                                                      'list', 'tuple', 'set', 'reversed') and x.args:
        return first_source(x.args[0])
      return x
    fs = first_source(e)
    if not ann(fs):
      bad = (st, fs)
  chk.ob(rid, bad is None, None,
         'the predicate that anchors the unfolding of a component is chosen among its '
         '@Recursive members when it has any',
         '`%s` draws the anchor from `%s`, not from the annotated members: @Recursive(P, depth) '
         'is ignored when another member of the cycle is preferred, and renaming predicates '
         'changes which annotation counts' % (
             norm(bad[0], 70) if bad else '', norm(bad[1], 40) if bad else ''),
         fi=v.fi, node=bad[0] if bad else None)
