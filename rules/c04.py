"""C04 - functor application is predicate substitution (structural clauses)."""

import ast

from sa.model import (AnalysisError, call_tail, const_str, dotted, kwarg, norm,
                      walk_local)
from sa.pathrules import FnView, receiver
from rules import common as K
from rules.c19 import expanded_idents, idents

CF = 'functors.Functors.CallFunctor'


def value_idents(view, expr, depth):
  """Identifiers the *value* of expr is built from (filters of
  comprehensions do not count), following local definitions."""
  out = set()

  def visit(e, d):
    for x in _walk_values(e):
      if isinstance(x, ast.Name):
        out.add(x.id)
        if d > 0:
          for df in view.assigned_from(x.id):
            if isinstance(df, tuple):
              df = df[2]
            if isinstance(df, ast.AST):
              visit(df, d - 1)
      elif isinstance(x, ast.Attribute):
        out.add(x.attr)
  visit(expr, depth)
  return out


def _walk_values(e):
  stack = [e]
  while stack:
    n = stack.pop()
    yield n
    if isinstance(n, (ast.ListComp, ast.SetComp, ast.GeneratorExp)):
      stack.append(n.elt)
      for g in n.generators:
        stack.append(g.iter)
      continue
    if isinstance(n, ast.DictComp):
      stack += [n.key, n.value] + [g.iter for g in n.generators]
      continue
    stack.extend(ast.iter_child_nodes(n))


def annotations_read_fresh_state(chk, rid):
  """Clones made by a functor application inherit @OrderBy / @Limit / @Ground /
  @NoInject / @Iteration of the predicate they copy.  CollectAnnotations must
  therefore read state that is recomputed as a whole after every application
  (UpdateStructure assigns it with a plain `self.x = ...`), not an index that
  is only patched for some predicates: the copies of an earlier application
  are predicates too, and the next application clones them again."""
  repo = chk.repo
  us = repo.func('functors.Functors.UpdateStructure')
  fresh = set()
  for x in walk_local(us.node):
    if isinstance(x, ast.Assign):
      for t in x.targets:
        d = dotted(t)
        if d and d.startswith('self.') and d.count('.') == 1:
          fresh.add(d[5:])
  ca = repo.func('functors.Functors.CollectAnnotations')
  reads = set()
  for x in walk_local(ca.node):
    if isinstance(x, ast.Attribute) and isinstance(x.value, ast.Name) and x.value.id == 'self' \
        and isinstance(x.ctx, ast.Load):
      reads.add(x.attr)
  cls = repo.by_name('functors').cls('Functors')
  # class-level constants (assigned in the class body, never through self) are not state
  consts = set()
  for st in cls.node.body:
    if isinstance(st, ast.Assign):
      consts |= {t.id for t in st.targets if isinstance(t, ast.Name)}
  for fi_ in cls.methods.values():
    for x in walk_local(fi_.node):
      if isinstance(x, (ast.Assign, ast.AugAssign)):
        for t in (x.targets if isinstance(x, ast.Assign) else [x.target]):
          d = dotted(t)
          if d and d.startswith('self.'):
            consts.discard(d[5:].split('.')[0])
  state = {a for a in reads if a not in cls.methods and a not in consts}
  if not state:
    raise AnalysisError('CollectAnnotations reads no state of Functors')
  stale = sorted(a for a in state if a not in fresh)
  chk.ob(rid, not stale, None,
         'CollectAnnotations reads only state that UpdateStructure recomputes after every application (%s)'
         % ', '.join(sorted(state)),
         'CollectAnnotations reads self.%s, which UpdateStructure does not '
         'recompute as a whole: annotations of predicates created by an earlier '
         'application are missing from it, so their copies lose @OrderBy / @Limit '
         '/ @Ground / @NoInject' % ', self.'.join(stale), fi=ca)


def run(chk):
  repo = chk.repo
  chk.rule('C04-R1', 'clone ownership: predicate renaming only touches deep '
           'copies (AllRulesOf / CollectAnnotations return deep copies; '
           'CallFunctor renames nothing else; F and its arguments keep their '
           'rules)', min_instances=6)
  for fq in ('functors.Functors.AllRulesOf', 'functors.Functors.CollectAnnotations'):
    fi = repo.func(fq)
    rets = [x for x in walk_local(fi.node) if isinstance(x, ast.Return)]
    if not rets:
      raise AnalysisError('%s has no return' % fq)
    for r in rets:
      fresh = isinstance(r.value, ast.Call) and call_tail(r.value) == 'deepcopy'
      if isinstance(r.value, (ast.List, ast.Dict)) and not (
          r.value.elts if isinstance(r.value, ast.List) else r.value.keys):
        fresh = True         # a new empty container shares nothing
      if isinstance(r.value, ast.Name):
        # returning the still empty accumulator is fine
        defs = [x.value for x in walk_local(fi.node) if isinstance(x, ast.Assign)
                and dotted(x.targets[0]) == r.value.id]
        grown = [c for c in walk_local(fi.node) if isinstance(c, ast.Call) and
                 call_tail(c) in ('append', 'extend') and receiver(c) == r.value.id
                 and c.lineno < r.lineno]
        fresh = all(isinstance(d, ast.List) and not d.elts for d in defs) and not grown
      chk.ob('C04-R1', fresh, None, '%s returns a deep copy' % fq.split('.')[-1],
             'the rules handed to CallFunctor are the very objects that define '
             'F and its arguments: renaming rewrites them in place', fi=fi, node=r)
  v = FnView(repo, CF)
  walks = [(n, c) for n, c in v.all_calls() if call_tail(c) == 'Walk']
  if not walks:
    raise AnalysisError('CallFunctor: renaming Walk not found')
  def element_of_clones(a_):
    """the appended value is the variable of a loop over `rules` / over
    what AllRulesOf returned"""
    if dotted(a_) == 'r':
      return True
    for l_ in walk_local(v.fi.node):
      if isinstance(l_, ast.For) and isinstance(l_.target, ast.Name) and \
          dotted(a_) == l_.target.id:
        it_ = v.expand(l_.iter, 3)
        if dotted(l_.iter) == 'rules' or (
            isinstance(it_, ast.Call) and
            'functors.Functors.AllRulesOf' in repo.resolve(v.fi, it_)) or \
            'AllRulesOf(' in norm(it_, 200):
          return True
    return False
  srcs = v.assigned_from('rules')
  ok_src = True
  for s in srcs:
    if isinstance(s, ast.Call):
      ok_src = ok_src and 'functors.Functors.AllRulesOf' in repo.resolve(v.fi, s)
    elif isinstance(s, ast.ListComp):
      ok_src = ok_src and all(
          dotted(g.iter) == 'rules' or (
              isinstance(g.iter, ast.Call) and
              'functors.Functors.AllRulesOf' in repo.resolve(v.fi, g.iter))
          for g in s.generators) and isinstance(s.elt, ast.Name) and \
          s.elt.id in {t.id for g in s.generators for t in ast.walk(g.target)
                       if isinstance(t, ast.Name)}
    elif isinstance(s, ast.Name):
      # rules_to_update: filled only with elements of `rules`
      apps = [c for n, c in v.all_calls() if call_tail(c) == 'append' and receiver(c) == s.id]
      ok_src = ok_src and bool(apps) and all(element_of_clones(c.args[0]) for c in apps)
    elif isinstance(s, ast.List) and not s.elts:
      # rules = [] filled by appends: every appended value is one of the clones
      apps = [c for n, c in v.all_calls() if call_tail(c) == 'append' and receiver(c) == 'rules']
      ok_src = ok_src and bool(apps) and all(element_of_clones(c.args[0]) for c in apps)
    else:
      ok_src = False
  for n, c in walks:
    tgt = dotted(c.args[0]) if c.args else None
    chk.ob('C04-R1', tgt == 'rules' and ok_src, None,
           'the renaming walk runs over clones obtained from AllRulesOf',
           'Walk(%s, ..) renames objects that do not (only) come from '
           'AllRulesOf/CollectAnnotations' % tgt, fi=v.fi, node=c)
  # every rule of a predicate that depends on a substituted argument is cloned
  from sa.absint import Interp, State, Sym, Const

  class Dep(object):
    key = 'depends-on-an-argument'
  sel = [x for x in walk_local(v.fi.node) if isinstance(x, ast.ListComp) and
         any('args_of' in norm(i) for g in x.generators for i in g.ifs)]
  loop_sel = []
  if not sel:
    # the same selection written as a loop with appends: one production per
    # append, selected under the conditions on its path (if / elif)
    from sa import shapes
    lists = {x.targets[0].id for x in walk_local(v.fi.node) if isinstance(x, ast.Assign) and
             len(x.targets) == 1 and isinstance(x.targets[0], ast.Name) and
             isinstance(x.value, ast.List) and not x.value.elts}
    for pr_ in shapes.productions(v.fi.node, extra=lists):
      if pr_.kind == 'append' and any('args_of' in norm(c_, 200) for c_ in pr_.conds) and \
          any('AllRulesOf' in norm(v.expand(it_, 3), 200) for _, it_ in pr_.gens):
        loop_sel.append(pr_)
    ast.fix_missing_locations(v.fi.node)
  if not sel and not loop_sel:
    raise AnalysisError('CallFunctor: selection of the rules to clone not recognised')
  class _LC(object):
    pass
  if loop_sel:
    # the element is selected when ANY of its appends is reached
    lc_ = _LC()
    alts = [c_[0] if len(c_) == 1 else ast.BoolOp(op=ast.And(), values=list(c_))
            for c_ in (pr_.conds for pr_ in loop_sel)]
    lc_.ifs = [alts[0] if len(alts) == 1 else ast.BoolOp(op=ast.Or(), values=alts)]
    lc_.node = loop_sel[0].node
    sel.append(lc_)
  for lc in sel:
    cond = lc.generators[0].ifs if isinstance(lc, ast.ListComp) else lc.ifs
    test = cond[0] if len(cond) == 1 else ast.BoolOp(op=ast.And(), values=list(cond))

    def expr(node, st, interp):
      if isinstance(node, ast.BinOp) and isinstance(node.op, ast.BitAnd) and \
          'args_of' in norm(node) and (
              'args' in {n.id for n in ast.walk(node) if isinstance(n, ast.Name)} or
              any(isinstance(side, ast.Name) and 'args_map' in norm(v.expand_flow(side, 3), 100)
                  for side in (node.left, node.right))):
        return Dep()
      return NotImplemented

    def truth(val, st):
      if isinstance(val, Dep):
        return True
      return NotImplemented
    it = Interp(v.fi.node, dict(expr=expr, truth=truth))
    outcomes = sorted({t for t, st2 in it.cond(test, State())})
    chk.ob('C04-R1', outcomes == [True], None,
           'a rule whose predicate depends on a substituted argument is always selected for cloning',
           'the selection `%s` can reject a predicate that depends on a substituted '
           'argument: it is not re-created, so the made predicate keeps reading the '
           'original argument through it' % norm(test, 90), fi=v.fi,
           node=lc if isinstance(lc, ast.ListComp) else lc.node)
  shared = []
  for x in walk_local(v.fi.node):
    if isinstance(x, ast.Attribute) and dotted(x) in ('self.rules_of', 'self.rules') \
        and isinstance(x.ctx, ast.Load):
      shared.append(x)
  chk.ob('C04-R1', not shared, None, 'CallFunctor does not touch the shared rule index',
         'CallFunctor reads %s directly: objects of the original program can '
         'enter the renamed set' % ', '.join(sorted({dotted(s) for s in shared})), fi=v.fi)
  ext = [(n, c) for n, c in v.all_calls() if call_tail(c) == 'extend' and
         receiver(c) == 'self.extended_rules']
  ok = bool(ext) and all(dotted(c.args[0]) == 'rules' for n, c in ext) and all(
      v.precedes(walks, e) for e in ext)
  chk.ob('C04-R1', ok, None, 'renamed clones are added to extended_rules after renaming',
         'clones are published before (or without) being renamed', fi=v.fi)
  us = v.calls('functors.Functors.UpdateStructure')
  ok = bool(us) and all(v.precedes(ext, u) for u in us) and \
      v.cfg.must_pass_after(ext[0][0], v.nodes_of(us)) if ext else False
  chk.ob('C04-R1', ok, None, 'argument maps are rebuilt after every application',
         'args_of / rules_of are stale after a functor application: later '
         'applications clone the wrong set of predicates', fi=v.fi)

  # the cache of transitive arguments (args_of) decides which predicates are
  # cloned by the next application: after an application it is dropped for
  # every predicate whose cached set mentions the new predicate - not only for
  # its direct users
  us = FnView(repo, 'functors.Functors.UpdateStructure')
  new_p = [p_ for p_ in us.fi.params if p_ != 'self'][0]
  inval = []
  whole = False
  for n in us.cfg.stmt_nodes():
    st = us.cfg.stmt[n]
    if isinstance(st, ast.Delete) and any('args_of' in norm(t) and 'direct' not in norm(t)
                                          for t in st.targets):
      inval.append(n)
    elif isinstance(st, ast.Expr) and isinstance(st.value, ast.Call) and \
        call_tail(st.value) in ('pop', 'clear') and (receiver(st.value) or '').endswith('.args_of'):
      if call_tail(st.value) == 'clear':
        whole = True
      inval.append(n)
    elif isinstance(st, ast.Assign) and dotted(st.targets[0]) == 'self.args_of' and \
        isinstance(st.value, ast.Dict) and not st.value.keys:
      whole = True
      inval.append(n)
  if not inval:
    raise AnalysisError('UpdateStructure: invalidation of args_of not found')

  def provenance(name_node_id, ctx_nodes):
    """text of what the container tested for membership is drawn from."""
    for x in ctx_nodes:
      tg, it = None, None
      if isinstance(x, (ast.For, ast.comprehension)):
        tg, it = x.target, x.iter
      if tg is not None and any(isinstance(t, ast.Name) and t.id == name_node_id for t in ast.walk(tg)):
        return us.deep_text(us.expand(it))
    return ''
  ok = whole
  why = 'no membership test of the new predicate selects what is invalidated'
  all_nodes = list(walk_local(us.fi.node))
  for x in all_nodes:
    if isinstance(x, ast.Compare) and len(x.ops) == 1 and isinstance(x.ops[0], ast.In) and \
        dotted(x.left) == new_p:
      c = x.comparators[0]
      text = us.deep_text(us.expand(c))
      if isinstance(c, ast.Name):
        text += ' ' + provenance(c.id, all_nodes)
      if 'direct_args_of' in text:
        ok, why = False, ('only predicates that call the new predicate directly are '
                          'invalidated (`%s` over direct_args_of)' % norm(x, 50))
        break
      if 'args_of' in text:
        ok = True
  chk.ob('C04-R1', ok, None,
         'after an application the cached transitive arguments of every predicate that reaches the new predicate are dropped',
         '%s: a predicate that reaches the functor value through an intermediate '
         'predicate keeps a stale argument set, and the next application does not '
         'clone what lies below it' % why, fi=us.fi)

  annotations_read_fresh_state(chk, 'C04-R1')
  K.dependency_walk_total(chk, 'C04-R1')

  chk.rule('C04-R2', 'call cache: the key depends on the functor and on keys '
           'and values of exactly the relevant bindings (sorted); the cache is '
           'consulted and filled only with that key', min_instances=5)
  ck = FnView(repo, 'functors.Functors.CallKey')
  rets = [r for n, r in ck.returns()]
  if len(rets) != 1:
    raise AnalysisError('CallKey: expected one return')
  ids = expanded_idents(ck, rets[0].value, depth=4)
  vids = value_idents(ck, rets[0].value, 4)
  for need, why in (('functor', 'two different functors share a cache entry'),
                    ('args_map', 'the bindings do not enter the key: applications '
                     'with different bindings share a result'),
                    ('ArgsOf', 'irrelevant bindings enter the key (or relevant '
                     'ones are dropped)'),
                    ('sorted', 'the key depends on dict order of the bindings')):
    have = need in (vids if need in ('functor', 'args_map') else ids)
    if need == 'sorted' and not have:
      # the bindings may also be put in order with list.sort()
      have = any(isinstance(c, ast.Call) and call_tail(c) == 'sort' and not c.args and
                 not [k for k in c.keywords if k.arg == 'key']
                 for c in walk_local(ck.fi.node))
    chk.ob('C04-R2', have, None, 'cache key depends on %s' % need, why, fi=ck.fi)
  # every binding enters the key with its name AND its value: some
  # comprehension over <bindings>.items() keeps both components of the pair
  pair_ok = True
  n_pairs = 0
  for x in walk_local(ck.fi.node):
    if isinstance(x, (ast.GeneratorExp, ast.ListComp, ast.DictComp, ast.SetComp)):
      g = x.generators[0]
      if isinstance(g.target, ast.Tuple) and len(g.target.elts) == 2 and 'items' in norm(g.iter):
        n_pairs += 1
        names = {e.id for e in g.target.elts if isinstance(e, ast.Name)}
        parts = [x.key, x.value] if isinstance(x, ast.DictComp) else [x.elt]
        used = {y.id for p_ in parts for y in ast.walk(p_) if isinstance(y, ast.Name)}
        if not names <= used:
          pair_ok = False
  pair_ok = pair_ok and n_pairs > 0
  chk.ob('C04-R2', pair_ok, None, 'both the argument name and its value enter the key',
         'only names (or only values) of the bindings are part of the key: '
         'F(A: B) and F(A: C) share a result', fi=ck.fi)
  # ... and of EXACTLY the relevant ones: the only condition under which a
  # binding is left out of the key is that the functor does not depend on it
  extra = None
  n_filters = 0
  for x in walk_local(ck.fi.node):
    if isinstance(x, (ast.GeneratorExp, ast.ListComp, ast.DictComp, ast.SetComp)):
      for g in x.generators:
        for cond in g.ifs:
          n_filters += 1
          t_ = ck.expand(cond, 3)
          relevance = isinstance(t_, ast.Compare) and len(t_.ops) == 1 and \
              isinstance(t_.ops[0], ast.In) and any(
                  isinstance(c, ast.Call) and call_tail(c) == 'ArgsOf' and c.args and
                  dotted(c.args[0]) == 'functor' for c in ast.walk(t_.comparators[0]))
          if not relevance:
            extra = cond
  if not n_filters:
    raise AnalysisError('CallKey: the relevance filter of the bindings is not recognised')
  chk.ob('C04-R2', extra is None, None,
         'a binding is left out of the key only when the functor does not depend on it',
         'bindings are also dropped from the key under `%s`: two applications that '
         'differ only in such a binding share one instantiation'
         % (norm(extra, 60) if extra is not None else ''), fi=ck.fi, node=extra)
  keyname = None
  for x in walk_local(v.fi.node):
    if isinstance(x, ast.Assign) and isinstance(x.value, ast.Call) and \
        'functors.Functors.CallKey' in repo.resolve(v.fi, x.value):
      keyname = dotted(x.targets[0])
      full = len(x.value.args) > 1 and dotted(x.value.args[1]) == 'args_map'
      chk.ob('C04-R2', full, None, 'CallKey is computed from the bindings of this application',
             'key is computed from %s' % norm(x.value, 60), fi=v.fi, node=x)
  if keyname is None:
    raise AnalysisError('CallFunctor: CallKey call not found')
  bad = []
  for x in walk_local(v.fi.node):
    if isinstance(x, ast.Subscript) and dotted(x.value) in ('self.cached_calls', 'cache_update'):
      if dotted(x.slice) != keyname:
        bad.append(norm(x))
    if isinstance(x, ast.Compare) and dotted(x.comparators[0]) == 'self.cached_calls':
      if dotted(x.left) != keyname:
        bad.append(norm(x))
  chk.ob('C04-R2', not bad, None, 'cached_calls is indexed only by the CallKey',
         'cache accessed as %s' % bad, fi=v.fi)

  chk.rule('C04-R3', 'dependency-ordered @Make: an instruction is built only '
           'when applicant, its transitive arguments and the argument values '
           'are built; lack of progress is a FunctorError', min_instances=5)
  m = FnView(repo, 'functors.Functors.MakeAll')
  makes = m.need_calls('functors.Functors.Make')
  for n, c in makes:
    facts = [(e, val) for e, val in m.guards(n)]
    false_ids = [idents(e) for e, val in facts if not val]
    def has(*names):
      return any(set(names) <= s for s in false_ids)
    chk.ob('C04-R3', has('applicant', 'needs_building'), None,
           'Make only when the applicant is built',
           'a functor is applied to a predicate that is itself still to be made',
           fi=m.fi, node=c)
    chk.ob('C04-R3', has('args_of', 'applicant', 'needs_building'), None,
           'Make only when every predicate the applicant depends on is built',
           'the applicant is cloned before predicates it is built from exist',
           fi=m.fi, node=c)
    chk.ob('C04-R3', has('args_map', 'needs_building'), None,
           'Make only when the argument values are built',
           'a predicate is bound as argument before it is made', fi=m.fi, node=c)
    rm = [(n2, c2) for n2, c2 in m.all_calls() if call_tail(c2) in ('remove', 'discard')
          and receiver(c2) == 'needs_building']
    chk.ob('C04-R3', bool(rm) and m.follows((n, c), rm), None,
           'a built predicate leaves needs_building',
           'the loop never makes progress', fi=m.fi, node=c)
  rs = [(n, r) for n, r in m.raises()]
  ok = False
  for n, r in rs:
    ids2 = set()
    for e, val in m.guards(n):
      ids2 |= idents(e)
    if {'needs_building', 'something_built'} <= ids2:
      ok = True
  chk.ob('C04-R3', ok, None, 'no progress raises FunctorError',
         'a cyclic @Make order loops forever instead of being diagnosed', fi=m.fi)
  loops = [x for x in walk_local(m.fi.node) if isinstance(x, ast.For) and
           'predicate_to_instruction' in norm(x.iter)]
  ok = any(isinstance(l.iter, ast.Call) and call_tail(l.iter) == 'sorted' for l in loops)
  chk.ob('C04-R3', ok, None, 'instructions are visited in sorted order',
         'clone numbering (_fN) depends on annotation order', fi=m.fi)
  # bad arguments are diagnosed before anything is cloned
  bad_raise = [n for n, r in v.raises() if any(
      {'args_map', 'args_of'} <= expanded_idents(v, e) for e, val in v.guards(n) if val)]
  cl = v.calls('functors.Functors.AllRulesOf')
  ok = bool(bad_raise) and bool(cl) and all(
      v.cfg.must_pass_before(c[0], [h for h, pol in v.cfg.header_of(bad_raise[0])])
      for c in cl)
  chk.ob('C04-R3', ok, None, 'arguments the functor does not depend on are rejected before cloning',
         'a functor applied to a predicate it does not depend on is silently accepted',
         fi=v.fi)
