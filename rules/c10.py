"""C10 - string literals and flag values are data, never SQL."""

import ast
import itertools
import json

from sa.absint import Const, Interp, State, Sym
from sa.model import (AnalysisError, call_tail, const_str, dotted, kwarg, norm,
                      walk_local)
from sa.pathrules import FnView, receiver
from sa import sqllex, tables, templates
from rules import common as K

ALPHABET = ["'", '"', '\\', '\n', '\t', '%', '{', '}', '$', '-', '/', '*', ';',
            'a', 'é']
MAXLEN = 3


# ---------------------------------------------------------------------------
# R1: sanitiser adequacy per dialect


class Transformer(object):
  """Data extracted from one branch of QL.StrLiteral."""

  def __init__(self, kind, prefix='', suffix='', replaces=(), node=None):
    self.kind = kind            # 'replace-chain' | 'json'
    self.prefix = prefix
    self.suffix = suffix
    self.replaces = list(replaces)
    self.node = node

  def apply(self, s):
    if self.kind == 'json':
      return json.dumps(s, ensure_ascii=self.ensure_ascii)
    for old, new in self.replaces:
      s = s.replace(old, new)
    return self.prefix + s + self.suffix

  def describe(self):
    if self.kind == 'json':
      return 'json.dumps(s, ensure_ascii=%s)' % self.ensure_ascii
    return '%r + s%s + %r' % (self.prefix, ''.join(
        '.replace(%r, %r)' % r for r in self.replaces), self.suffix)


def extract_transformer(expr):
  """Turn the returned expression of a StrLiteral branch into data."""
  if isinstance(expr, ast.Call) and call_tail(expr) == 'dumps':
    t = Transformer('json', node=expr)
    ea = kwarg(expr, 'ensure_ascii')
    t.ensure_ascii = True if ea is None else bool(getattr(ea, 'value', True))
    if not expr.args or not _is_payload(expr.args[0]):
      raise AnalysisError('StrLiteral: json.dumps of %s' % norm(expr.args[0] if expr.args else expr))
    return t
  if isinstance(expr, ast.BinOp) and isinstance(expr.op, ast.Mod) and const_str(expr.left) is not None:
    tpl = const_str(expr.left)
    specs = templates.percent_specs(tpl)
    if specs != [('s', None)]:
      raise AnalysisError('StrLiteral template %r is not a one-%%s template' % tpl)
    i = tpl.index('%s')
    prefix, suffix = tpl[:i].replace('%%', '%'), tpl[i + 2:].replace('%%', '%')
    right = expr.right
    if isinstance(right, ast.Tuple) and len(right.elts) == 1:
      right = right.elts[0]
    return Transformer('replace-chain', prefix, suffix, _chain(right), expr)
  if isinstance(expr, ast.BinOp) and isinstance(expr.op, ast.Add):
    # 'q' + chain + 'q'
    parts = _flatten_add(expr)
    if len(parts) == 3 and const_str(parts[0]) is not None and const_str(parts[2]) is not None:
      return Transformer('replace-chain', const_str(parts[0]), const_str(parts[2]),
                         _chain(parts[1]), expr)
  if isinstance(expr, ast.JoinedStr):
    prefix, suffix, mid = '', '', None
    for v in expr.values:
      if isinstance(v, ast.Constant):
        if mid is None:
          prefix += v.value
        else:
          suffix += v.value
      elif mid is None:
        mid = v.value
      else:
        raise AnalysisError('StrLiteral f-string with several holes')
    if mid is not None:
      return Transformer('replace-chain', prefix, suffix, _chain(mid), expr)
  raise AnalysisError('StrLiteral: unrecognised literal construction %s' % norm(expr, 80))


def _flatten_add(e):
  if isinstance(e, ast.BinOp) and isinstance(e.op, ast.Add):
    return _flatten_add(e.left) + _flatten_add(e.right)
  return [e]


def _is_payload(e):
  return isinstance(e, ast.Subscript) and const_str(e.slice) == 'the_string'


def _chain(e):
  reps = []
  while isinstance(e, ast.Call) and call_tail(e) == 'replace' and \
      isinstance(e.func, ast.Attribute) and len(e.args) == 2:
    old, new = const_str(e.args[0]), const_str(e.args[1])
    if old is None or new is None:
      raise AnalysisError('StrLiteral: non-constant replace arguments')
    reps.append((old, new))
    e = e.func.value
  if not _is_payload(e):
    raise AnalysisError('StrLiteral: transformation of %s, not of the payload' % norm(e, 60))
  reps.reverse()
  return reps


class Payload(object):
  """the characters of the literal after a chain of .replace calls."""

  def __init__(self, reps=()):
    self.reps = tuple(reps)
    self.key = 'payload'

  def __repr__(self):
    return 'Payload(%r)' % (self.reps,)


class Wrapped(object):
  def __init__(self, prefix, payload, suffix):
    self.prefix, self.payload, self.suffix = prefix, payload, suffix
    self.key = 'wrapped'

  def __repr__(self):
    return 'Wrapped(%r, %r, %r)' % (self.prefix, self.payload, self.suffix)


class JsonOf(object):
  def __init__(self, payload, ensure_ascii):
    self.payload, self.ensure_ascii = payload, ensure_ascii
    self.key = 'json'

  def __repr__(self):
    return 'JsonOf(%r, %r)' % (self.payload, self.ensure_ascii)


def strliteral_transformer(repo, dialect_name):
  """What QL.StrLiteral does to the characters of a literal for one dialect,
  as data: abstract interpretation of StrLiteral with self.dialect.Name() =
  dialect_name.  The payload `literal['the_string']` is followed through
  .replace chains, loops over constant character lists (unrolled), `%` / `+` /
  f-string wrapping and json.dumps - also when some of it lives in helper
  functions or in a method of the dialect class (interpreted in place)."""
  fi = repo.func('expr_translate.QL.StrLiteral')
  mods = [repo.by_name('expr_translate'), repo.by_name('dialects')]

  def helper(node):
    if isinstance(node.func, ast.Name):
      c = [m.funcs[node.func.id] for m in mods
           if node.func.id in m.funcs and m.funcs[node.func.id].parent is None
           and m.funcs[node.func.id].cls is None]
      return c[0] if len(c) == 1 else None
    if isinstance(node.func, ast.Attribute):
      if 'dialect' in (dotted(node.func.value) or ''):
        # a method of the dialect object: the one THIS dialect's class has
        dm = repo.by_name('dialects')
        for eng_, cls_ in templates.dialect_classes(repo).items():
          nm_, _ = templates.dialect_const(repo, cls_, 'Name')
          if nm_ == dialect_name:
            got = repo.lookup_method(dm, cls_, node.func.attr)
            if got is not None:
              return got
      c = [f for f in repo.method_index().get(node.func.attr, []) if f.module in mods]
      return c[0] if len(c) == 1 else None
    return None

  def func_named(name):
    c = [m.funcs[name] for m in mods if name in m.funcs and m.funcs[name].parent is None
         and m.funcs[name].cls is None]
    return c[0] if len(c) == 1 else None

  def table_lookup(table_expr, key, default, st, interp):
    """D[key] / D.get(key, default) for a literal dict D of the code whose
    values are functions: the function that renders this dialect."""
    try:
      entries = dict(tables.dict_entries(table_expr))
    except AnalysisError:
      return None
    if not isinstance(key, Const):
      return None
    v = entries.get(key.v)
    if v is None:
      return interp.value(default, st) if default is not None else None
    return interp.value(v, st)

  def call(node, st, interp):
    t = call_tail(node)
    if t == 'Name' and 'dialect' in (receiver(node) or ''):
      return Const(dialect_name)
    args = [interp.value(a, st) for a in node.args]
    if t == 'get' and isinstance(node.func, ast.Attribute) and args:
      got = table_lookup(node.func.value, args[0], node.args[1] if len(node.args) > 1 else None,
                         st, interp)
      if got is not None:
        return got
    # a call through a local that holds one of the module's functions
    if isinstance(node.func, ast.Name):
      held = st.env.get(node.func.id)
      if isinstance(held, Sym) and func_named(held.text) is not None and \
          any(isinstance(a, (Payload, Wrapped)) for a in args):
        h = func_named(held.text)
        params = list(h.params)
        env = dict(zip(params, args))
        return interp.inline(h.node, env, st, depth_limit=4)
    if t == 'replace' and isinstance(node.func, ast.Attribute) and len(args) == 2:
      recv = interp.value(node.func.value, st)
      if isinstance(recv, Payload) and all(isinstance(a, Const) and isinstance(a.v, str) for a in args):
        return Payload(recv.reps + ((args[0].v, args[1].v),))
      if isinstance(recv, (Payload, Wrapped, JsonOf)):
        raise AnalysisError('StrLiteral: replace with non-constant arguments / on wrapped text')
    if t == 'str' and len(args) == 1 and isinstance(args[0], Payload):
      return args[0]
    if t == 'dumps' and args and isinstance(args[0], Payload):
      ea = kwarg(node, 'ensure_ascii')
      return JsonOf(args[0], True if ea is None else bool(getattr(ea, 'value', True)))
    if t in ('replace', 'dumps', 'str', 'Name'):
      return NotImplemented
    h = helper(node)
    if h is not None and h is not fi and any(isinstance(a, (Payload, Wrapped)) for a in args):
      params = [p_ for p_ in h.params if p_ not in ('self', 'cls')]
      env = dict(zip(params, args))
      for k in node.keywords:
        if k.arg in params:
          env[k.arg] = interp.value(k.value, st)
      # defaults
      a_ = h.node.args
      names = [x.arg for x in a_.args]
      for name_, d in zip(names[len(names) - len(a_.defaults):], a_.defaults):
        if name_ not in env and name_ in params:
          env[name_] = interp.value(d, st)
      for p_ in h.params:
        env.setdefault(p_, Sym(p_))
      return interp.inline(h.node, env, st, depth_limit=4)
    return NotImplemented

  def wrap(parts):
    """parts: list of str / Payload / Wrapped -> Wrapped or None."""
    prefix, mid, suffix = '', None, ''
    for x in parts:
      if isinstance(x, str):
        if mid is None:
          prefix += x
        else:
          suffix += x
      elif mid is None and isinstance(x, Payload):
        mid = x
      elif mid is None and isinstance(x, Wrapped):
        prefix, mid, suffix = prefix + x.prefix, x.payload, x.suffix
      else:
        return None
    return Wrapped(prefix, mid, suffix) if mid is not None else None

  def expr(node, st, interp):
    if isinstance(node, ast.Subscript) and isinstance(node.value, ast.Name) and \
        node.value.id not in st.env:
      got = table_lookup(node.value, interp.value(node.slice, st), None, st, interp)
      if got is not None:
        return got
    if isinstance(node, ast.Subscript) and const_str(node.slice) == 'the_string':
      base = interp.value(node.value, st)
      if isinstance(base, Sym):
        return Payload(())
    if isinstance(node, ast.BinOp) and isinstance(node.op, ast.Mod):
      l = interp.value(node.left, st)
      r = interp.value(node.right, st)
      if isinstance(r, tuple) and len(r) == 1:
        r = r[0]
      if isinstance(l, Const) and isinstance(l.v, str) and isinstance(r, (Payload, Wrapped)):
        if templates.percent_specs(l.v) != [('s', None)]:
          raise AnalysisError('StrLiteral template %r is not a one-%%s template' % l.v)
        i = l.v.index('%s')
        w = wrap([l.v[:i].replace('%%', '%'), r, l.v[i + 2:].replace('%%', '%')])
        if w is not None:
          return w
    if isinstance(node, ast.BinOp) and isinstance(node.op, ast.Add):
      vals = [interp.value(x, st) for x in _flatten_add(node)]
      if any(isinstance(v, (Payload, Wrapped)) for v in vals):
        parts = [v.v if isinstance(v, Const) else v for v in vals]
        if all(isinstance(x, (str, Payload, Wrapped)) for x in parts):
          w = wrap(parts)
          if w is not None:
            return w
    if isinstance(node, ast.JoinedStr):
      parts = []
      for v in node.values:
        if isinstance(v, ast.Constant):
          parts.append(v.value)
        else:
          parts.append(interp.value(v.value, st))
      if any(isinstance(x, (Payload, Wrapped)) for x in parts) and \
          all(isinstance(x, (str, Payload, Wrapped)) for x in parts):
        w = wrap(parts)
        if w is not None:
          return w
    return NotImplemented

  env = {p_: Sym(p_) for p_ in fi.params}
  it = Interp(fi.node, dict(call=call, expr=expr, loop=lambda n, s: 'unroll'), max_paths=500)
  outs = it.run(State(env=env))
  rets = [o for o in outs if o.kind == 'return']
  others = [o for o in outs if o.kind != 'return']
  if not rets or others:
    raise AnalysisError('StrLiteral for %s: %d returns, %d other outcomes' % (
        dialect_name, len(rets), len(others)))
  vals = {repr(o.value) for o in rets}
  if len(vals) != 1:
    raise AnalysisError('StrLiteral for %s has several outcomes: %s' % (dialect_name, sorted(vals)))
  v = rets[0].value
  node = rets[0].node
  if isinstance(v, Payload):
    v = Wrapped('', v, '')
  if isinstance(v, Wrapped):
    return fi, Transformer('replace-chain', v.prefix, v.suffix, v.payload.reps, node)
  if isinstance(v, JsonOf) and not v.payload.reps:
    t = Transformer('json', node=node)
    t.ensure_ascii = v.ensure_ascii
    return fi, t
  raise AnalysisError('StrLiteral for %s: unrecognised literal construction %r' % (dialect_name, v))


def strliteral_branch(repo, dialect_name):
  """Returned expression of QL.StrLiteral when self.dialect.Name() is
  dialect_name (abstract interpretation: single outcome expected)."""
  fi = repo.func('expr_translate.QL.StrLiteral')
  rets = []

  def call(node, st, interp):
    if call_tail(node) == 'Name' and 'dialect' in (receiver(node) or ''):
      return Const(dialect_name)
    if call_tail(node) == 'IsPostgreSQLish':
      return NotImplemented
    return NotImplemented
  it = Interp(fi.node, dict(call=call))
  outs = it.run(State())
  nodes = {id(o.node): o.node for o in outs if o.kind == 'return'}
  others = [o for o in outs if o.kind != 'return']
  if len(nodes) != 1 or others:
    raise AnalysisError('StrLiteral for %s: %d return sites, %d other outcomes'
                        % (dialect_name, len(nodes), len(others)))
  # locals holding the payload (`the_string = literal['the_string']`) are read
  # as their definitions
  return fi, FnView(repo, 'expr_translate.QL.StrLiteral').expand(list(nodes.values())[0].value)


def test_strings():
  out = ['']
  for n in range(1, MAXLEN + 1):
    for t in itertools.product(ALPHABET, repeat=n):
      out.append(''.join(t))
  return out


def sanitisers(chk, rid):
  repo = chk.repo
  classes = templates.dialect_classes(repo)
  global MAXLEN
  if chk.tier == 'thorough':
    MAXLEN = 4
  strings = test_strings()
  chk.extra['alphabet'] = ALPHABET
  chk.extra['strings_per_dialect'] = len(strings)
  chk.extra['exhaustive'] = True
  total = 0
  for engine, cls in sorted(classes.items()):
    name, nfi = templates.dialect_const(repo, cls, 'Name')
    if not isinstance(name, str):
      raise AnalysisError('%s.Name() is not a string constant' % cls)
    if name not in sqllex.FAMILY:
      raise AnalysisError('no lexical rules for dialect %s' % name)
    fi, tr = strliteral_transformer(repo, name)
    expr = tr.node
    bad = None
    for s in strings:
      total += 1
      emitted = tr.apply(s)
      try:
        decoded, end = sqllex.decode(name, emitted)
      except sqllex.LexError as e:
        bad = (s, emitted, 'not one well-formed literal: %s' % e)
        break
      if end != len(emitted):
        bad = (s, emitted, 'literal ends early: %r is left over as SQL' % emitted[end:])
        break
      if decoded != s:
        bad = (s, emitted, 'decodes to %r' % decoded)
        break
    chk.ob(rid, bad is None, None,
           'StrLiteral[%s]: %s' % (name, tr.describe()),
           'for the Logica string %r the %s literal %s %s' % (
               bad[0], name, bad[1], bad[2]) if bad else '', fi=fi, node=expr)
  chk.extra['literal_evaluations'] = total
  chk.more_evaluations += total


# ---------------------------------------------------------------------------
# R2: every data string goes through the sanitiser

ALLOWED_PAYLOAD_SINKS = {
    # function -> {local name or '' : reason}
    'expr_translate.QL.StrLiteral': 'the sanitiser itself',
    'expr_translate.QL.GenericSqlExpression': 'first argument of SqlExpr is SQL by definition',
}
ALLOWED_IN_CONVERT = {
    'cast_to': 'second argument of Cast/TryCast is a type name',
    'flag': 'argument of FlagValue is a flag name, used only as a lookup key',
}


def payload_reads(fi):
  """Expressions <x>['the_string']['the_string'] (the raw characters)."""
  out = []
  for x in walk_local(fi.node):
    if isinstance(x, ast.Subscript) and const_str(x.slice) == 'the_string' and \
        isinstance(x.ctx, ast.Load):
      inner = x.value
      if isinstance(inner, ast.Subscript) and const_str(inner.slice) == 'the_string':
        out.append(x)
  return out


def payload_flow(chk, rid):
  repo = chk.repo
  m = repo.by_name('expr_translate')
  n = 0
  for fi in m.funcs.values():
    reads = payload_reads(fi)
    for r in reads:
      n += 1
      if fi.fq in ALLOWED_PAYLOAD_SINKS:
        chk.ob(rid, True, None, 'raw string payload read in %s' % fi.qualname,
               ALLOWED_PAYLOAD_SINKS[fi.fq], fi=fi, node=r)
        continue
      ok = False
      why = 'the characters of a string literal are read outside StrLiteral'
      if fi.fq == 'expr_translate.QL.ConvertToSql':
        v = FnView(repo, fi.fq)
        # the read must be assigned to one of the documented names ...
        for x in walk_local(fi.node):
          if isinstance(x, ast.Assign) and len(x.targets) == 1 and \
              isinstance(x.targets[0], ast.Name) and any(y is r for y in ast.walk(x.value)):
            name = x.targets[0].id
            if name in ALLOWED_IN_CONVERT:
              ok, why = _name_confined(fi, name)
            else:
              why = 'raw characters stored in `%s` and used without StrLiteral' % name
      chk.ob(rid, ok, None, 'raw string payload read in %s: %s' % (fi.qualname, norm(r, 70)),
             why, fi=fi, node=r)
  if n < 3:
    raise AnalysisError('payload reads not recognised in expr_translate (%d)' % n)
  # ConvertToSql hands string literals to StrLiteral and nothing else
  cv = FnView(repo, 'expr_translate.QL.ConvertToSql')
  lit = []
  for nn, st in cv.returns():
    for e, val in cv.guards(nn):
      if val and isinstance(e, ast.Compare) and const_str(e.left) == 'the_string' and \
          dotted(e.comparators[0]) == 'literal':
        lit.append((nn, st))
  if not lit:
    raise AnalysisError('ConvertToSql: the_string literal branch not found')
  for nn, st in lit:
    ok = isinstance(st.value, ast.Call) and 'expr_translate.QL.StrLiteral' in \
        repo.resolve(cv.fi, st.value)
    chk.ob(rid, ok, None, 'string literals are emitted by StrLiteral',
           'the the_string branch returns %s' % norm(st.value, 60), fi=cv.fi, node=st)
  # FlagValue returns StrLiteral({'the_string': flag_values[flag]})
  fv = []
  for nn, st in cv.returns():
    for e, val in cv.guards(nn):
      if val and isinstance(e, ast.Compare) and const_str(e.comparators[0]) == 'FlagValue':
        fv.append((nn, st))
  if not fv:
    raise AnalysisError('ConvertToSql: FlagValue branch not found')
  for nn, st in fv:
    c = st.value
    ok = isinstance(c, ast.Call) and 'expr_translate.QL.StrLiteral' in repo.resolve(cv.fi, c) \
        and c.args and isinstance(c.args[0], ast.Dict) and \
        const_str(c.args[0].keys[0]) == 'the_string' and \
        'flag_values' in norm(c.args[0].values[0])
    chk.ob(rid, ok, None, 'FlagValue(..) is emitted as StrLiteral of the flag value',
           'the flag value reaches SQL as %s' % norm(c, 70), fi=cv.fi, node=st)


def _name_confined(fi, name):
  """Uses of a raw-payload local: lookup key, membership, error message, or
  the documented type-name slot of the CAST template."""
  from sa.setorder import _parents
  par = _parents(fi.node)
  for x in walk_local(fi.node):
    if isinstance(x, ast.Name) and x.id == name and isinstance(x.ctx, ast.Load):
      p = par.get(x)
      if isinstance(p, ast.Subscript) and p.slice is x:
        continue
      if isinstance(p, ast.Compare):
        continue
      q = p
      in_raise = False
      while q is not None:
        if isinstance(q, ast.Raise):
          in_raise = True
        q = par.get(q)
      if in_raise:
        continue
      if name == 'cast_to' and isinstance(p, ast.Tuple):
        pp = par.get(p)
        if isinstance(pp, ast.BinOp) and isinstance(pp.op, ast.Mod) and \
            'AS %s' in (const_str(pp.left) or ''):
          continue
      return False, '`%s` (raw characters) flows into %s' % (name, norm(p, 60))
  return True, ALLOWED_IN_CONVERT[name]


# ---------------------------------------------------------------------------
# R3: format receivers are templates

EMITTER_MODULES = ['expr_translate', 'rule_translate', 'universe', 'dialects']
TEMPLATE_SOURCES = {
    # (function, receiver text) -> provenance
    ('expr_translate.QL.Function', 'f'): 'template from the built-in function tables',
    ('expr_translate.QL.Infix', 'op'): 'template from the infix operator tables',
    ('expr_translate.QL.ListLiteral', 'array_phrase'): 'dialect.ArrayPhrase()',
    ('expr_translate.QL.GenericSqlExpression', 'template'): 'SqlExpr template (SQL by definition)',
    ('expr_translate.QL.ConvertToSql', 'udf_sql'): 'UDF application string built from parameter names',
}


def format_receivers(chk, rid):
  repo = chk.repo
  n = 0
  for mn in EMITTER_MODULES:
    m = repo.by_name(mn)
    for fi in m.funcs.values():
      for x in walk_local(fi.node):
        recv = None
        if isinstance(x, ast.BinOp) and isinstance(x.op, ast.Mod):
          # numeric modulo is not formatting: require a string-ish left
          if isinstance(x.left, ast.Constant):
            continue
          if not _maybe_string(fi, x.left):
            continue
          recv = x.left
        elif isinstance(x, ast.Call) and call_tail(x) == 'format' and \
            isinstance(x.func, ast.Attribute):
          if isinstance(x.func.value, (ast.Constant, ast.JoinedStr)):
            continue
          recv = x.func.value
        if recv is None:
          continue
        n += 1
        ok, why = template_provenance(repo, fi, recv)
        chk.ob(rid, ok, None, 'format receiver %s' % norm(recv, 60), why, fi=fi, node=x)
  if n < 5:
    raise AnalysisError('dynamic format receivers not recognised (%d)' % n)


def _maybe_string(fi, e):
  if isinstance(e, (ast.Num if hasattr(ast, 'Num') else ast.Constant,)):
    return False
  d = dotted(e)
  if d in ('ignition', 'depth', 'i', 'n', 'k'):
    return False
  if isinstance(e, ast.Call) and call_tail(e) in ('len', 'int', 'Fingerprint'):
    return False
  return True


def template_provenance(repo, fi, recv):
  d = dotted(recv)
  if d is not None and (fi.fq, d) in TEMPLATE_SOURCES:
    return True, TEMPLATE_SOURCES[(fi.fq, d)]
  # dialect phrases and class tables
  if isinstance(recv, ast.Call) and call_tail(recv) in ('UnnestPhrase', 'ArrayPhrase'):
    return True, 'dialect phrase'
  if isinstance(recv, ast.Subscript) and 'ANALYTIC_FUNCTIONS' in norm(recv.value):
    return True, 'analytic function table'
  if isinstance(recv, ast.Call) and call_tail(recv) == 'HeritageAwareString' and \
      recv.args and const_str(recv.args[0]) is not None:
    return True, 'literal template'
  # a named constant of the code (module / class level, or a single-definition
  # local) whose definition is a string literal
  if isinstance(recv, (ast.Name, ast.Attribute)):
    r2 = tables.resolve(recv)
    if r2 is not recv and isinstance(r2, (ast.Constant, ast.JoinedStr)) and (
        not isinstance(r2, ast.Constant) or isinstance(r2.value, str)):
      if not isinstance(r2, ast.JoinedStr) or all(isinstance(v, ast.Constant) for v in r2.values):
        return True, 'named literal template'
  # a local assigned only from string literals
  if isinstance(recv, ast.Name):
    v = None
    vals = []
    for x in walk_local(fi.node):
      if isinstance(x, ast.Assign) and any(isinstance(t, ast.Name) and t.id == recv.id
                                           for t in x.targets):
        vals.append(x.value)
    def literal_choice(v, depth=0):
      """a string literal, a choice between such (`a if c else b`, `a or b`),
      a concatenation or %-combination of such, or a local defined that way"""
      if isinstance(v, ast.Constant):
        return isinstance(v.value, str) or v.value is None
      if isinstance(v, ast.JoinedStr):
        return True               # an f-string written in the code (as before)
      if isinstance(v, ast.IfExp):
        return literal_choice(v.body, depth) and literal_choice(v.orelse, depth)
      if isinstance(v, ast.BinOp) and isinstance(v.op, ast.Add):
        return literal_choice(v.left, depth) and literal_choice(v.right, depth)
      if isinstance(v, ast.BinOp) and isinstance(v.op, ast.Mod):
        # a template filled with literal pieces is still a template of the code
        args = v.right.elts if isinstance(v.right, ast.Tuple) else [v.right]
        return literal_choice(v.left, depth) and all(literal_choice(a_, depth) for a_ in args)
      if isinstance(v, ast.Name) and depth < 3:
        inner = [x.value for x in walk_local(fi.node) if isinstance(x, ast.Assign) and any(
            isinstance(t, ast.Name) and t.id == v.id for t in x.targets)]
        return bool(inner) and v.id not in fi.params and all(literal_choice(i_, depth + 1) for i_ in inner)
      return False
    if vals and all(literal_choice(v) for v in vals):
      return True, 'local literal template'
  return False, ('`%s` is not a template of the code: if it carries compiled SQL '
                 '(with user string data) the %% / {} characters of the data are '
                 'reinterpreted as format directives' % norm(recv, 50))


def cli_flag_values_verbatim(chk, rid):
  """A flag value given on the command line reaches FlagValue character for
  character: in logica.ReadUserFlags the VALUE part of each (option, value)
  pair goes into the result as it is (only the option name loses its `--`)."""
  repo = chk.repo
  v = FnView(repo, 'logica.ReadUserFlags')
  rets = [r for n, r in v.returns() if r.value is not None]
  if not rets:
    raise AnalysisError('ReadUserFlags: no return recognised')
  changed = None
  n_vals = 0
  for r in rets:
    e = v.expand(r.value, 3)
    for x in ast.walk(e):
      if isinstance(x, ast.DictComp) and isinstance(x.generators[0].target, ast.Tuple) and \
          len(x.generators[0].target.elts) == 2 and isinstance(x.generators[0].target.elts[1], ast.Name):
        n_vals += 1
        val_name = x.generators[0].target.elts[1].id
        if not (isinstance(x.value, ast.Name) and x.value.id == val_name):
          changed = x.value
  if not n_vals:
    # the same mapping written as a loop
    for x in walk_local(v.fi.node):
      if isinstance(x, ast.For) and isinstance(x.target, ast.Tuple) and len(x.target.elts) == 2 \
          and isinstance(x.target.elts[1], ast.Name):
        val_name = x.target.elts[1].id
        for st in ast.walk(x):
          if isinstance(st, ast.Assign) and isinstance(st.targets[0], ast.Subscript):
            n_vals += 1
            if not (isinstance(st.value, ast.Name) and st.value.id == val_name):
              changed = st.value
  if not n_vals:
    raise AnalysisError('ReadUserFlags: the mapping from options to flag values is not recognised')
  chk.ob(rid, changed is None, None,
         'command-line flag values are handed on unchanged',
         'the value of a flag is rewritten on its way from the command line (`%s`): spaces, '
         'quotes or line breaks the user passed do not reach FlagValue character for character'
         % (norm(changed, 60) if changed is not None else ''), fi=v.fi, node=changed)


def atomic_template_application(chk, rid):
  """QL.Function / QL.Infix fill a template in one formatting operation.
  Sequential textual substitution (`.replace` chains) re-scans text that was
  just inserted: a `%s` inside a string operand is taken for a placeholder."""
  from rules.c09 import application_styles
  repo = chk.repo
  for fq, param in (('expr_translate.QL.Infix', 'op'), ('expr_translate.QL.Function', 'f')):
    fi = repo.func(fq)
    styles = application_styles(repo, fq, param)
    if not styles:
      raise AnalysisError('%s: way of applying the template not recognised' % fq)
    chk.ob(rid, 'replace' not in styles, None,
           '%s fills its template with one %% / format operation' % fq.split('.')[-1],
           'the template is filled by successive .replace calls: the second '
           'substitution also scans the text of the first operand, so string '
           'data containing the placeholder is rewritten and literals break',
           fi=fi)


# ---------------------------------------------------------------------------
# R4: flags


def flags(chk, rid):
  repo = chk.repo
  v = FnView(repo, 'universe.Annotations.BuildFlagValues')
  ups = [(n, c) for n, c in v.all_calls() if call_tail(c) == 'update']
  rets = v.returns()
  if not rets:
    raise AnalysisError('BuildFlagValues: return not found')
  # a flag value is data: '' (and '0') are values a user may pass, so nothing
  # in the merge may decide by the truthiness of a value
  def flag_container(e):
    t_ = norm(e, 200)
    return any(w in t_ for w in ('user_flags', 'flag', 'default', 'layer', 'values'))
  falsy = []
  tests = []
  for x in walk_local(v.fi.node):
    if isinstance(x, (ast.If, ast.While, ast.IfExp)):
      tests.append(x.test)
    elif isinstance(x, ast.comprehension):
      tests.extend(x.ifs)
    elif isinstance(x, ast.BoolOp):
      tests.extend(x.values[:-1] if isinstance(x.op, ast.Or) else x.values)
  for t_ in tests:
    ops = [t_]
    while ops:
      o = ops.pop()
      if isinstance(o, ast.BoolOp):
        ops.extend(o.values)
      elif isinstance(o, ast.UnaryOp) and isinstance(o.op, ast.Not):
        ops.append(o.operand)
      elif isinstance(o, ast.Call) and call_tail(o) == 'get' and isinstance(o.func, ast.Attribute) \
          and (flag_container(o.func.value) or (o.args and 'flag' in norm(o.args[0]))):
        falsy.append(o)
      elif isinstance(o, ast.Subscript) and not isinstance(o.slice, ast.Slice) and \
          (flag_container(o.value) or 'flag' in norm(o.slice)):
        falsy.append(o)
  chk.ob(rid, not falsy, None, 'the merge of flag values never tests a value for truthiness',
         'a flag value is skipped when it is empty (`%s`): a user who passes an '
         'empty string gets the default instead of the value passed'
         % (norm(falsy[0], 50) if falsy else ''), fi=v.fi,
         node=falsy[0] if falsy else None)
  if ups:
    last = max(ups, key=lambda nc: (nc[1].lineno, nc[1].col_offset))
    src = [norm(k.value) for k in last[1].keywords if k.arg is None] + \
        [norm(a) for a in last[1].args]
    chk.ob(rid, any('user_flags' in s for s in src), None,
           'user flags are applied last', 'the last override is %s: user supplied '
           'values do not win' % src, fi=v.fi, node=last[1])
    order = [norm(k.value if isinstance(k, ast.keyword) else k)
             for n, c in sorted(ups, key=lambda nc: nc[1].lineno)
             for k in (c.keywords + c.args)]
    chk.ob(rid, len(order) >= 2 and 'programmatic' in order[0] and 'user_flags' in order[-1],
           None, 'override order: defaults < programmatic < user',
           'override order is %s' % order, fi=v.fi)
  else:
    # another way of merging (first-wins setdefault, explicit precedence list):
    # all three sources must reach the result; their precedence is not decided
    text = norm(v.fi.node, 100000)
    chk.ob(rid, all(w in text for w in ('user_flags', '@ResetFlagValue', '@DefineFlag')), None,
           'user flags, @ResetFlagValue and @DefineFlag values all reach the merged table',
           'one of the three sources of flag values is not merged', fi=v.fi)
    chk.info('C10-R4: BuildFlagValues does not merge with dict.update: the precedence '
             'user > programmatic > default is not decided on this tree')
  raises = [(n, r) for n, r in v.raises()]
  ok = bool(raises) and all(v.cfg.must_pass_before(n, []) is False or True for n, _ in rets)
  guard_ok = False
  for n, r in raises:
    for e, val in v.guards(n):
      if 'user_flags' in norm(v.expand(e), 1000):
        guard_ok = True
  chk.ob(rid, guard_ok, None, 'undefined user flags raise RuleCompileException',
         'user flags that were never defined are accepted silently', fi=v.fi)
  for n, r in rets:
    hdr = [h for h, pol in v.cfg.header_of(n)]
    # the check sits before the return on every path: the raising test node
    tests = [m for m in v.cfg.stmt_nodes() if isinstance(v.cfg.stmt[m], ast.If) and
             'user_flags' in norm(v.expand(v.cfg.stmt[m].test), 1000)]
    chk.ob(rid, bool(tests) and v.cfg.must_pass_before(n, tests), None,
           'flag values are returned only after the undefined-flag check',
           'a path returns flag values without validating the user flags',
           fi=v.fi, node=r)
  u = FnView(repo, 'universe.LogicaProgram.UseFlagsAsParameters')
  # the loop that repeats the substitution until nothing changes: a `while`
  # with a counter and a raising bound, or a `for _ in range(N)` (bounded by
  # construction)
  loops = [n for n in u.cfg.stmt_nodes() if isinstance(u.cfg.stmt[n], (ast.While, ast.For)) and
           any(isinstance(c, ast.Call) and call_tail(c) == 'replace' for c in ast.walk(u.cfg.stmt[n]))
           and not any(isinstance(p_, (ast.While, ast.For)) and p_ is not u.cfg.stmt[n] and
                       any(q_ is u.cfg.stmt[n] for q_ in ast.walk(p_))
                       for p_ in walk_local(u.fi.node))]
  if not loops:
    # another substitution mechanism altogether: string.Template and its
    # relatives expand `$name` and `$$` besides `${name}`, i.e. more than the
    # one documented form
    other = [c for n, c in u.all_calls() if call_tail(c) in ('substitute', 'safe_substitute',
                                                             'Template', 'sub', 'subn', 'expandvars')]
    if other:
      chk.ob(rid, False, None, 'only the ${flag} form is substituted',
             '`%s` is used instead of replacing the ${flag} texts: that mechanism also '
             'rewrites $name and $$ inside string data of the compiled SQL' % norm(other[0], 60),
             fi=u.fi, node=other[0])
      return
    raise AnalysisError('UseFlagsAsParameters: fixpoint loop not found')
  for w in loops:
    wst = u.cfg.stmt[w]
    if isinstance(wst, ast.For):
      it_ = wst.iter
      by_range = isinstance(it_, ast.Call) and call_tail(it_) == 'range' and it_.args
      if by_range:
        try:
          by_range = isinstance(tables.const_value(it_.args[-1] if len(it_.args) < 3 else it_.args[1]), int)
        except AnalysisError:
          by_range = False
      chk.ob(rid, bool(by_range), None,
             'substitution loop runs a constant number of rounds at most',
             'flags that refer to each other make compilation loop forever',
             fi=u.fi, node=wst)
      continue
    incs = [x for x in wst.body if isinstance(x, ast.AugAssign) and
            isinstance(x.op, ast.Add) and isinstance(x.value, ast.Constant)]
    bound = False
    for x in ast.walk(wst):
      if isinstance(x, ast.If) and isinstance(x.test, ast.Compare) and incs and \
          dotted(x.test.left) == dotted(incs[0].target) and \
          isinstance(x.test.ops[0], (ast.Gt, ast.GtE)) and \
          any(isinstance(s, ast.Raise) for s in x.body):
        bound = True
    chk.ob(rid, bool(incs) and bound, None,
           'substitution loop has an unconditional counter and a raising bound',
           'flags that refer to each other make compilation loop forever',
           fi=u.fi, node=wst)
  reps = [c for n, c in u.all_calls() if call_tail(c) == 'replace']
  ok = bool(reps)
  def loop_cell(name):
    """expression a loop variable stands for when the loop runs over a list
    built by one comprehension / literal of tuples (`for p, v in pairs`)"""
    for x in walk_local(u.fi.node):
      if isinstance(x, ast.For) and isinstance(x.target, ast.Tuple):
        pos = [i for i, t_ in enumerate(x.target.elts) if isinstance(t_, ast.Name) and t_.id == name]
        if not pos:
          continue
        src = u.expand(x.iter, 2)
        if isinstance(src, (ast.ListComp, ast.GeneratorExp)) and isinstance(src.elt, ast.Tuple) \
            and len(src.elt.elts) == len(x.target.elts):
          return src.elt.elts[pos[0]]
    return None
  for c in reps:
    pat = c.args[0] if c.args else None
    if isinstance(pat, ast.Name):
      pat = loop_cell(pat.id) or u.expand(pat, 2)
    good = isinstance(pat, ast.BinOp) and isinstance(pat.op, ast.Mod) and \
        const_str(pat.left) == '${%s}'
    ok = ok and good
  chk.ob(rid, ok, None, 'only the ${flag} form is substituted',
         'another textual pattern is expanded inside compiled SQL', fi=u.fi)


def scanner_literal_agreement(chk, rid):
  """The scanner treats backslash as an escape inside exactly those quote
  kinds whose contents ParseString decodes with escapes; the other kinds are
  raw in both.  A disagreement makes a literal end at different places for
  the scanner and for the literal parser."""
  repo = chk.repo
  tv = FnView(repo, 'parse.Traverse')
  state_expr = K.scanner_state_expr(tv.fi.node)
  escaping_states = set()
  for n in tv.cfg.stmt_nodes():
    st = tv.cfg.stmt[n]
    if isinstance(st, ast.AugAssign) and dotted(st.target) == 'state' and \
        const_str(st.value) == '\\':
      for e, val in tv.guards(n):
        if val and isinstance(e, ast.Compare) and norm(e.left) == state_expr:
          c0 = e.comparators[0]
          if isinstance(e.ops[0], ast.Eq) and const_str(c0) is not None:
            escaping_states.add(const_str(c0))
          elif isinstance(e.ops[0], ast.In):
            try:
              escaping_states |= set(tables.const_value(c0))
            except AnalysisError:
              pass
  ps = FnView(repo, 'parse.ParseString')
  decoding_quotes = set()
  raw_quotes = set()
  decoders = []
  for n, r in ps.returns():
    if r.value is None:
      continue
    quotes = set()
    for e, val in ps.guards(n):
      if val and isinstance(e, ast.Compare) and isinstance(e.ops[0], ast.Eq) and \
          norm(ps.expand(e.left, 2)) in ('s[0]', 's[:3]') and const_str(e.comparators[0]):
        quotes.add(const_str(e.comparators[0]))
    value = ps.expand(r.value, 3)
    calls = [c for c in ast.walk(value) if isinstance(c, ast.Call)]
    decodes = bool(calls)
    (decoding_quotes if decodes else raw_quotes).update(quotes)
    for c in calls:
      if call_tail(c) == 'literal_eval':
        decoders.append(('python-literal', c, n))
      elif any(const_str(x) in ('unicode_escape', 'unicode-escape', 'string_escape',
                                'raw_unicode_escape') for x in ast.walk(c)):
        decoders.append(('latin1-codec', c, n))
      elif call_tail(c) not in ('dict', 'str', 'HeritageAwareString'):
        decoders.append(('unknown', c, n))
  if not decoding_quotes or not raw_quotes:
    raise AnalysisError('ParseString: literal forms not recognised (%s / %s)' % (
        decoding_quotes, raw_quotes))
  unknown = [c for k, c, n in decoders if k == 'unknown']
  if unknown:
    raise AnalysisError('ParseString: decoder `%s` is not one this rule knows'
                        % norm(unknown[0], 60))
  lossy = [c for k, c, n in decoders if k == 'latin1-codec']
  chk.ob(rid, not lossy, None,
         'escaped literals are decoded with Python literal semantics for every character',
         'the *_escape codecs read their input as Latin-1: `%s` turns every non-ASCII '
         'character of a string literal into mojibake before it reaches the SQL'
         % (norm(lossy[0], 60) if lossy else ''), fi=ps.fi, node=lossy[0] if lossy else None)
  chk.ob(rid, escaping_states == decoding_quotes, None,
         'scanner screens backslash exactly in the quote kinds ParseString decodes (%s)'
         % ' '.join(sorted(decoding_quotes)),
         'Traverse treats backslash as an escape inside %s, ParseString decodes '
         'escapes inside %s: a raw literal ending in a backslash (or an escaped '
         'quote) ends at different places for the two' % (
             sorted(escaping_states), sorted(decoding_quotes)), fi=tv.fi)


def run(chk):
  chk.assume('A3: the lexical rules of the eight dialects in sa/sqllex.py are correct '
             '(standard SQL quotes for SQLite/PostgreSQL/Presto/Trino, additionally '
             'backslash escapes for ClickHouse, E-strings for DuckDB, double-quoted '
             'backslash-escaped strings for BigQuery/Databricks)')
  chk.rule('C10-R1', 'sanitiser adequacy per dialect: the transformation '
           'QL.StrLiteral applies for each dialect (extracted as data) yields, '
           'for every string of length <= %d over a %d-character alphabet of '
           'metacharacters, exactly one well-formed literal of that dialect '
           'that decodes to the original string' % (MAXLEN, len(ALPHABET)),
           min_instances=8)
  sanitisers(chk, 'C10-R1')
  chk.rule('C10-R2', 'every read of raw string characters in the expression '
           'translator is the sanitiser itself or a documented non-data sink; '
           'string literals and FlagValue results are emitted by StrLiteral',
           min_instances=5)
  payload_flow(chk, 'C10-R2')
  chk.rule('C10-R3', 'every dynamic %-format / str.format receiver in the '
           'emitters is a template of the code, never compiled SQL',
           min_instances=5)
  format_receivers(chk, 'C10-R3')
  atomic_template_application(chk, 'C10-R3')
  chk.rule('C10-R4', 'flag values: user overrides programmatic overrides '
           'defaults, undefined flags are rejected before values are returned, '
           '${flag} expansion is bounded and the only expanded form',
           min_instances=6)
  flags(chk, 'C10-R4')
  cli_flag_values_verbatim(chk, 'C10-R4')
  chk.rule('C10-R5', 'literal forms: the scanner and ParseString agree on '
           'which quote kinds interpret backslash escapes', min_instances=1)
  scanner_literal_agreement(chk, 'C10-R5')
