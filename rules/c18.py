"""C18 - order_by / limit (structural clauses)."""

import ast

from sa.absint import Const, Interp, State, Sym
from sa.model import AnalysisError, call_tail, const_str, dotted, norm, walk_local
from sa.pathrules import FnView, arg_name
from sa import tables
from rules import common as K

ORDERBY = 'universe.Annotations.OrderBy'
LIMITOF = 'universe.Annotations.LimitOf'
OBCLAUSE = 'universe.Annotations.OrderByClause'
LIMCLAUSE = 'universe.Annotations.LimitClause'
PREDSQL = 'universe.LogicaProgram.PredicateSql'
SINGLE = 'universe.LogicaProgram.SingleRuleSql'


class Abs(object):
  """Abstract result of an annotation reader."""

  def __init__(self, key, truth, is_none):
    self.key = key
    self.truth = truth        # True / False / None (unknown, e.g. int maybe 0)
    self.is_none = is_none

  def __repr__(self):
    return 'Abs(%s)' % self.key


def scenario_hooks(repo, fi, scenario):
  """scenario: {callee fq: Abs}."""
  def call(node, st, interp):
    for tgt in repo.resolve(fi, node):
      if tgt in scenario:
        return scenario[tgt]
    return NotImplemented

  def truth(v, st):
    if isinstance(v, Abs):
      if v.truth is None:
        return st.facts.get(v.key)
      return v.truth
    return NotImplemented

  def compare(op, l, r, st):
    if isinstance(l, Abs) and isinstance(r, Const) and r.v is None:
      if isinstance(op, (ast.Is, ast.Eq)):
        return l.is_none
      if isinstance(op, (ast.IsNot, ast.NotEq)):
        return not l.is_none
    if isinstance(r, Abs) and isinstance(l, Const) and l.v is None:
      if isinstance(op, (ast.Is, ast.Eq)):
        return r.is_none
      if isinstance(op, (ast.IsNot, ast.NotEq)):
        return not r.is_none
    return NotImplemented
  return dict(call=call, truth=truth, compare=compare)


def outcomes(repo, fq, scenario):
  fi = repo.func(fq)
  it = Interp(fi.node, scenario_hooks(repo, fi, scenario))
  return fi, it.run()


def run(chk):
  repo = chk.repo
  chk.assume('A5: annotation readers are called directly (no reflection)')
  # ---- R1: ordered / limited predicates are never injected -------------------
  chk.rule('C18-R1', 'Annotations.OkInjection is false whenever OrderBy(p) or '
           'LimitOf(p) is present (all paths, abstract interpretation), and '
           'every InjectStructure in RunInjections is control dependent on '
           'OkInjection being true', min_instances=3)
  ordered = Abs('orderby-present', True, False)
  limited = Abs('limit-positive', True, False)
  for name, scen in (('@OrderBy present', {ORDERBY: ordered}),
                     ('@Limit present (K>0)', {LIMITOF: limited})):
    fi, outs = outcomes(repo, K.OKINJ, scen)
    rets = [o for o in outs if o.kind in ('return', 'fall')]
    if not rets:
      raise AnalysisError('OkInjection: no return found')
    bad = [o for o in rets if not (isinstance(o.value, Const) and not o.value.v)]
    chk.ob('C18-R1', not bad, None, 'OkInjection is false when %s' % name,
           'a path of OkInjection returns %s although the predicate is '
           'ordered/limited: it would be inlined and lose the clause (%s)' % (
               bad[0].value if bad else '', '; '.join(bad[0].state.trace) if bad else ''),
           fi=fi)
  v, sites = K.injection_sites(chk)
  for n, c in sites:
    facts = v.guards(n)
    ok = False
    for e, val in facts:
      if val is True and isinstance(e, ast.Call) and K.OKINJ in repo.resolve(v.fi, e):
        ok = True
    chk.ob('C18-R1', ok, None, 'InjectStructure guarded by OkInjection(..) true',
           'a structure is injected without asking OkInjection: ordered, '
           'limited, grounded and @NoInject predicates get inlined',
           fi=v.fi, node=c)

  # OkInjection must be asked about the predicate whose rules get injected
  for n, c in sites:
    oks = [e for e, val in v.guards(n) if val and isinstance(e, ast.Call) and
           K.OKINJ in repo.resolve(v.fi, e)]
    gpr = [x for m2, x in v.all_calls() if call_tail(x) == 'GetPredicateRules']
    pred_names = {arg_name(x, 0) for x in gpr}
    loop_vals = set()
    for h, pol in v.cfg.header_of(n):
      st = v.cfg.stmt[h]
      if isinstance(st, ast.For) and isinstance(st.target, ast.Tuple) and \
          len(st.target.elts) == 2 and 'tables' in norm(st.iter) and 'items' in norm(st.iter):
        loop_vals.add(dotted(st.target.elts[1]))
    asked = {arg_name(e, 0) for e in oks}
    ok = bool(asked) and asked <= pred_names and (not loop_vals or asked <= loop_vals)
    chk.ob('C18-R1', ok, None,
           'OkInjection is asked about the predicate whose rules are injected',
           'OkInjection(%s) is evaluated on something other than the predicate '
           'name passed to GetPredicateRules(%s) (the table alias?): annotations '
           'of the predicate are not found and an ordered / limited predicate '
           'is inlined' % (sorted(asked), sorted(pred_names)), fi=v.fi, node=c)

  # ---- R3: limit 0 is a limit ---------------------------------------------
  chk.rule('C18-R3', 'absent vs zero: with LimitOf(p) an arbitrary int '
           '(possibly 0) OkInjection is still false and LimitClause still '
           'emits a LIMIT', min_instances=2)
  zero = Abs('limit-int-maybe-0', None, False)
  fi, outs = outcomes(repo, K.OKINJ, {LIMITOF: zero})
  bad = [o for o in outs if o.kind in ('return', 'fall') and
         not (isinstance(o.value, Const) and not o.value.v)]
  chk.ob('C18-R3', not bad, None, 'OkInjection is false when @Limit(p, 0)',
         'OkInjection tests the limit by truthiness: @Limit(P, 0) counts as '
         'no limit and P is inlined', fi=fi)
  fi, outs = outcomes(repo, 'universe.Annotations.LimitClause', {LIMITOF: zero})
  bad = [o for o in outs if o.kind in ('return', 'fall') and
         isinstance(o.value, Const) and not o.value.v]
  chk.ob('C18-R3', not bad, None, 'LimitClause emits LIMIT when @Limit(p, 0)',
         'LimitClause tests the limit by truthiness: @Limit(P, 0) emits no '
         'LIMIT clause and all rows are returned', fi=fi)
  fi, outs = outcomes(repo, 'universe.Annotations.LimitClause',
                      {LIMITOF: Abs('limit-absent', False, True)})
  bad = [o for o in outs if o.kind in ('return', 'fall') and
         not (isinstance(o.value, Const) and o.value.v == '')]
  chk.ob('C18-R3', not bad, None, "LimitClause is '' without @Limit",
         'a LIMIT is emitted for predicates without @Limit', fi=fi)

  # ---- R2: clauses appended to every result of PredicateSql -----------------
  # the positional keys of an annotation (@OrderBy(P, "a", "b", ...)) are the
  # decimal strings "1", "2", ...: they are taken in NUMERIC order (with ten or
  # more keys lexicographic order puts "10" before "2")
  fv = repo.func('universe.FieldValuesAsList')
  lex = []
  for c in walk_local(fv.node):
    if isinstance(c, ast.Call) and call_tail(c) in ('sorted', 'sort'):
      key = [k.value for k in c.keywords if k.arg == 'key']
      numeric = key and any(isinstance(n_, ast.Name) and n_.id in ('int', 'float')
                            for n_ in ast.walk(key[0]))
      if not numeric:
        lex.append(c)
  chk.ob('C18-R2', not lex, None,
         'positional annotation arguments are taken in numeric order of their position',
         'FieldValuesAsList orders the positions as strings (`%s`): from ten order_by '
         'keys on, the 10th key is placed second and the rows are ordered by the '
         'wrong key sequence' % (norm(lex[0], 60) if lex else ''), fi=fv,
         node=lex[0] if lex else None)
  clause_builders_do_not_consume(chk, 'C18-R2')
  from rules.c04 import annotations_read_fresh_state
  annotations_read_fresh_state(chk, 'C18-R1')

  chk.rule('C18-R2', 'every non-raising return of PredicateSql carries '
           'OrderByClause(name) then LimitClause(name) after the body; nested '
           'uses of a predicate go through PredicateSql', min_instances=4)
  v = FnView(repo, PREDSQL)
  rets = v.returns()
  if len(rets) < 2:
    raise AnalysisError('PredicateSql: expected >= 2 returns')
  for n, r in rets:
    expr = r.value
    if isinstance(expr, ast.Name):
      src = [x for x in v.assigned_from(expr.id)]
      if len(src) == 1 and isinstance(src[0], tuple) and isinstance(src[0][2], ast.Name):
        # one element taken out of a local list: what the list is filled with
        elems = _elements_of(v, src[0][2].id)
        if not elems:
          raise AnalysisError('PredicateSql: elements of %s not recognised' % src[0][2].id)
        src = elems
      if not src or not all(isinstance(x, ast.AST) for x in src):
        raise AnalysisError('PredicateSql: returned name %s has no recognised '
                            'definition' % expr.id)
      if len(src) > 1:
        # several definitions: each of them has to carry the clauses
        missing = [x for x in src if not any(
            isinstance(c, ast.Call) and OBCLAUSE in repo.resolve(v.fi, c) for c in walk_local(x))]
        expr = missing[0] if missing else src[0]
      else:
        expr = src[0]
    ob = [c for c in walk_local(expr) if isinstance(c, ast.Call) and
          OBCLAUSE in repo.resolve(v.fi, c)]
    lim = [c for c in walk_local(expr) if isinstance(c, ast.Call) and
           LIMCLAUSE in repo.resolve(v.fi, c)]
    body = [c for c in walk_local(expr) if isinstance(c, ast.Call) and
            (SINGLE in repo.resolve(v.fi, c) or call_tail(c) == 'join')]
    pos = lambda c: (c.lineno, c.col_offset)
    ok = bool(ob) and bool(lim) and bool(body) and \
        max(map(pos, body)) < min(map(pos, ob)) and \
        max(map(pos, ob)) < min(map(pos, lim))
    same_name = all(arg_name(c, 0) == 'name' for c in ob + lim)
    if not (ok and same_name):
      # the same composition written through locals and small helpers
      ok, same_name = _composition(repo, v, r.value), True
    chk.ob('C18-R2', ok and same_name, None,
           'return carries body + OrderByClause(name) + LimitClause(name)',
           'a result of PredicateSql lacks the ORDER BY / LIMIT clause of the '
           'predicate (or has them in the wrong order / for another name)',
           fi=v.fi, node=r)
  for fq in ('universe.SubqueryTranslator.TranslateTable',
             'universe.SubqueryTranslator.TranslateWithedTable',
             'universe.SubqueryTranslator.TranslateTableAttachedToFile'):
    w = FnView(repo, fq)
    direct = w.calls(SINGLE)
    through = w.calls(PREDSQL)
    chk.ob('C18-R2', bool(through) and not direct, None,
           '%s compiles tables through PredicateSql' % fq.split('.')[-1],
           'a nested use of a predicate is compiled without PredicateSql and '
           'therefore without its ORDER BY / LIMIT', fi=w.fi)

  # ---- R4: denotation -> annotation table ------------------------------------
  chk.rule('C18-R4', 'denotation keys written by ParseRule are the keys read '
           'by AnnotationsFromDenotations, mapped to the annotation names the '
           'compiler reads and registers', min_instances=4)
  pr = FnView(repo, 'parse.ParseRule')
  written = {}
  for x in walk_local(pr.fi.node):
    if isinstance(x, ast.Assign) and len(x.targets) == 1 and \
        isinstance(x.targets[0], ast.Subscript) and \
        const_str(x.targets[0].slice) and isinstance(x.value, ast.Name):
      srcs = pr.assigned_from(x.value.id)
      for s in srcs:
        if isinstance(s, tuple) and s[1] == 2 and isinstance(s[2], ast.Call) \
            and call_tail(s[2]) == 'GrabDenotation':
          written[const_str(x.targets[0].slice)] = const_str(s[2].args[1]) \
              if len(s[2].args) > 1 else None
  if len(written) < 2:
    raise AnalysisError('ParseRule: denotations with arguments not recognised')
  afd = repo.func('parse.AnnotationsFromDenotations')
  pairs = {}
  for x in walk_local(afd.node):
    tbl = tables.resolve_table(afd, x.iter) if isinstance(x, ast.For) else None
    if tbl is not None:
      for e in tbl.elts:
        if isinstance(e, ast.Tuple) and len(e.elts) == 2 and \
            all(const_str(z) for z in e.elts):
          pairs[const_str(e.elts[0])] = const_str(e.elts[1])
  if not pairs:
    raise AnalysisError('AnnotationsFromDenotations: pair table not found')
  registered = set(tables.const_value(
      repo.by_name('universe').class_assign('Annotations', 'ANNOTATING_PREDICATES')))
  read_by = {}
  for fq in (ORDERBY, LIMITOF):
    fi = repo.func(fq)
    for x in walk_local(fi.node):
      if isinstance(x, ast.Subscript) and dotted(x.value) == 'self.annotations' \
          and const_str(x.slice):
        read_by.setdefault(const_str(x.slice), fq)
  for k, word in sorted(written.items()):
    chk.ob('C18-R4', k in pairs, 'parser_py/parse.py:ParseRule',
           "denotation key '%s' is read by AnnotationsFromDenotations" % k,
           "ParseRule stores the %s(...) denotation under '%s' but "
           'AnnotationsFromDenotations reads %s: the denotation is silently '
           'dropped' % (word, k, sorted(pairs)))
  for k, a in sorted(pairs.items()):
    chk.ob('C18-R4', a in registered and a in read_by,
           'parser_py/parse.py:AnnotationsFromDenotations',
           "'%s' -> %s is a registered annotation read by the compiler" % (k, a),
           'the annotation generated for the denotation is not one the '
           'compiler registers and reads (registered=%s, read=%s)' % (
               a in registered, a in read_by))
  want = {'orderby': ORDERBY, 'limit': LIMITOF}
  for k, a in sorted(pairs.items()):
    for word, fq in want.items():
      if word in k.replace('_', ''):
        chk.ob('C18-R4', read_by.get(a) == fq,
               'parser_py/parse.py:AnnotationsFromDenotations',
               "'%s' feeds %s" % (k, fq.split('.')[-1]),
               'the %s denotation is turned into %s, which %s does not read'
               % (word, a, fq.split('.')[-1]))
  # the annotation is generated from the rule as written, before the
  # rewrites that split and rename heads
  pf = FnView(repo, 'parse.ParseFile')
  afd_calls = pf.calls_reaching('parse.AnnotationsFromDenotations')
  rewrites = [(n, c) for n, c in pf.all_calls() if call_tail(c) == 'Rewrite']
  chk.ob('C18-R4', bool(afd_calls) and bool(rewrites) and not any(
      an in pf.cfg.reachable(rn) for an, _ in afd_calls for rn, _ in rewrites), None,
         'order_by / limit denotations become annotations before the DNF / multi-body rewrites',
         'AnnotationsFromDenotations runs after a rewrite: the multi-body '
         'aggregation rewrite renames the head to <P>_MultBodyAggAux and keeps '
         'the denotation keys, so the annotation lands on the auxiliary predicate',
         fi=pf.fi)
  # wherever the direct call lives (ParseFile or a helper it was moved to)
  hosts = []
  for q, hfi in repo.by_name('parse').funcs.items():
    if any(isinstance(x, ast.Call) and call_tail(x) == 'AnnotationsFromDenotations'
           for x in walk_local(hfi.node)):
      hosts.append(FnView(repo, 'parse.' + q))
  for hv in hosts:
    for n, c in hv.calls('parse.AnnotationsFromDenotations'):
      src = hv.assigned_from(arg_name(c, 0) or '')
      ok = any(isinstance(x, ast.Call) and call_tail(x) == 'ParseRule' for x in src)
      chk.ob('C18-R4', ok, None, 'annotations are derived from the rule ParseRule just returned',
             'AnnotationsFromDenotations is applied to %s' % norm(c, 60), fi=hv.fi, node=c)


def _elements_of(v, name):
  """Expressions a local list is filled with (append arguments, elements of a
  comprehension / literal assigned to it)."""
  out = []
  for x in walk_local(v.fi.node):
    if isinstance(x, ast.Call) and call_tail(x) == 'append' and \
        isinstance(x.func, ast.Attribute) and dotted(x.func.value) == name and x.args:
      out.append(x.args[0])
    elif isinstance(x, ast.Assign) and any(dotted(t) == name for t in x.targets):
      if isinstance(x.value, (ast.ListComp, ast.GeneratorExp)):
        out.append(x.value.elt)
      elif isinstance(x.value, (ast.List, ast.Tuple)):
        out += list(x.value.elts)
  return out


_MUTATORS = {'append', 'extend', 'insert', 'remove', 'pop', 'clear', 'sort', 'reverse',
             'update', 'setdefault', 'popitem', 'add', 'discard'}


def clause_builders_do_not_consume(chk, rid):
  """The SQL of a predicate is generated several times from one program object
  (every reader, every requested predicate): the clause builders give the same
  ORDER BY / LIMIT each time only if they do not use up the annotation data -
  either they never change what OrderBy() / LimitOf() hand out, or those
  accessors hand out a fresh value on every call."""
  repo = chk.repo
  m = repo.by_name('universe')

  def fresh(fq, depth=2):
    v = FnView(repo, fq)
    for n, r in v.returns():
      if r.value is None or (isinstance(r.value, ast.Constant)):
        continue
      e = v.expand(r.value, 3)
      if isinstance(e, ast.Call):
        t = call_tail(e)
        if t in ('FieldValuesAsList', 'list', 'sorted', 'deepcopy', 'copy', 'dict', 'tuple'):
          continue
        tg = [x for x in repo.resolve(v.fi, e) if x.startswith('universe.')]
        if tg and depth and all(fresh(x, depth - 1) for x in tg):
          continue
        return False
      if isinstance(e, (ast.List, ast.ListComp, ast.Tuple, ast.BinOp, ast.JoinedStr)):
        continue
      return False              # a stored object (attribute, subscript, name)
    return True

  for builder, accessor in (('universe.Annotations.OrderByClause', 'universe.Annotations.OrderBy'),
                            ('universe.Annotations.LimitClause', 'universe.Annotations.LimitOf')):
    v = FnView(repo, builder)
    got = set()
    for x in walk_local(v.fi.node):
      if isinstance(x, ast.Assign) and len(x.targets) == 1 and isinstance(x.targets[0], ast.Name) \
          and isinstance(x.value, ast.Call) and accessor in repo.resolve(v.fi, x.value):
        got.add(x.targets[0].id)
    changed = None
    for x in walk_local(v.fi.node):
      if isinstance(x, ast.Call) and isinstance(x.func, ast.Attribute) and x.func.attr in _MUTATORS \
          and isinstance(x.func.value, ast.Name) and x.func.value.id in got:
        changed = x
      elif isinstance(x, (ast.Assign, ast.AugAssign, ast.Delete)):
        tg = x.targets if not isinstance(x, ast.AugAssign) else [x.target]
        for t in tg:
          if isinstance(t, ast.Subscript) and isinstance(t.value, ast.Name) and t.value.id in got:
            changed = x
          elif isinstance(x, ast.AugAssign) and isinstance(t, ast.Name) and t.id in got:
            changed = x
    chk.ob(rid, changed is None or fresh(accessor), None,
           '%s leaves the annotation data as it found it' % builder.split('.')[-1],
           '`%s` changes the value %s() hands out, and that value is a stored object: the '
           'second time the SQL of the predicate is generated (another reader, another '
           'requested predicate) the clause is built from what is left'
           % (norm(changed, 50) if changed is not None else '', accessor.split('.')[-1]),
           fi=v.fi, node=changed)


def _composition(repo, v, expr):
  """body, then OrderByClause(name), then LimitClause(name) among the operands
  of the returned expression (`a + b + c` or `'..%s %s' % (a, b, c)`), each
  operand read through single-definition locals, parallel / tuple unpackings
  and helpers of the class that return a tuple."""
  def kinds(e, view, depth=0):
    out = set()
    if depth > 4 or e is None:
      return out
    for x in ast.walk(e):
      if isinstance(x, ast.Call):
        tg = repo.resolve(view.fi, x)
        if OBCLAUSE in tg and arg_name(x, 0) == 'name':
          out.add('ob')
        elif LIMCLAUSE in tg and arg_name(x, 0) == 'name':
          out.add('lim')
        elif SINGLE in tg or call_tail(x) == 'join':
          out.add('body')
        else:
          for t in tg:
            if t.startswith('universe.LogicaProgram.') and t != view.fi.fq and depth < 3:
              try:
                h = FnView(repo, t)
              except AnalysisError:
                continue
              for _, r_ in h.returns():
                if r_.value is not None and not isinstance(r_.value, ast.Tuple):
                  out |= kinds(r_.value, h, depth + 1)
      elif isinstance(x, ast.Name) and isinstance(x.ctx, ast.Load):
        d = view.single_defs().get(x.id)
        if d is None:
          try:
            d = view.reaching_value(x)
          except Exception:
            d = None
        if d is not None:
          out |= kinds(d, view, depth + 1)
          continue
        # a, b = self.Helper(name): element i of the tuple the helper returns
        for st in walk_local(view.fi.node):
          if isinstance(st, ast.Assign) and len(st.targets) == 1 and \
              isinstance(st.targets[0], ast.Tuple) and isinstance(st.value, ast.Call):
            names = [t_.id if isinstance(t_, ast.Name) else None for t_ in st.targets[0].elts]
            if x.id in names:
              i_ = names.index(x.id)
              for t in repo.resolve(view.fi, st.value):
                try:
                  h = FnView(repo, t)
                except AnalysisError:
                  continue
                if arg_name(st.value, 0) != 'name':
                  continue
                for _, r_ in h.returns():
                  if isinstance(r_.value, ast.Tuple) and i_ < len(r_.value.elts):
                    sub = kinds(r_.value.elts[i_], h, depth + 1)
                    out |= sub
          # appended in a loop / list of bodies
        if x.id not in view.single_defs():
          for el in _elements_of(view, x.id):
            out |= kinds(el, view, depth + 1)
    return out
  e = expr
  if isinstance(e, ast.Name):
    e = v.single_defs().get(e.id, e)
  if isinstance(e, ast.BinOp) and isinstance(e.op, ast.Mod):
    ops = list(e.right.elts) if isinstance(e.right, ast.Tuple) else [e.right]
  else:
    ops, todo = [], [e]
    while todo:
      y = todo.pop()
      if isinstance(y, ast.BinOp) and isinstance(y.op, ast.Add):
        todo += [y.right, y.left]
      else:
        ops.append(y)
  seq = [kinds(o, v) for o in ops]
  def first(k):
    return next((i for i, s_ in enumerate(seq) if k in s_), None)
  def last(k):
    idx = [i for i, s_ in enumerate(seq) if k in s_]
    return idx[-1] if idx else None
  if None in (first('body'), first('ob'), first('lim')):
    return False
  return last('body') < first('ob') and last('ob') < first('lim') and \
      not any(('ob' in s_ and 'lim' in s_) or ('body' in s_ and ('ob' in s_ or 'lim' in s_)) for s_ in seq)
