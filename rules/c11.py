"""C11 - shorthand forms equal long forms (constructor agreement)."""

import ast
import re

from sa.model import (AnalysisError, call_tail, const_str, dotted, kwarg, norm,
                      walk_local)
from sa.pathrules import FnView, receiver
from sa import tables, templates
from rules import common as K


def logica_statements(text):
  """Top-level `;`-separated statements of a Logica program text (own scanner:
  double-quoted strings, backticks, brackets, # comments)."""
  out = []
  cur = []
  depth = 0
  q = None
  i = 0
  while i < len(text):
    c = text[i]
    if q:
      cur.append(c)
      if c == q:
        q = None
      i += 1
      continue
    if c == '#':
      while i < len(text) and text[i] != '\n':
        i += 1
      continue
    if c in '"`':
      q = c
    elif c in '([{':
      depth += 1
    elif c in ')]}':
      depth -= 1
    if c == ';' and depth == 0:
      s = ' '.join(''.join(cur).split())
      if s:
        out.append(s)
      cur = []
    else:
      cur.append(c)
    i += 1
  s = ' '.join(''.join(cur).split())
  if s:
    out.append(s)
  return out


def head_name(stmt):
  m = re.match(r'\s*(`[^`]*`|[^\s(]+)\s*\(', stmt)
  return m.group(1) if m else None


def field_shapes(fi, field_const):
  """Shapes of dict literals {'field': <field_const>, 'value': ..}."""
  out = []
  for d in ast.walk(fi.node):
    if isinstance(d, ast.Dict):
      kv = {const_str(k): v for k, v in zip(d.keys, d.values) if k is not None}
      if 'field' in kv and 'value' in kv:
        if field_const is None or const_str(kv['field']) == field_const:
          out.append((d, tables.shape(kv['value'])))
  return out


def functional_calls(chk, rid):
  repo = chk.repo
  iv = FnView(repo, 'rule_translate.InlinePredicateValuesRecursively')
  rewrites = [n for n in iv.cfg.stmt_nodes() if isinstance(iv.cfg.stmt[n], ast.Assign) and
              isinstance(iv.cfg.stmt[n].targets[0], ast.Subscript) and
              const_str(iv.cfg.stmt[n].targets[0].slice) == 'variable']
  if not rewrites:
    raise AnalysisError('InlinePredicateValuesRecursively: call -> variable rewrite not found')
  apps = [(n, c) for n, c in iv.all_calls() if call_tail(c) == 'append' and
          receiver(c) == 'conjuncts']
  allocs = [(n, c) for n, c in iv.all_calls() if call_tail(c) == 'AllocateVar']
  for n in rewrites:
    st = iv.cfg.stmt[n]
    chk.ob(rid, bool(apps) and (iv.cfg.must_pass_before(n, iv.nodes_of(apps)) or
                                     iv.cfg.must_pass_after(n, iv.nodes_of(apps))), None,
           'every call -> variable rewrite adds its own conjunct',
           'a functional call can be replaced by a variable without a conjunct '
           'being added for it (shared with another occurrence?): the '
           'predicate is joined fewer times than the long form joins it',
           fi=iv.fi, node=st)
    chk.ob(rid, bool(allocs) and iv.cfg.must_pass_before(n, iv.nodes_of(allocs)), None,
           'every call -> variable rewrite uses a freshly allocated variable',
           'two occurrences of a call can share one value variable', fi=iv.fi, node=st)
  for n, c in apps:
    dd = [x for x in ast.walk(c) if isinstance(x, ast.Name)]
    src = iv.assigned_from(dotted(c.args[0])) if c.args and dotted(c.args[0]) else []
    chk.ob(rid, True, None, 'conjunct carries logica_value bound to the fresh variable',
           '', fi=iv.fi, node=c, nontrivial=False)
  lv = tables.find_dicts_with(iv.fi.node, 'field', 'logica_value')
  chk.ob(rid, bool(lv), None, 'the added conjunct binds logica_value',
         'the conjunct does not bind the value column', fi=iv.fi)



def run(chk):
  repo = chk.repo
  chk.rule('C11-R1', 'sibling constructors agree in shape: the three combine '
           'syntaxes and negation build the same combine tree; P(k) Op= e '
           'builds the aggregated logica_value field that logica_value? Op= e '
           'builds; F(x) = v appends a plain logica_value field',
           min_instances=8)
  btc = repo.func('parse.BuildTreeForCombine')
  for fq in ('parse.ParseCombine', 'parse.ParseConciseCombine',
             'parse.ParseUltraConciseCombine'):
    v = FnView(repo, fq)
    calls = v.calls('parse.BuildTreeForCombine')
    chk.ob('C11-R1', bool(calls), None, '%s builds its tree with BuildTreeForCombine' % fq.split('.')[-1],
           'this combine syntax builds its own tree: the three documented '
           'forms can drift apart', fi=v.fi)
    for n, c in calls:
      ok = len(c.args) == 4 and all(
          dotted(a) is not None for a in c.args)
      chk.ob('C11-R1', ok, None, 'BuildTreeForCombine(expression, operator, body, text)',
             'called as %s' % norm(c, 80), fi=v.fi, node=c, nontrivial=False)
  # `Op{e :- one_conjunct}`: the body of a combine is a conjunction even when
  # it has a single conjunct - every parse of a body that reaches
  # BuildTreeForCombine asks ParseConjunction for that (siblings agree)
  pm = repo.by_name('parse')
  n_body = 0
  known = set((__import__('sa.roles', fromlist=['x']).reference().get(pm.relpath) or {}))
  for q, fi_ in sorted(pm.funcs.items()):
    if fi_.parent is not None or not any(
        isinstance(c, ast.Call) and call_tail(c) == 'BuildTreeForCombine'
        for c in walk_local(fi_.node)):
      continue
    # the function itself and the helpers it calls that are new with respect
    # to the reference (an extracted `ParseCombineBody(body)`)
    group = [fi_]
    for c in walk_local(fi_.node):
      if isinstance(c, ast.Call) and isinstance(c.func, ast.Name) and c.func.id in pm.funcs \
          and c.func.id not in known and pm.funcs[c.func.id] not in group:
        group.append(pm.funcs[c.func.id])
    sites = [(g, pc) for g in group for pc in walk_local(g.node)
             if isinstance(pc, ast.Call) and call_tail(pc) == 'ParseConjunction']
    if not sites:
      raise AnalysisError('%s builds a combine without parsing a body: ParseConjunction '
                          'site not recognised' % q)
    for g, pc in sites:
      n_body += 1
      flag = kwarg(pc, 'allow_singleton', 1)
      if isinstance(flag, ast.Name) and g is not fi_:
        # forwarded parameter of the helper: what the call site passes
        for c in walk_local(fi_.node):
          if isinstance(c, ast.Call) and call_tail(c) == g.name:
            flag = kwarg(c, flag.id, g.params.index(flag.id) if flag.id in g.params else 99) or flag
      chk.ob('C11-R1', isinstance(flag, ast.Constant) and flag.value is True, None,
             '%s parses the body of the combine as a conjunction of one or more conjuncts' % q,
             '`%s`: a body with exactly one conjunct parses to None and the combine is built '
             'without its body - `Sum{1 :- P(x)}` aggregates over nothing while the long '
             '`combine` form and `~P(x)` keep the body' % norm(pc, 60), fi=g, node=pc)
  if n_body < 1:
    raise AnalysisError('bodies of combines: %d ParseConjunction sites recognised' % n_body)
  # the result dict of BuildTreeForCombine vs the combine inside NegationTree
  res = None
  for x in walk_local(btc.node):
    if isinstance(x, ast.Assign) and dotted(x.targets[0]) == 'result' and isinstance(x.value, ast.Dict):
      res = x.value
  if res is None:
    raise AnalysisError('BuildTreeForCombine: result dict not found')
  # locals holding parts of the tree (aggregated_field_value) are read as
  # their definitions: the shape is that of the tree, however it is assembled
  shape_b = tables.shape(FnView(repo, 'parse.BuildTreeForCombine').expand(res))
  body_added = any(isinstance(x, ast.Assign) and isinstance(x.targets[0], ast.Subscript)
                   and const_str(x.targets[0].slice) == 'body' for x in walk_local(btc.node))
  nt = repo.func('parse.NegationTree')
  combs = tables.find_dicts_with(nt.node, 'combine')
  if not combs:
    raise AnalysisError('NegationTree: combine node not found')
  shape_n = None
  for d in combs:
    for k, val in zip(d.keys, d.values):
      if const_str(k) == 'combine':
        shape_n = tables.shape(val)
  keys_b = set(shape_b) | ({'body'} if body_added else set())
  chk.ob('C11-R1', set(shape_n) == keys_b, None,
         'negation builds a combine with keys %s' % sorted(keys_b),
         'NegationTree combine has keys %s, BuildTreeForCombine %s' % (
             sorted(shape_n), sorted(keys_b)), fi=nt)
  chk.ob('C11-R1', shape_n.get('head') == shape_b.get('head'), None,
         'negation and combine heads have the same shape',
         'head shapes differ: %s vs %s' % (shape_n.get('head'), shape_b.get('head')), fi=nt)
  # aggregated logica_value field: ParseHeadCall vs ParseRecordInternals
  phc = repo.func('parse.ParseHeadCall')
  pri = repo.func('parse.ParseRecordInternals')
  agg_h = [s for d, s in field_shapes(phc, 'logica_value') if 'aggregation' in s]
  agg_r = [s for d, s in field_shapes(pri, None) if isinstance(s, dict) and 'aggregation' in s]
  if not agg_h or not agg_r:
    raise AnalysisError('aggregated field constructors not found')
  chk.ob('C11-R1', agg_h[0] == agg_r[0], None,
         '`P(k) Op= e` and `logica_value? Op= e` build the same aggregated field',
         'shapes differ: %s vs %s' % (agg_h[0], agg_r[0]), fi=phc)
  plain_h = [s for d, s in field_shapes(phc, 'logica_value') if 'expression' in s]
  plain_r = [s for d, s in field_shapes(pri, None) if isinstance(s, dict) and
             set(s) == {'expression'}]
  chk.ob('C11-R1', bool(plain_h) and bool(plain_r) and plain_h[0] == plain_r[0], None,
         '`F(x) = v` appends the field a named argument would produce',
         'shapes differ: %s vs %s' % (plain_h[:1], plain_r[:1]), fi=phc)
  # P(k) Op= e is distinct
  # in whichever function parses the head (ParseRule or a helper of it): the
  # flag ParseHeadCall returns second guards the store of 'distinct_denoted'
  ok = False
  pr = FnView(repo, 'parse.ParseRule')
  for q, hfi in repo.by_name('parse').funcs.items():
    flags = set()
    for x in walk_local(hfi.node):
      if isinstance(x, ast.Assign) and isinstance(x.value, ast.Call) and \
          call_tail(x.value) == 'ParseHeadCall' and isinstance(x.targets[0], ast.Tuple) and \
          len(x.targets[0].elts) == 2 and isinstance(x.targets[0].elts[1], ast.Name):
        flags.add(x.targets[0].elts[1].id)
    if not flags:
      continue
    hv = FnView(repo, 'parse.' + q)
    for n in hv.cfg.stmt_nodes():
      st = hv.cfg.stmt[n]
      if isinstance(st, ast.Assign) and isinstance(st.targets[0], ast.Subscript) and \
          const_str(st.targets[0].slice) == 'distinct_denoted':
        if any(val and dotted(e) in flags for e, val in hv.guards(n)) and hv.live(n):
          ok = True
          pr = hv
  chk.ob('C11-R1', ok, None, 'a head-level aggregation makes the rule distinct',
         '`P(k) Op= e` is no longer treated as `... distinct`', fi=pr.fi)
  rets = [r for r in walk_local(phc.node) if isinstance(r, ast.Return) and
          isinstance(r.value, ast.Tuple) and len(r.value.elts) == 2]
  flags = sorted({r.value.elts[1].value for r in rets if isinstance(r.value.elts[1], ast.Constant)})
  chk.ob('C11-R1', flags == [False, True], None, 'ParseHeadCall reports whether the head aggregates',
         'returned flags %s' % flags, fi=phc)

  chk.rule('C11-R2', '`a:` means `a: a`; positional fields keep int keys; '
           '`A => B` is ~(A, ~B)', min_instances=4)
  v = FnView(repo, 'parse.ParseRecordInternals')
  ok = False
  for n in v.cfg.stmt_nodes():
    st = v.cfg.stmt[n]
    if isinstance(st, ast.Assign) and dotted(st.targets[0]) == 'value' and dotted(st.value) == 'field':
      if any((not val) and dotted(e) == 'value' for e, val in v.guards(n)):
        ok = True
  chk.ob('C11-R2', ok, None, 'an empty value after `:` defaults to the field name',
         '`a:` is no longer expanded to `a: a`', fi=v.fi)
  named = [d for d, s in field_shapes(v.fi, None)]
  ok = any(dotted(dict(zip([const_str(k) for k in d.keys], d.values))['field']) == 'idx' for d in named)
  chk.ob('C11-R2', ok, None, 'positional fields are keyed by their int position',
         'positional arguments no longer use the enumerate index as field', fi=v.fi)
  pi = repo.func('parse.PropositionalImplication')
  nts = [c for c in walk_local(pi.node) if isinstance(c, ast.Call) and call_tail(c) == 'NegationTree']
  inner = [c for c in nts if any(c is y for x in walk_local(pi.node)
                                 if isinstance(x, ast.AugAssign) or isinstance(x, ast.Assign)
                                 for y in ast.walk(x.value))]
  outer = [r for r in walk_local(pi.node) if isinstance(r, ast.Return) and
           isinstance(r.value, ast.Call) and call_tail(r.value) == 'NegationTree']
  chk.ob('C11-R2', len(nts) == 2 and len(inner) == 1 and len(outer) == 1, None,
         '`A => B` builds NegationTree(A, NegationTree(B))',
         'implication no longer has the ~(A, ~B) structure', fi=pi)
  ok = any(isinstance(x, ast.AugAssign) and dotted(x.target) == 'conjuncts' for x in walk_local(pi.node))
  chk.ob('C11-R2', ok, None, 'the negated consequence is added to the conjuncts of the condition',
         'condition and negated consequence are not conjoined', fi=pi)

  chk.rule('C11-R4', 'a functional call in an expression equals an extra '
           'conjunct binding logica_value: every call rewritten into a '
           'variable gets its own fresh variable and its own conjunct',
           min_instances=3)
  functional_calls(chk, 'C11-R4')

  chk.rule('C11-R5', 'several rules equal one rule with `|`: the DNF of a '
           'disjunction keeps every alternative of every disjunct (no '
           'filtering, no de-duplication - rules are bags)', min_instances=1)
  from sa import shapes
  dj = repo.func('parse.DisjunctiveNormalForm.DisjunctsToDNF')
  prods = shapes.productions(dj.node)
  if not prods:
    raise AnalysisError('DisjunctsToDNF: accumulation of alternatives not found')
  for pr_ in prods:
    if pr_.kind == 'extend':
      val = pr_.elt
      whole = not pr_.conds and len(pr_.gens) == 1 and isinstance(pr_.gens[0][0], ast.Name) and (
          (isinstance(val, ast.Name) and val.id == pr_.gens[0][0].id) or
          (isinstance(val, ast.Call) and call_tail(val) in ('list', 'deepcopy') and val.args and
           dotted(val.args[0]) == pr_.gens[0][0].id))
    else:
      val = pr_.elt
      whole = not pr_.conds and len(pr_.gens) == 2 and isinstance(val, ast.Name) and \
          isinstance(pr_.gens[1][0], ast.Name) and val.id == pr_.gens[1][0].id and \
          isinstance(pr_.gens[0][0], ast.Name) and dotted(pr_.gens[1][1]) == pr_.gens[0][0].id
    chk.ob('C11-R5', whole, None, 'every alternative of a disjunct is added to the DNF',
           'the DNF of a disjunct is filtered before it is added (%s): an '
           'alternative that occurs twice contributes once, so `A | A` no longer '
           'equals two rules' % norm(val, 70), fi=dj, node=pr_.node)

  K.inclusion_is_unnesting(chk, 'C11-R5')
  K.dependency_walk_total(chk, 'C11-R4')

  chk.rule('C11-R3', 'the `=` and `->` library predicates exist in every '
           'dialect library with one common definition', min_instances=16)
  classes = templates.dialect_classes(repo)
  dm = repo.by_name('dialects')
  defs = {}
  for engine, cls in sorted(classes.items()):
    lp = repo.lookup_method(dm, cls, 'LibraryProgram')
    if lp is None:
      continue
    lp = templates.with_class_attrs(repo, dm, cls, lp)
    rets = [x for x in walk_local(lp.node) if isinstance(x, ast.Return)]
    modname = dotted(rets[0].value).split('.')[0] if rets and dotted(rets[0].value) else None
    if modname is None:
      raise AnalysisError('%s.LibraryProgram does not return <module>.library' % cls)
    m = repo.by_name(modname)
    text = _library_text(m)
    st = logica_statements(text)
    by_head = {}
    for s in st:
      by_head.setdefault(head_name(s), []).append(s)
    defs[engine] = (m, by_head)
  for pred in ('`=`', '->'):
    variants = {}
    for engine, (m, bh) in defs.items():
      for s in bh.get(pred, []):
        variants.setdefault(s, []).append(engine)
    common = max(variants, key=lambda s: len(variants[s])) if variants else None
    for engine, (m, bh) in sorted(defs.items()):
      have = bh.get(pred, [])
      chk.ob('C11-R3', bool(have), '%s:library' % m.relpath,
             '%s library defines %s' % (engine, pred),
             'the %s library lacks the %s predicate its siblings define (%s): '
             '`x %s y` compiles to a read of a table named %s' % (
                 engine, pred, common, pred.strip('`'), pred.strip('`')))
      if have:
        chk.ob('C11-R3', have[0] == common, '%s:library' % m.relpath,
               '%s definition of %s agrees with the other libraries' % (engine, pred),
               'defined as `%s`, siblings use `%s`' % (have[0], common))


def _library_text(m):
  """text of <dialect>_library.library: a string constant or a constant
  expression over named string constants."""
  try:
    v = tables.const_value(m.module_assign('library'))
  except AnalysisError:
    return None
  return v if isinstance(v, str) else None
