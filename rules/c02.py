"""C02 - aggregation, distinct and negation (structural clauses)."""

import ast

from sa.model import (AnalysisError, call_tail, const_str, dotted, kwarg, norm,
                      walk_local)
from sa.pathrules import FnView, arg_is_const, receiver
from sa import tables, templates
from rules import common as K

EXTRACT = 'rule_translate.ExtractRuleStructure'
DISAMB = 'rule_translate.DisambiguateCombineVariables'


def combine_disambiguation_total(chk, rid):
  """the disambiguation reaches every combine of the rule: no path leaves
  DisambiguateCombineVariables before the loop that renames the variables of
  each sub-combine (a rule with a single combine can still be merged with
  another one by injection)."""
  repo = chk.repo
  dcv = FnView(repo, 'rule_translate.DisambiguateCombineVariables')
  worker = K.combine_disambiguator(repo)
  if worker.fq == dcv.fi.fq:
    # the renaming is done by a loop of DisambiguateCombineVariables itself
    # (recursion written with an explicit stack): that loop is the work
    wcalls = [n for n, c in dcv.all_calls() if call_tail(c) == 'AllocateVar']
  else:
    wcalls = [n for n, c in dcv.all_calls() if worker.fq in repo.resolve(dcv.fi, c) or
              call_tail(c) == worker.name]
  heads = set()
  for n in wcalls:
    hs = [h for h, pol in dcv.cfg.header_of(n)
          if isinstance(dcv.cfg.stmt[h], (ast.For, ast.While))]
    if hs:
      heads.add(hs[0])       # the outermost loop the work sits in
  if not heads:
    raise AnalysisError('DisambiguateCombineVariables: loop over the sub-combines not found')
  chk.ob(rid, dcv.cfg.must_pass_before(dcv.cfg.exit, heads), None,
         'DisambiguateCombineVariables renames the variables of every combine (no early exit)',
         'a path returns before the combines are visited: variables of that '
         'combine keep their names and collide with equally named variables '
         'of another combine once rules are injected into each other', fi=dcv.fi)


def run(chk):
  repo = chk.repo
  chk.rule('C02-R1', 'variables local to different combines are kept apart: '
           'DisambiguateCombineVariables runs on the deep-copied rule before '
           'value inlining, select extraction and body extraction (skipped '
           'only for the Combine rule itself)', min_instances=4)
  v = FnView(repo, EXTRACT)
  dis = v.calls(DISAMB)
  skip = set()
  for b, (h, pol) in v.cfg.branch_of.items():
    st = v.cfg.stmt[h]
    if isinstance(st, ast.If) and 'Combine' in norm(st.test) and \
        any(n in v.cfg.reachable(b) for n, _ in dis):
      # the other branch of the test guarding the call
      for b2, (h2, pol2) in v.cfg.branch_of.items():
        if h2 == h and pol2 != pol:
          skip.add(b2)
  chk.ob('C02-R1', bool(dis) and bool(skip), None,
         'DisambiguateCombineVariables is called unless the head is Combine',
         'combine variables are never disambiguated (or the Combine '
         'exemption is gone and variables are renamed twice)', fi=v.fi)
  for callee in ('rule_translate.InlinePredicateValues', 'rule_translate.HeadToSelect',
                 'rule_translate.ExtractConjunctiveStructure'):
    for site in v.need_calls(callee):
      ok = bool(dis) and v.cfg.must_pass_before(site[0], v.nodes_of(dis) | skip)
      chk.ob('C02-R1', ok, None, 'disambiguation before %s' % callee.split('.')[-1],
             'the rule reaches %s with same-named variables of sibling '
             'combines still shared: substituting one combine into another '
             'captures variables' % callee.split('.')[-1], fi=v.fi, node=site[1])
  for n, c in dis:
    ok = c.args and dotted(c.args[0]) == 'rule'
    src = v.assigned_from('rule')
    copied = any(isinstance(s, ast.Call) and call_tail(s) == 'deepcopy' for s in src)
    chk.ob('C02-R1', ok and copied, None, 'disambiguation renames inside the private copy',
           'variables are renamed inside the rule object of the program', fi=v.fi, node=c)

  combine_disambiguation_total(chk, 'C02-R1')
  K.fresh_combine_names(chk, 'C02-R1')

  # emptiness / dependency walkers keep their restrictions on the way down
  # (e.g. RemoveRulesProvenToBeNil must not look inside combines: a negation or
  # an aggregate over an empty predicate is not empty)
  if K.recursive_forwarding(chk, 'C02-R1') < 2:
    raise AnalysisError('no recursive walker with forwarded optional parameters found')

  chk.rule('C02-R2', 'a combine is compiled as a correlated sub-query: the '
           'outer vocabulary and is_combine=True reach TranslateRule / '
           'SingleRuleSql, DecorateCombineRule is applied iff is_combine, '
           'tables of the sub-query see only the external vocabulary',
           min_instances=6)
  cv = FnView(repo, 'expr_translate.QL.ConvertToSql')
  trs = [(n, c) for n, c in cv.all_calls() if call_tail(c) == 'TranslateRule']
  if not trs:
    raise AnalysisError('ConvertToSql: TranslateRule call not found')
  for n, c in trs:
    voc = c.args[1] if len(c.args) > 1 else kwarg(c, 'external_vocabulary')
    chk.ob('C02-R2', voc is not None and dotted(voc) == 'self.vocabulary', None,
           'combine is translated with the current vocabulary as external vocabulary',
           'the sub-query of a combine is compiled with %s: outer variables '
           'are not visible (or wrong ones are)' % (norm(voc) if voc is not None else 'nothing'),
           fi=cv.fi, node=c)
    chk.ob('C02-R2', arg_is_const(c, 'is_combine', 2, True), None,
           'combine is translated with is_combine=True',
           'the aggregation scope of the combine is not disambiguated', fi=cv.fi, node=c)
    g = [(e, val) for e, val in cv.guards(n)
         if val and isinstance(e, ast.Compare) and const_str(e.left) == 'combine']
    chk.ob('C02-R2', bool(g), None, "TranslateRule is the 'combine' branch", '', fi=cv.fi,
           node=c, nontrivial=False)
  tr = FnView(repo, 'universe.SubqueryTranslator.TranslateRule')
  fw = tr.need_calls('universe.LogicaProgram.SingleRuleSql')
  for n, c in fw:
    ic = kwarg(c, 'is_combine', 3)
    # the flag itself, or the constant the dominating test of the flag implies
    # (absent = the default False)
    known = [val for e, val in tr.guards(n) if dotted(e) == 'is_combine']
    ic_ok = dotted(ic) == 'is_combine' or (
        known and len(set(known)) == 1 and
        ((ic is None and known[0] is False) or
         (isinstance(ic, ast.Constant) and ic.value is known[0])))
    ok = bool(ic_ok) and \
        dotted(kwarg(c, 'external_vocabulary', 2)) == 'external_vocabulary' and \
        dotted(c.args[0]) == 'rule'
    chk.ob('C02-R2', ok, None, 'TranslateRule forwards rule, external_vocabulary, is_combine',
           'the sub-query translator drops or swaps an argument: %s' % norm(c, 90),
           fi=tr.fi, node=c)
  K.translation_not_memoised(chk, 'C02-R2')
  s = FnView(repo, 'universe.LogicaProgram.SingleRuleSql')
  dec = [(n, c) for n, c in s.all_calls() if call_tail(c) == 'DecorateCombineRule']
  ok = bool(dec)
  for n, c in dec:
    ok = ok and any(val and dotted(e) == 'is_combine' for e, val in s.guards(n))
  chk.ob('C02-R2', ok, None, 'DecorateCombineRule applied iff is_combine',
         'aggregation scope decoration is applied to ordinary rules or not to combines',
         fi=s.fi)
  dc = FnView(repo, 'dialects.DecorateCombineRule')
  # the store INTO the rule (subscript target) of a value that, read through
  # locals, is the MagicalEntangle call; the append of the `x in [0]` conjunct
  ent = [n for n in dc.cfg.stmt_nodes() if isinstance(dc.cfg.stmt[n], ast.Assign) and
         any(isinstance(t_, ast.Subscript) for t_ in dc.cfg.stmt[n].targets) and
         'MagicalEntangle' in dc.deep_text(dc.expand(dc.cfg.stmt[n].value, 3))]
  inc = [n for n, c in dc.all_calls() if call_tail(c) == 'append' and
         'inclusion' in dc.deep_text(dc.expand(c, 3))]
  for n, r in dc.returns():
    chk.ob('C02-R2', bool(ent) and bool(inc) and dc.cfg.must_pass_before(n, ent) and
           dc.cfg.must_pass_before(n, inc), None,
           'every combine rule is entangled (MagicalEntangle + `x in [0]`) before it is returned',
           'a path of DecorateCombineRule returns the rule undecorated: an '
           'aggregate whose argument mentions only outer columns is attached '
           'to the outer SELECT by SQL, whatever the sub-query reads',
           fi=dc.fi, node=r)
  K.dialect_entangles(chk, 'C02-R2')
  K.entangle_attached(chk, 'C02-R2')
  ext = s.need_calls(EXTRACT)
  for n, c in ext:
    decorated = dec and c.args and isinstance(c.args[0], ast.Name) and any(
        isinstance(x, ast.Assign) and dotted(x.targets[0]) == c.args[0].id and
        x.value is dec[0][1] for x in walk_local(s.fi.node))
    voc = c.args[2] if len(c.args) > 2 else kwarg(c, 'external_vocabulary')
    chk.ob('C02-R2', bool(decorated) and dotted(voc) == 'external_vocabulary', None,
           'the (decorated) rule is extracted with the external vocabulary',
           'ExtractRuleStructure is given %s' % norm(c, 80), fi=s.fi, node=c)
  a = FnView(repo, K.ASSQL)
  tts = [(n, c) for n, c in a.all_calls() if call_tail(c) == 'TranslateTable']
  if not tts:
    raise AnalysisError('AsSql: TranslateTable call not found')
  for n, c in tts:
    chk.ob('C02-R2', len(c.args) > 1 and dotted(c.args[1]) == 'self.external_vocabulary',
           None, 'tables are translated with the external (not the full) vocabulary',
           'FROM sub-queries see %s' % (norm(c.args[1]) if len(c.args) > 1 else '?'),
           fi=a.fi, node=c)

  chk.rule('C02-R3', 'GROUP BY covers exactly the non-aggregated select keys '
           'of distinct rules, in all three dialect modes; every dialect '
           'answers GroupBySpecBy() with a handled mode', min_instances=12)
  dv = []
  for n in v.cfg.stmt_nodes():
    st = v.cfg.stmt[n]
    if isinstance(st, ast.Assign) and dotted(st.targets[0]) == 's.distinct_vars':
      dv.append((n, st))
  if not dv:
    raise AnalysisError('ExtractRuleStructure: assignment of s.distinct_vars not found')
  for n, st in dv:
    g = any(val and 'distinct_denoted' in norm(e) for e, val in v.guards(n))
    chk.ob('C02-R3', g, None, 'distinct_vars computed only for distinct rules',
           'non-distinct rules get GROUP BY columns', fi=v.fi, node=st)
    subs = [x for x in ast.walk(st.value) if isinstance(x, ast.BinOp) and isinstance(x.op, ast.Sub)]
    ok = any('select' in norm(x.left) and 'aggregated_vars' in norm(x.right) for x in subs)
    chk.ob('C02-R3', ok, None, 'distinct_vars = select keys - aggregated keys',
           'the GROUP BY key set is %s' % norm(st.value, 80), fi=v.fi, node=st)
    srt = isinstance(st.value, ast.Call) and call_tail(st.value) == 'sorted'
    chk.ob('C02-R3', srt, None, 'distinct_vars is sorted (set difference)',
           'GROUP BY order follows set iteration order', fi=v.fi, node=st)
  hs = repo.func('rule_translate.HeadToSelect')
  agg_app = [x for x in walk_local(hs.node) if isinstance(x, ast.Call) and
             call_tail(x) == 'append' and receiver(x) == 'aggregated_vars']
  ok = False
  hv = FnView(repo, 'rule_translate.HeadToSelect')
  for n, c in hv.all_calls():
    if call_tail(c) == 'append' and receiver(c) == 'aggregated_vars':
      ok = any(isinstance(e, ast.Compare) and len(e.ops) == 1 and const_str(e.left) == 'aggregation'
               and ((val and isinstance(e.ops[0], ast.In)) or
                    (val is False and isinstance(e.ops[0], ast.NotIn)))
               for e, val in hv.guards(n))
  chk.ob('C02-R3', ok, None, "aggregated_vars collects exactly the fields with an 'aggregation' value",
         'aggregated fields are not recognised: they become GROUP BY keys', fi=hs)
  # modes handled by AsSql: tests of GroupBySpecBy() (directly, or of a local
  # holding its result) against a constant
  def spec_test(e):
    if isinstance(e, ast.Compare) and len(e.ops) == 1 and isinstance(e.ops[0], ast.Eq) and \
        const_str(e.comparators[0]):
      l = a.expand(e.left)
      if isinstance(l, ast.Call) and call_tail(l) == 'GroupBySpecBy':
        return const_str(e.comparators[0])
    return None
  handled = set()
  for x in walk_local(a.fi.node):
    if spec_test(x):
      handled.add(spec_test(x))
  if len(handled) < 2:
    raise AnalysisError('AsSql: GroupBySpecBy dispatch not recognised')
  for engine, cls in sorted(templates.dialect_classes(repo).items()):
    val, fi = templates.dialect_const(repo, cls, 'GroupBySpecBy')
    if fi is None:
      continue    # reported by C09-R1
    chk.ob('C02-R3', val in handled, None, '%s.GroupBySpecBy() = %r is handled by AsSql' % (cls, val),
           'AsSql handles %s only: internal assertion for every distinct rule '
           'on %s' % (sorted(handled), engine), fi=fi)
  # each mode emits over the distinct vars only: the joined sequence ranges
  # over the select keys that are distinct vars (read through local names)
  n_modes = 0
  for n in a.cfg.stmt_nodes():
    st = a.cfg.stmt[n]
    if isinstance(st, (ast.AugAssign, ast.Assign, ast.Return)) and isinstance(st.value, ast.Call) and \
        call_tail(st.value) == 'join':
      modes = [spec_test(e) for e, val in a.guards(n) if val and spec_test(e)]
      if modes:
        n_modes += 1
        text = norm(a.expand(st.value), 3000)
        chk.ob('C02-R3', 'self.distinct_vars' in text and 'self.select' in text, None,
               "GROUP BY mode '%s' ranges over the select keys that are distinct vars" % modes[-1],
               'mode %s groups by %s' % (modes[-1], norm(st.value, 80)), fi=a.fi, node=st)
  if n_modes < 2:
    raise AnalysisError('AsSql: GROUP BY emission per mode not recognised')
  # the key list is exactly the select keys that are distinct vars: a
  # comprehension over the select keys whose only filter is membership in
  # self.distinct_vars (dropping e.g. constant columns removes the GROUP BY of
  # a rule whose keys are all constants: one row per body solution instead of one)
  keylists = []
  for x in walk_local(a.fi.node):
    if isinstance(x, ast.ListComp) and 'self.distinct_vars' in norm(x) and 'self.select' in norm(x):
      keylists.append(x)
  if not keylists:
    raise AnalysisError('AsSql: list of GROUP BY keys not recognised')
  for kl in keylists:
    ifs = [i for g in kl.generators for i in g.ifs]
    exact = len(kl.generators) == 1 and len(ifs) == 1 and isinstance(ifs[0], ast.Compare) and \
        isinstance(ifs[0].ops[0], ast.In) and dotted(ifs[0].comparators[0]) == 'self.distinct_vars' \
        and dotted(kl.elt) == dotted(kl.generators[0].target) == dotted(ifs[0].left)
    chk.ob('C02-R3', exact, None,
           'GROUP BY keys are exactly the select keys that are distinct vars',
           'the key list is `%s`: some non-aggregated columns of a distinct rule '
           'are left out of GROUP BY (or the clause disappears when all are left '
           'out), so the rule returns one row per body solution' % norm(kl, 90),
           fi=a.fi, node=kl)

  chk.rule('C02-R4', 'aggregation operators: + and ++ map to built-ins that '
           'exist; every constructor of an aggregation node builds the key set '
           'the rewrite consumes; negation is IsNull(combine Min= 1)',
           min_instances=8)
  # several bodies of one aggregating predicate are joined by a positional
  # UNION ALL of their auxiliary rules: they may only be accepted when their
  # heads list the same fields IN THE SAME ORDER, so the signature that is
  # compared is an ordered sequence
  mb = FnView(repo, 'parse.MultiBodyAggregation.Rewrite')
  cmp_ = [x for x in walk_local(mb.fi.node) if isinstance(x, ast.Compare) and len(x.ops) == 1 and
          isinstance(x.ops[0], (ast.NotEq, ast.Eq)) and
          any(any(isinstance(r_, ast.Raise) for r_ in ast.walk(i_)) for i_ in walk_local(mb.fi.node)
              if isinstance(i_, ast.If) and any(y is x for y in ast.walk(i_.test)))]
  if not cmp_:
    raise AnalysisError('MultiBodyAggregation.Rewrite: signature comparison not recognised')
  unordered = None
  for x in cmp_:
    for side in (x.left, x.comparators[0]):
      texts = [mb.expand(side, 3)]
      for c in ast.walk(texts[0]):
        if isinstance(c, ast.Call):
          for t in repo.resolve(mb.fi, c):
            if t.startswith('parse.MultiBodyAggregation.'):
              h = FnView(repo, t)
              texts += [h.expand(r_.value, 3) for _, r_ in h.returns() if r_.value is not None]
              texts += [y for y in walk_local(h.fi.node) if isinstance(y, ast.Call) and
                        call_tail(y) in ('sort', 'reverse')]
      for t_ in texts:
        for c in ast.walk(t_):
          if isinstance(c, ast.Call) and call_tail(c) in ('sorted', 'set', 'frozenset', 'reversed',
                                                          'sort', 'reverse', 'Counter'):
            unordered = c
          elif isinstance(c, (ast.SetComp, ast.DictComp, ast.Set)):
            unordered = c
  chk.ob('C02-R4', unordered is None, None,
         'bodies of one aggregating predicate are accepted only with identical field order',
         'the signature compared across bodies is normalised by `%s`: bodies that list '
         'the same fields in another order are accepted, and the positional UNION ALL of '
         'their auxiliary rules puts aggregated values into key columns'
         % (norm(unordered, 50) if unordered is not None else ''), fi=mb.fi, node=cmp_[0])
  ao = repo.func('parse.AggergationsAsExpressions.AggregationOperator')
  base_f, _ = templates.class_table(repo, 'QL', 'BUILT_IN_FUNCTIONS')
  # the mapping is evaluated, not pattern-matched: AggregationOperator applied
  # to the constant operator (finite abstract interpretation, all paths)
  from sa.absint import Const, Interp, State, Sym
  mapping = {}
  op_param = [p_ for p_ in ao.params if p_ not in ('cls', 'self')][0]
  for op in ('+', '++'):
    env = {p_: Sym(p_) for p_ in ao.params}
    env[op_param] = Const(op)
    outs = []
    # a table-driven mapping (loop over a constant table of pairs) is unrolled
    policies = [dict(loop=lambda n_, s_: 'unroll')] if any(
        isinstance(x, ast.For) for x in walk_local(ao.node)) else []
    for hooks in policies + [{}]:
      try:
        outs = Interp(ao.node, hooks, max_paths=200).run(State(env=env))
        break
      except AnalysisError:
        outs = []
    vals = {o.value.v for o in outs if o.kind == 'return' and isinstance(o.value, Const)}
    if len(vals) == 1 and all(o.kind == 'return' and isinstance(o.value, Const) for o in outs):
      mapping[op] = vals.pop()
  for op in ('+', '++'):
    chk.ob('C02-R4', mapping.get(op) in base_f, None,
           "aggregation operator '%s' maps to built-in %s" % (op, mapping.get(op)),
           "'%s=' aggregation is rewritten to %r, which is not a built-in "
           'function' % (op, mapping.get(op)), fi=ao)
  want = {'operator', 'argument', 'expression_heritage'}
  builders = ['parse.ParseRecordInternals', 'parse.BuildTreeForCombine',
              'parse.ParseHeadCall', 'parse.NegationTree',
              'parse.MultiBodyAggregation.SplitAggregation']
  for b in builders:
    fi = repo.func(b)
    ds = tables.find_dicts_with(fi.node, 'aggregation')
    if not ds:
      raise AnalysisError('%s no longer builds an aggregation node' % b)
    for d in ds:
      for k2, val in zip(d.keys, d.values):
        if const_str(k2) == 'aggregation' and isinstance(val, ast.Dict):
          keys = {const_str(z) for z in val.keys}
          chk.ob('C02-R4', keys == want, None,
                 '%s builds aggregation{%s}' % (b.split('.', 1)[1], ', '.join(sorted(keys))),
                 'aggregation node has keys %s, the rewrite to expressions '
                 'reads %s' % (sorted(keys), sorted(want)), fi=fi, node=val)
  conv = repo.func('parse.AggergationsAsExpressions.Convert')
  reads = {const_str(x.slice) for x in walk_local(conv.node)
           if isinstance(x, ast.Subscript) and dotted(x.value) == 'a' and const_str(x.slice)}
  chk.ob('C02-R4', reads == want, None, 'Convert reads operator, argument, expression_heritage',
         'Convert reads %s' % sorted(reads), fi=conv)
  nt = repo.func('parse.NegationTree')
  src = norm(nt.node, 100000)
  ok = "'predicate_name': 'IsNull'" in src and \
      ("'operator': 'Min'" in src or "'operator': 'Max'" in src) and \
      "'number': '1'" in src and "'predicate_name': 'Combine'" in src
  chk.ob('C02-R4', ok, None, 'negation is IsNull(combine Min= 1 :- <negated>)',
         'the negation tree no longer has that shape', fi=nt)

  chk.rule('C02-R5', 'SQLite aggregate UDFs behind ArgMin/ArgMax/Set/List: '
           'arrival-order independence, heap discipline of the K-best '
           'buffers, no truthiness on data values', min_instances=5)
  from rules.c07 import aggregate_order
  aggregate_order(chk, 'C02-R5')
