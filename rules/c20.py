"""C20 - SQLite built-ins: writer/reader agreement (templates vs registrations)."""

import ast
import re

from sa.model import (AnalysisError, call_tail, const_str, dotted, kwarg, norm,
                      walk_local)
from sa.pathrules import FnView, receiver
from sa import tables, templates
from rules import common as K

SQL_SYNTAX = {'CAST', 'CASE', 'IN', 'EXISTS', 'VALUES', 'SELECT', 'FROM', 'WHERE',
              'OVER', 'FILTER', 'AS', 'AND', 'OR', 'NOT', 'WITH', 'UNION', 'ON',
              'USING', 'BY', 'T', 'INTERVAL'}
CORE_FALLBACK = set('''abs avg char coalesce count date datetime glob group_concat
hex ifnull iif instr json json_array json_array_length json_extract
json_group_array json_group_object json_insert json_object json_patch json_quote
json_remove json_replace json_set json_type json_valid julianday length like
lower ltrim max min nullif printf quote random replace round rtrim strftime
substr substring sum time total trim typeof unicode upper zeroblob format
sign'''.split())
# built-ins named by the property statement
NAMED = ['Range', 'Size', 'Element', 'Sort', 'ArrayConcat', 'Join', 'Split',
         'ToString', 'ToInt64', 'Least', 'Greatest', 'Agg+', 'Sum', 'Min', 'Max',
         'Avg', 'Count', 'List', 'Set', 'Agg++', 'IsNull', 'ValueOfUnnested',
         'MagicalEntangle']
NAMED_INFIX = ['in', '++', '+', '-', '*', '/', '%', '==', '<', '<=', '>', '>=', '!=',
               '&&', '||']


def core_functions():
  try:
    import sqlite3
    con = sqlite3.connect(':memory:')
    rows = con.execute('PRAGMA function_list').fetchall()
    con.close()
    names = {r[0].lower() for r in rows}
    if len(names) > 40:
      return names | {'sign'} - {'sign'}, 'PRAGMA function_list of the interpreter\'s sqlite3'
  except Exception:
    pass
  return set(CORE_FALLBACK), 'bundled list'


def registrations(repo):
  """{lower name: (nargs, kind, node)} from create_function/create_aggregate."""
  fi = repo.func('sqlite3_logica.ExtendConnectionWithLogicaFunctions')
  out = {}
  for c in tables.expand_calls(fi, ('create_function', 'create_aggregate')):
    if True:
      if len(c.args) < 3 or const_str(c.args[0]) is None:
        raise AnalysisError('registration with a non-literal name: %s' % norm(c, 60))
      n = c.args[1].value if isinstance(c.args[1], ast.Constant) else None
      out[const_str(c.args[0]).lower()] = (
          n, 'aggregate' if call_tail(c) == 'create_aggregate' else 'scalar', c)
  if len(out) < 20:
    raise AnalysisError('only %d SQLite registrations recognised' % len(out))
  return fi, out


_CALL = re.compile(r'([A-Za-z_][A-Za-z_0-9]*)\s*\(')


def calls_in_template(t):
  """[(function name, number of top-level args or None)] for identifiers in
  call position outside string literals."""
  out = []
  # blank out quoted text
  s = re.sub(r"'(?:[^']|'')*'", lambda m: "'" + ' ' * (len(m.group(0)) - 2) + "'", t)
  s = re.sub(r'"(?:[^"])*"', lambda m: '"' + ' ' * (len(m.group(0)) - 2) + '"', s)
  for m in _CALL.finditer(s):
    name = m.group(1)
    i = m.end()
    depth = 1
    commas = 0
    empty = True
    j = i
    variadic = False
    while j < len(s) and depth > 0:
      ch = s[j]
      if ch in '([{':
        depth += 1
      elif ch in ')]}':
        depth -= 1
      elif ch == ',' and depth == 1:
        commas += 1
      if depth > 0 and not ch.isspace():
        empty = False
      j += 1
    inner = s[i:j - 1]
    if '%s' in inner and re.fullmatch(r'\s*%s\s*', inner):
      variadic = True
    nargs = None if variadic else (0 if empty else commas + 1)
    out.append((name, nargs))
  return out


def effective_sqlite(repo):
  base_f, _ = templates.class_table(repo, 'QL', 'BUILT_IN_FUNCTIONS')
  base_i, _ = templates.class_table(repo, 'QL', 'BUILT_IN_INFIX_OPERATORS')
  classes = templates.dialect_classes(repo)
  if 'sqlite' not in classes:
    raise AnalysisError("DIALECTS has no 'sqlite' engine")
  cls = classes['sqlite']
  df, dfi = templates.dialect_table(repo, cls, 'BuiltInFunctions')
  di, difi = templates.dialect_table(repo, cls, 'InfixOperators')
  bulk_t = {}
  m = repo.mod('common/data/processed_functions.py')
  import csv
  import io
  data = const_str(m.module_assign('CSV_DATA'))
  rd = csv.reader(io.StringIO(data))
  header = next(rd)
  for row in rd:
    if not row:
      continue
    r = dict(zip(header, row))
    if r['function'][0] == '$':
      continue
    s = r['function'].replace('.', '_')
    name = ''.join(p[0].upper() + p[1:] for p in s.split('_'))
    bulk_t[name] = '%s(%s)' % (r['sql_function'], '%s')
  eff = dict(bulk_t)
  eff.update(base_f)
  eff.update(df or {})
  effi = dict(base_i)
  effi.update(di or {})
  return cls, eff, effi, dfi, difi


def library_sqlexprs(repo, modname):
  """[(template, [fields])] for SqlExpr("..", {..}) occurrences in a library."""
  m = repo.by_name(modname)
  text = _library_text(m)
  if text is None:
    raise AnalysisError('%s.library is not a string constant' % modname)
  out = []
  for mt in re.finditer(r'SqlExpr\(\s*"((?:[^"\\]|\\.)*)"\s*,\s*\{([^{}]*)\}', text, re.S):
    fields = []
    for part in mt.group(2).split(','):
      part = part.strip()
      if not part:
        continue
      fields.append(part.split(':')[0].strip())
    out.append((mt.group(1), fields))
  return out, m


def run(chk):
  repo = chk.repo
  core, core_src = core_functions()
  chk.assume('A3: SQLite core function list taken from %s (consults SQLite, not /repo)' % core_src)
  chk.extra['sqlite_core_functions'] = len(core)
  rfi, reg = registrations(repo)
  cls, eff, effi, dfi, difi = effective_sqlite(repo)
  chk.rule('C20-R1', 'registration agreement: every function identifier the '
           'SQLite templates of the named built-ins (and the SqlExpr templates '
           'of sqlite_library) call is registered by '
           'ExtendConnectionWithLogicaFunctions with a compatible arity and '
           'role, or is a SQLite core function', min_instances=25)
  agg_names = {'Agg+', 'Sum', 'Min', 'Max', 'Avg', 'Count', 'List', 'Set', 'Agg++'}
  def check_template(label, t, where_fi, want_agg=None):
    for fname, nargs in calls_in_template(t):
      if fname.upper() in SQL_SYNTAX:
        continue
      low = fname.lower()
      if low in reg:
        rn, kind, node = reg[low]
        ar_ok = rn in (-1, None) or nargs is None or rn == nargs
        chk.ob('C20-R1', ar_ok, None,
               '%s calls %s/%s: registered with %s argument(s)' % (label, fname, nargs, rn),
               'the template passes %s argument(s) to %s, which is registered '
               'with %s: "wrong number of arguments" at run time' % (nargs, fname, rn),
               fi=where_fi)
        if want_agg is not None:
          chk.ob('C20-R1', kind == 'aggregate' if want_agg else True, None,
                 '%s uses %s as %s' % (label, fname, kind),
                 '%s is an aggregate in Logica but %s is registered as a %s '
                 'function' % (label, fname, kind), fi=where_fi, nontrivial=False)
      else:
        chk.ob('C20-R1', low in core, None,
               '%s calls %s: SQLite core function' % (label, fname),
               '%s is neither registered by ExtendConnectionWithLogicaFunctions '
               'nor a SQLite core function: "no such function" for every use '
               'of %s' % (fname, label), fi=where_fi)
  conv = repo.func('expr_translate.QL.ConvertToSql')
  for name in NAMED:
    if name not in eff:
      chk.ob('C20-R1', False, None, "built-in '%s' has a SQLite template" % name,
             'the property names %s but no template exists for SQLite' % name, fi=conv)
      continue
    t = eff[name]
    if not isinstance(t, str):
      continue
    check_template("built-in '%s'" % name, t, dfi if dfi else conv,
                   want_agg=(name in agg_names))
  for name in NAMED_INFIX:
    if name not in effi:
      chk.ob('C20-R1', False, None, "operator '%s' has a SQLite template" % name,
             'no infix template for %s' % name, fi=conv)
      continue
    check_template("operator '%s'" % name, effi[name], difi if difi else conv)
  exprs, lm = library_sqlexprs(repo, 'sqlite_library')
  if len(exprs) < 8:
    raise AnalysisError('sqlite_library: SqlExpr templates not recognised')
  lib_fi = None
  for t, fields in exprs:
    for fname, nargs in calls_in_template(t):
      if fname.upper() in SQL_SYNTAX:
        continue
      low = fname.lower()
      ok = low in reg or low in core
      why = ''
      if low in reg:
        rn = reg[low][0]
        ok = rn in (-1, None) or nargs is None or rn == nargs
        why = 'registered with %s argument(s), template passes %s' % (rn, nargs)
      else:
        why = 'not registered and not a core function'
      chk.ob('C20-R1', ok, 'compiler/dialect_libraries/sqlite_library.py:library',
             'library SqlExpr "%s" calls %s/%s' % (t, fname, nargs), why)
  # every aggregate class registered exists
  sm = repo.by_name('sqlite3_logica')
  for low, (rn, kind, node) in sorted(reg.items()):
    if kind == 'aggregate':
      cname = dotted(node.args[2])
      flat = repo.flat_class(sm, cname) if cname in sm.classes else None
      ok = flat is not None and {'step', 'finalize'} <= set(flat.methods)
      step_ar = None
      if ok:
        step_ar = len(flat.methods['step'].params) - 1
      chk.ob('C20-R1', ok and step_ar == rn, None,
             'aggregate %s -> class %s with step/%s and finalize' % (low, cname, rn),
             'registered arity %s, step takes %s' % (rn, step_ar), fi=rfi, node=node)

  chk.rule('C20-R2', 'SqlExpr templates of every dialect library use only '
           'placeholders that the record literal passed to them provides',
           min_instances=20)
  for mod in ('sqlite_library', 'bq_library', 'psql_library', 'duckdb_library',
              'trino_library', 'presto_library', 'databricks_library',
              'clickhouse_library'):
    exprs, lm = library_sqlexprs(repo, mod)
    for t, fields in exprs:
      try:
        used = {f.split('.')[0].split('[')[0] for f in templates.format_fields(t)}
        why = ''
        ok = used <= set(fields)
        if not ok:
          why = 'placeholders %s are not fields of the record {%s}: KeyError ' \
                'inside GenericSqlExpression' % (sorted(used - set(fields)), ', '.join(fields))
      except ValueError as e:
        ok, why = False, 'ValueError at format time (%s)' % e
      chk.ob('C20-R2', ok, '%s:library' % lm.relpath,
             '%s SqlExpr "%s" {%s}' % (mod, t if len(t) < 50 else t[:47] + '...',
                                       ', '.join(fields)), why)

  chk.rule('C20-R3', 'aggregate UDFs return the same value for every arrival '
           'order of their rows (ties and List element order excepted)',
           min_instances=3)
  from rules.c07 import aggregate_order
  aggregate_order(chk, 'C20-R3')

  # scalar UDFs: 0, 0.0 and '' are values, not absence
  from rules.c07 import truthiness_in_function
  sm = repo.by_name('sqlite3_logica')
  n_scalar = 0
  for low, (rn, kind, node) in sorted(reg.items()):
    if kind != 'scalar' or len(node.args) < 3:
      continue
    impl = node.args[2]
    fn_node, params, where = None, None, rfi
    if isinstance(impl, ast.Lambda):
      fn_node, params = impl, [p.arg for p in impl.args.args]
    elif isinstance(impl, ast.Name) and impl.id in sm.funcs:
      where = sm.funcs[impl.id]
      fn_node, params = where.node, list(where.params)
    if fn_node is None:
      continue
    n_scalar += 1
    bad = truthiness_in_function(fn_node, params)
    chk.ob('C20-R3', not bad, None,
           'scalar UDF %s: no truthiness test on data values (0 and "" are values)' % low,
           'the function decides by the truthiness of %s: 0, 0.0 and the empty '
           'string are treated as absent values' % ', '.join('`%s`' % b[1] for b in bad[:3]),
           fi=where, node=bad[0][0] if bad else None)
  if n_scalar < 10:
    raise AnalysisError('only %d scalar UDF implementations recognised' % n_scalar)

  K.dialect_entangles(chk, 'C20-R3', engines=('sqlite',))
  K.no_memo_decorators(chk, 'C20-R3', ['common/sqlite3_logica.py'])

  chk.rule('C20-R4', 'SQLite function / infix templates format without error '
           'for every admissible argument count', min_instances=20)
  from rules.c09 import template_tables
  template_tables(chk, 'C20-R4', only_engine='sqlite')
  fi = repo.func('expr_translate.QL.__init__')
  for attr in ('built_in_infix_operators', 'built_in_functions'):
    ok = False
    for x in walk_local(fi.node):
      if isinstance(x, ast.Assign) and dotted(x.targets[0]) == 'self.' + attr:
        ok = isinstance(x.value, ast.Call) and call_tail(x.value) in ('deepcopy', 'dict', 'copy')
    chk.ob('C20-R4', ok, None, 'SQLite templates start from a private copy (QL.%s)' % attr,
           'the per-dialect overrides are written into a table shared by all QL '
           'instances: after compiling for another engine in the same process '
           'SQLite built-ins get that engine\'s templates', fi=fi)


def _library_text(m):
  """text of <dialect>_library.library: a string constant or a constant
  expression over named string constants."""
  try:
    v = tables.const_value(m.module_assign('library'))
  except AnalysisError:
    return None
  return v if isinstance(v, str) else None
