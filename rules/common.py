"""Rule fragments shared between properties."""

import ast

from sa.model import AnalysisError, call_tail, const_str, dotted, kwarg, norm, walk_local
from sa.pathrules import FnView, arg_is_const, arg_name, receiver

U = 'compiler/universe.py'
RT = 'compiler/rule_translate.py'
ET = 'compiler/expr_translate.py'
FU = 'compiler/functors.py'
DI = 'compiler/dialects.py'
PA = 'parser_py/parse.py'
INF = 'type_inference/research/infer.py'
RA = 'type_inference/research/reference_algebra.py'
SQ = 'common/sqlite3_logica.py'
CO = 'common/concertina_lib.py'
RL = 'compiler/dialect_libraries/recursion_library.py'

EXTRACT = 'rule_translate.ExtractRuleStructure'
ELIM = 'rule_translate.RuleStructure.ElliminateInternalVariables'
U2C = 'rule_translate.RuleStructure.UnificationsToConstraints'
ASSQL = 'rule_translate.RuleStructure.AsSql'
RUNINJ = 'universe.LogicaProgram.RunInjections'
INJECT = 'universe.InjectStructure'
OKINJ = 'universe.Annotations.OkInjection'


def rule_structure_typestate(chk, rid, fq):
  """On every path to `<s>.AsSql(..)` inside function fq:
  s = ExtractRuleStructure(..) -> RunInjections(s, ..) ->
  s.ElliminateInternalVariables(assert_full_ellimination=True) ->
  s.UnificationsToConstraints() -> s.AsSql."""
  v = FnView(chk.repo, fq)
  fi = v.fi
  # Only the AsSql site is an anchor; a missing step is the violation itself
  # (calls() still fails with an analysis error if the callee was renamed).
  inj = v.calls(RUNINJ)
  elim = v.calls(ELIM)
  u2c = v.calls(U2C)
  sites = v.need_calls(ASSQL)
  for site in sites:
    n, c = site
    r = receiver(c)
    src = [x for x in v.assigned_from(r) if isinstance(x, ast.Call)] if r else []
    chk.ob(rid, bool(src) and all(EXTRACT in chk.repo.resolve(fi, x) for x in src)
           and len(src) == len(v.assigned_from(r)),
           None, '%s = ExtractRuleStructure(...) feeds %s' % (r, norm(c.func)),
           'the structure compiled by AsSql is not (only) the result of '
           'ExtractRuleStructure', fi=fi, node=c)
    inj_r = [(m, x) for m, x in inj if arg_name(x, 0) == r]
    chk.ob(rid, bool(inj_r) and v.precedes(inj_r, site), None,
           'RunInjections(%s, ..) before %s.AsSql' % (r, r),
           'a path reaches AsSql without running injections on the structure',
           fi=fi, node=c)
    elim_r = [(m, x) for m, x in elim if receiver(x) == r and
              arg_is_const(x, 'assert_full_ellimination', 0, True)]
    chk.ob(rid, bool(elim_r) and v.precedes(elim_r, site), None,
           '%s.ElliminateInternalVariables(assert_full_ellimination=True) '
           'before %s.AsSql' % (r, r),
           'a path reaches AsSql without full elimination of internal '
           'variables (unassigned variables would not be diagnosed and '
           'unresolved variables reach SQL)', fi=fi, node=c)
    for e in elim_r:
      chk.ob(rid, v.precedes(inj_r, e), None,
             'RunInjections(%s, ..) before %s.ElliminateInternalVariables' % (r, r),
             'variables are eliminated before injected structures are merged',
             fi=fi, node=e[1])
    u2c_r = [(m, x) for m, x in u2c if receiver(x) == r]
    chk.ob(rid, bool(u2c_r) and v.precedes(u2c_r, site), None,
           '%s.UnificationsToConstraints() before %s.AsSql' % (r, r),
           'a path reaches AsSql without turning the remaining unifications '
           'into WHERE constraints (join conditions are lost)', fi=fi, node=c)
    for u in u2c_r:
      chk.ob(rid, v.precedes(elim_r, u), None,
             '%s.ElliminateInternalVariables before %s.UnificationsToConstraints' % (r, r),
             'constraints are generated before elimination, so eliminated '
             'unifications reappear as constraints over undefined variables',
             fi=fi, node=u[1])
  return v


def injection_sites(chk):
  """(view, [(node, call, rs_name)]) for InjectStructure calls in RunInjections."""
  v = FnView(chk.repo, RUNINJ)
  sites = v.need_calls(INJECT)
  return v, sites


def injected_structure_prepared(chk, rid):
  v, sites = injection_sites(chk)
  fi = v.fi
  elim = v.calls(ELIM)
  for site in sites:
    n, c = site
    tgt, rs = arg_name(c, 0), arg_name(c, 1)
    src = v.assigned_from(rs) if rs else []
    chk.ob(rid, bool(src) and all(
        isinstance(x, ast.Call) and EXTRACT in chk.repo.resolve(fi, x)
        for x in src), None,
           'injected structure %s comes from ExtractRuleStructure' % rs,
           'InjectStructure merges something that is not a freshly extracted '
           'structure', fi=fi, node=c)
    el = [(m, x) for m, x in elim if receiver(x) == rs]
    chk.ob(rid, bool(el) and v.precedes(el, site), None,
           '%s.ElliminateInternalVariables(..) before InjectStructure(%s, %s)'
           % (rs, tgt, rs),
           'an injected rule is merged with its internal variables not yet '
           'substituted (they collide with the host rule)', fi=fi, node=c)
    chk.ob(rid, all(arg_is_const(x, 'assert_full_ellimination', 0, False)
                    for _, x in el), None,
           '%s.ElliminateInternalVariables(assert_full_ellimination=False)' % rs,
           'injected sub-rules may legitimately keep variables bound by the '
           'host rule; asserting full elimination rejects valid programs',
           fi=fi, node=c)
  return v, sites


def scanner_state_expr(fn_node):
  """Text of the expression the scanner dispatches on (the innermost open
  state): the left side of the test against '3', the state symbol of a
  triple-quoted string, which is never a character of the input being tested.
  Today `State()`; a local computed once per step is the same thing."""
  from sa.model import tables_const_strings
  for x in ast.walk(fn_node):
    if isinstance(x, ast.Compare) and len(x.ops) == 1 and \
        isinstance(x.ops[0], (ast.Eq, ast.NotEq, ast.In, ast.NotIn)):
      c = x.comparators[0]
      vals = tables_const_strings(c)
      if vals is not None and '3' in vals and len(vals) <= 8:
        return norm(x.left)
  raise AnalysisError('Traverse: the test for the triple-quote state is not recognised')


def table_dispatch(view, table_attr):
  """Where ConvertToSql looks a call up in one of its template tables:
  [(cfg node of the header, statements run for a hit)].  Two spellings of the
  same dispatch are recognised:
      for k, v in self.T.items():            if call['predicate_name'] in self.T:
        if call['predicate_name'] == k:        v = self.T[call['predicate_name']]
          <hit>                                 <hit>
  """
  out = []
  for n in view.cfg.stmt_nodes():
    st = view.cfg.stmt[n]
    if isinstance(st, ast.For) and table_attr in norm(st.iter):
      ifs = [x for x in st.body if isinstance(x, ast.If)]
      if ifs:
        out.append((n, ifs[0].body))
    elif isinstance(st, ast.If) and isinstance(st.test, ast.Compare) and len(st.test.ops) == 1 and \
        isinstance(st.test.ops[0], ast.In) and \
        (dotted(st.test.comparators[0]) or '').endswith(table_attr) and \
        'predicate_name' in norm(st.test.left):
      out.append((n, st.body))
  return out


def combine_disambiguator(repo):
  """The function that renames the variables introduced by a combine (it
  formats '... # disambiguated with <fresh number>' with AllocateVar): today a
  closure of DisambiguateCombineVariables; the work may equally be done by a
  loop in DisambiguateCombineVariables itself or by a module-level function.
  Located by the format text alone: whether the number comes from the
  allocator is a rule (fresh_combine_names), not part of the anchor."""
  m = repo.by_name('rule_translate')
  hits = []
  for q, fi in m.funcs.items():
    has_text = any(isinstance(c, ast.Constant) and isinstance(c.value, str) and
                   'disambiguated with' in c.value and '%' in c.value for c in walk_local(fi.node))
    if has_text:
      hits.append(fi)
  if len(hits) != 1:
    raise AnalysisError('rule_translate: the combine-variable disambiguator is not recognised '
                        '(%d candidates)' % len(hits))
  return hits[0]


def fresh_combine_names(chk, rid):
  """The name a combine-local variable is renamed to is fresh in the whole
  compilation: it carries a number handed out by the execution-level
  NamesAllocator.  Names derived from the rule alone (predicate, position) are
  equal for two instantiations of the same injectable rule: injected into each
  other, the inner local variable is captured by the enclosing sub-query."""
  repo = chk.repo
  fi = combine_disambiguator(repo)
  fresh = False
  for x in walk_local(fi.node):
    fmt = None
    if isinstance(x, ast.BinOp) and isinstance(x.op, ast.Mod) and \
        'disambiguated with' in (const_str(x.left) or ''):
      fmt = x.right
    elif isinstance(x, ast.JoinedStr) and any(
        isinstance(v, ast.Constant) and 'disambiguated with' in str(v.value) for v in x.values):
      fmt = x
    elif isinstance(x, ast.Call) and call_tail(x) == 'format' and isinstance(x.func, ast.Attribute) \
        and 'disambiguated with' in (const_str(x.func.value) or ''):
      fmt = ast.Tuple(elts=list(x.args) + [k.value for k in x.keywords], ctx=ast.Load())
    if fmt is None:
      continue
    view = FnView.of(repo, fi)
    text = norm(view.expand(fmt), 2000)
    if 'AllocateVar(' in text:
      fresh = True
  chk.ob(rid, fresh, None,
         'combine-local variables are renamed with a number from the execution-level allocator',
         'the new name of a combine-local variable does not come from '
         'NamesAllocator.AllocateVar: two copies of the same rule give their '
         'locals the same name, and when one copy is injected into the other the '
         'inner variable is captured by the outer sub-query', fi=fi)


def inclusion_is_unnesting(chk, rid):
  """`x in [a, b]` equals the alternatives x == a | x == b: one row per list
  position.  The translation of an inclusion is therefore an unnesting (a join
  with the list), except for the declared Container(...) form, which is a
  membership constraint by definition."""
  repo = chk.repo
  ei = FnView(repo, 'rule_translate.ExtractInclusionStructure')
  unn = [n for n, c in ei.all_calls() if call_tail(c) == 'append' and
         (receiver(c) or '').endswith('unnestings')]
  declared = set()
  for n in ei.cfg.stmt_nodes():
    for e, val in ei.guards(n):
      if val and any(const_str(c) == 'Container' for c in ast.walk(e)):
        declared.add(n)
  if not unn:
    raise AnalysisError('ExtractInclusionStructure: unnesting not found')
  chk.ob(rid, ei.cfg.must_pass_before(ei.cfg.exit, set(unn) | declared), None,
         'an inclusion is translated as an unnesting of the list on every path '
         '(only Container(..) lists are membership tests)',
         'some inclusions are turned into a membership constraint instead of a '
         'join with the list: `x in [a, a]` then yields one row where the two '
         'alternatives x == a | x == a yield two', fi=ei.fi)


# recursive calls that deliberately start over with the default of a parameter
FORWARDING_EXEMPT = {
    ('rule_translate.GetTreeOfCombines', 'tree'):
        'a combine starts a fresh subtree on purpose; the other calls extend the current one',
}


def recursive_forwarding(chk, rid, modules=None):
  """A recursive walker hands the restrictions it was given (optional
  parameters such as a taboo list or a dive-in flag) to ALL of its recursive
  calls or to none: when one recursive call forwards an optional parameter and
  a sibling call does not, the restriction silently stops applying below
  lists / below dicts.  (A contradiction rule: the code itself shows, in the
  sibling call, that the parameter is meant to travel.)"""
  repo = chk.repo
  n = 0
  for m in (modules or repo.pipeline()):
    for q, fi in sorted(m.funcs.items()):
      a = fi.node.args
      pos_params = [p.arg for p in a.posonlyargs + a.args]
      nd = len(a.defaults)
      optional = set(pos_params[len(pos_params) - nd:]) if nd else set()
      optional |= {p.arg for p, d in zip(a.kwonlyargs, a.kw_defaults) if d is not None}
      if not optional:
        continue
      recs = [c for c in walk_local(fi.node) if isinstance(c, ast.Call) and
              call_tail(c) == fi.name and fi.fq in repo.resolve(fi, c)]
      if len(recs) < 2:
        continue
      index = {p: i for i, p in enumerate([p for p in pos_params if p not in ('self', 'cls')])}
      for p in sorted(optional):
        passed = [any(k.arg == p for k in c.keywords) or len(c.args) > index.get(p, 99)
                  for c in recs]
        if not any(passed):
          continue
        n += 1
        if (fi.fq, p) in FORWARDING_EXEMPT:
          chk.ob(rid, True, None, '%s: `%s` deliberately not forwarded by every recursive call'
                 % (fi.qualname, p), FORWARDING_EXEMPT[(fi.fq, p)], fi=fi, nontrivial=False)
          continue
        bad = [c for c, ok in zip(recs, passed) if not ok]
        chk.ob(rid, not bad, None,
               '%s forwards `%s` to every recursive call' % (fi.qualname, p),
               'the recursive call `%s` does not pass `%s` although a sibling call '
               'does: below that point the walker runs with the default, i.e. the '
               'restriction the caller asked for is dropped' % (
                   norm(bad[0], 50) if bad else '', p), fi=fi, node=bad[0] if bad else None)
  return n


def dependency_walk_total(chk, rid):
  """Which predicates a predicate calls (direct_args_of) decides what a functor
  application clones and which rules a recursion covers.  A call can sit
  anywhere in a rule - inside a list literal, a record, an aggregated value -
  so the extraction walks the WHOLE tree: no key of the syntax tree is skipped
  on the way from BuildDirectArgsOfPredicate down.  A walker with a set of
  keys to skip is total when that set is empty at this entry (and stays so in
  its recursive calls)."""
  from sa import tables as _t
  repo = chk.repo
  bw = repo.func('functors.Functors.BuildDirectArgsOfWalk')
  problems = []

  def is_empty(e):
    if e is None:
      return False
    try:
      return not _t.const_value(e)
    except AnalysisError:
      return False

  def own_params(fi):
    ps = list(fi.params)
    if fi.cls is not None and ps and ps[0] in ('self', 'cls'):
      ps = ps[1:]
    return ps

  def defaults(fi):
    a = fi.node.args
    pos = a.posonlyargs + a.args
    out = {}
    for p_, d in zip(pos[len(pos) - len(a.defaults):], a.defaults):
      out[p_.arg] = d
    for p_, d in zip(a.kwonlyargs, a.kw_defaults):
      if d is not None:
        out[p_.arg] = d
    return out

  def key_filters(fn_node):
    """(compare, name of the container the key is tested against or None)"""
    out = []
    for x in ast.walk(fn_node):
      if isinstance(x, ast.Compare) and len(x.ops) == 1 and \
          isinstance(x.ops[0], (ast.In, ast.NotIn, ast.Eq, ast.NotEq)):
        names = {n_.id for n_ in ast.walk(x.left) if isinstance(n_, ast.Name)}
        for y in ast.walk(fn_node):
          tg = None
          if isinstance(y, (ast.For, ast.comprehension)):
            tg = y.target
          if tg is not None and names & {n_.id for n_ in ast.walk(tg) if isinstance(n_, ast.Name)} \
              and not (isinstance(x.comparators[0], ast.Constant) and x.comparators[0].value is None):
            it_text = norm(y.iter, 80)
            if '.items()' in it_text or isinstance(y.iter, ast.Name) or '.keys()' in it_text:
              out.append((x, dotted(x.comparators[0])))
    return out

  seen = set()
  todo = [(bw, frozenset())]           # (function, parameters known to be empty)
  while todo:
    fi, empty = todo.pop()
    if (fi.fq, empty) in seen:
      continue
    seen.add((fi.fq, empty))
    for c in walk_local(fi.node):
      if not isinstance(c, ast.Call):
        continue
      for t in repo.resolve(fi, c):
        if not (t.startswith('functors.') and t.split('.')[-1] in (
            'Walk', 'WalkWithTaboo', 'BuildDirectArgsOfWalk')):
          continue
        try:
          callee = repo.func(t)
        except AnalysisError:
          continue
        ps = own_params(callee)
        dflt = defaults(callee)
        callee_empty = set()
        for i_, p_ in enumerate(ps):
          a_ = c.args[i_] if i_ < len(c.args) else kwarg(c, p_)
          if a_ is None:
            if p_ in dflt and is_empty(dflt[p_]):
              callee_empty.add(p_)
          elif is_empty(a_) or (isinstance(a_, ast.Name) and a_.id in empty):
            callee_empty.add(p_)
        todo.append((callee, frozenset(callee_empty)))
    for x, against in key_filters(fi.node):
      if against in empty:
        continue                       # `k not in taboo` with taboo empty here
      problems.append('%s skips dict entries by key (`%s`)' % (fi.qualname, norm(x, 40)))
  chk.ob(rid, not problems, None,
         'the extraction of the predicates a rule calls walks the whole rule (no key skipped)',
         '%s: a predicate called only below such a key (e.g. inside a list literal) is '
         'not a dependency any more - a functor application leaves it un-substituted, '
         'a recursion does not cover it' % '; '.join(problems[:2]), fi=bw)

# engines whose SELECT attaches an aggregate to the OUTER query when its
# argument mentions outer columns only (SQL standard scoping): their dialect
# must entangle the aggregated value with a variable of the combine
ENTANGLING_ENGINES = ('sqlite', 'psql', 'duckdb')


def dialect_entangles(chk, rid, engines=ENTANGLING_ENGINES):
  """<Dialect>.DecorateCombineRule returns the rule decorated by the
  module-level DecorateCombineRule on EVERY path - for the named engines, and
  for any dialect that decorates on some path (a dialect that decorates one
  combine and not another is wrong for one of them)."""
  from sa import templates
  from sa.pathrules import FnView
  repo = chk.repo
  m = repo.by_name('dialects')
  n_ok = 0
  for eng, cls in sorted(templates.dialect_classes(repo).items()):
    fi = repo.lookup_method(m, cls, 'DecorateCombineRule')
    if fi is None:
      raise AnalysisError('dialect %s has no DecorateCombineRule' % cls)
    v = FnView.of(repo, fi)
    rets = [(n, r) for n, r in v.returns() if r.value is not None]
    def decorated(r):
      e = v.expand(r.value, 3)
      return any(isinstance(c, ast.Call) and 'dialects.DecorateCombineRule' in repo.resolve(fi, c)
                 for c in ast.walk(e))
    some = [r for n, r in rets if decorated(r)]
    raw = [r for n, r in rets if not decorated(r)]
    if eng in engines or some:
      n_ok += 1
      chk.ob(rid, bool(some) and not raw, None,
             'dialect %s entangles every combine (aggregate scope)' % eng,
             '%s.DecorateCombineRule returns the combine undecorated on some path (`%s`): '
             'when the aggregated expression mentions outer columns only, the engine '
             'attaches the aggregate to the outer SELECT - Sum/List/Min ... run over the '
             'outer rows' % (cls, norm(raw[0], 50) if raw else 'no decorated return'),
             fi=fi, node=raw[0] if raw else None)
  if n_ok < len(engines):
    raise AnalysisError('only %d entangling dialects recognised' % n_ok)


def infix_operators(repo):
  """The default operator list of parse.ParseInfix in the order the splitter
  tries them (first = binds loosest)."""
  from sa import tables
  m = repo.by_name('parse')
  pi = m.func('ParseInfix')
  best = None
  def lists_in(v, depth=0):
    for l in ast.walk(v):
      if isinstance(l, (ast.List, ast.Tuple)):
        yield l
      elif isinstance(l, ast.Name) and depth < 3:
        try:
          d = m.module_assign(l.id)
        except AnalysisError:
          d = None
        if d is not None:
          for y in lists_in(d, depth + 1):
            yield y
  for x in walk_local(pi.node):
    if isinstance(x, ast.Assign) and dotted(x.targets[0]) == 'operators':
      for l in lists_in(x.value):
        if len(l.elts) > 10 and (best is None or len(l.elts) > len(best[0])):
          try:
            best = (tables.const_value(l), x)
          except AnalysisError:
            pass
  if best is None:
    raise AnalysisError('ParseInfix: default operator list not recognised')
  return list(best[0]), pi, best[1]


# (tried earlier, tried later, what goes wrong otherwise)
OPERATOR_ORDER = [
    ('||', '&&', '`a || b && c` groups as (a || b) && c'),
    ('&&', '==', '`a == b && c == d` is split inside a comparison'),
    ('==', '+', '`a == b + c` groups as (a == b) + c'),
    ('<', '+', '`a < b + c` groups as (a < b) + c'),
    ('>', '+', '`a > b + c` groups as (a > b) + c'),
    ('+', '-', '`a - b + c` groups as a - (b + c)'),
    ('+', '*', '`a + b * c` groups as (a + b) * c'),
    ('-', '*', '`a - b * c` groups as (a - b) * c'),
    ('-', '/', '`a - b / c` groups as (a - b) / c'),
    ('*', '/', '`a / b * c` groups as a / (b * c)'),
    ('*', '^', '`a * b ^ c` groups as (a * b) ^ c'),
    # an operator that is a prefix / part of another is tried after it
    ('<=', '<', '`a <= b` is split at `<`'),
    ('>=', '>', '`a >= b` is split at `>`'),
    ('==', '=', '`a == b` is split at `=`'),
    ('!=', '=', '`a != b` is split at `=`'),
    ('<=', '=', '`a <= b` is split at `=`'),
    ('>=', '=', '`a >= b` is split at `=`'),
    ('->', '-', '`a -> b` is split at `-`'),
    ('->', '>', '`a -> b` is split at `>`'),
    ('++?', '++', '`a ++? b` is split at `++`'),
    ('++', '+', '`a ++ b` is split at `+`'),
    (' is not ', ' is ', '`a is not null` is split at ` is `'),
]


def operator_grouping(chk, rid):
  ops, pi, node = infix_operators(chk.repo)
  pos = {o: i for i, o in enumerate(ops)}
  n = 0
  for a, b, wrong in OPERATOR_ORDER:
    if a not in pos or b not in pos:
      raise AnalysisError('ParseInfix: operator %r / %r not in the default list' % (a, b))
    n += 1
    chk.ob(rid, pos[a] < pos[b], None,
           'the splitter tries %r before %r' % (a, b),
           '%r is tried first: %s - the expression denotes another value than the '
           'one every reader computes' % (b, wrong), fi=pi, node=node)
  return n


def translation_not_memoised(chk, rid):
  """The SQL of a rule is a function of the rule AND of the vocabulary of the
  query it is embedded in (the aliases it may refer to).  What TranslateRule
  returns is therefore computed for this call; a value taken from a store
  that outlives the call is acceptable only under a key that mentions every
  argument the translation is given."""
  from sa.pathrules import FnView
  repo = chk.repo
  tr = FnView(repo, 'universe.SubqueryTranslator.TranslateRule')
  single = 'universe.LogicaProgram.SingleRuleSql'
  needed = set()
  for n, c in tr.need_calls(single):
    for a_ in list(c.args) + [k.value for k in c.keywords]:
      d = dotted(a_)
      if d in tr.fi.params and d not in ('self', 'is_combine'):
        needed.add(d)
  bad = None
  n_ret = 0
  for n, r in tr.returns():
    if r.value is None:
      continue
    n_ret += 1
    e = tr.expand(r.value, 3)
    if any(isinstance(c, ast.Call) and single in repo.resolve(tr.fi, c) for c in ast.walk(e)):
      continue
    subs = [x for x in ast.walk(e) if isinstance(x, ast.Subscript)]
    for x in subs:
      key = tr.expand(x.slice, 4)
      names = {dotted(y) for y in ast.walk(key) if isinstance(y, ast.Name)}
      if not needed <= names:
        bad = (r, 'key `%s` lacks %s' % (norm(x.slice, 40), sorted(needed - names)))
    if not subs:
      bad = (r, '`%s` is not a translation made by this call' % norm(r.value, 40))
  if not n_ret:
    raise AnalysisError('TranslateRule: no return recognised')
  chk.ob(rid, bad is None, None,
         'TranslateRule returns SQL translated for this call (arguments %s)' % sorted(needed),
         'TranslateRule returns remembered SQL: %s - the text was compiled for another '
         'enclosing query, its alias.column references name tables that are not in '
         'scope here (or the wrong ones)' % (bad[1] if bad else ''), fi=tr.fi,
         node=bad[0] if bad else None)


def entangle_attached(chk, rid):
  from sa.pathrules import FnView
  dc = FnView(chk.repo, 'dialects.DecorateCombineRule')
  # the `x in [0]` conjunct has to end up IN the rule that is returned: the
  # list it is appended to is reached from `rule` by subscripts only - a
  # `.get(key, <fresh default>)` on the way hands out a list the rule does not
  # hold when the combine has no body
  detached = None
  for n, c in dc.all_calls():
    if call_tail(c) == 'append' and 'inclusion' in dc.deep_text(dc.expand(c, 3)):
      recv = dc.expand(c.func.value, 4) if isinstance(c.func, ast.Attribute) else None
      for y in ast.walk(recv) if recv is not None else ():
        if isinstance(y, ast.Call) and call_tail(y) == 'get' and len(y.args) == 2 and \
            not (isinstance(y.args[1], ast.Constant) and y.args[1].value is None):
          # unless the local holding it is stored back into the rule
          names = {t_.id for t_ in ast.walk(c.func.value) if isinstance(t_, ast.Name)}
          stored = any(isinstance(st_, ast.Assign) and isinstance(st_.targets[0], ast.Subscript)
                       and isinstance(st_.value, ast.Name) and st_.value.id in names
                       for st_ in walk_local(dc.fi.node))
          if not stored:
            detached = c
  chk.ob(rid, detached is None, None,
         'the entangling conjunct is appended to the body the returned rule holds',
         '`%s` appends to a conjunction obtained with .get(key, default): for a combine '
         'without a body the default is a fresh object that never becomes part of the rule, '
         'so MagicalEntangle refers to a variable nothing binds (compilation stops with an '
         'internal error)' % (norm(detached, 70) if detached is not None else ''),
         fi=dc.fi, node=detached)


def bad_functor_arguments_diagnosed(chk, rid):
  """`F(A: x, B: y)` is an error as soon as ONE of the named arguments is not
  a predicate F depends on.  The FunctorError of CallFunctor therefore hangs
  on "the set of argument names minus the dependencies of the applicant is
  not empty" (or an equivalent subset / any() test) - not on a weaker
  condition such as "none of the arguments is a dependency"."""
  from sa.pathrules import FnView
  repo = chk.repo
  v = FnView(repo, 'functors.Functors.CallFunctor')
  def mentions(e, *names):
    t_ = norm(e, 400)
    return any(n_ in t_ for n_ in names)
  found = None
  weak = None
  views = [v]
  # the check may live in a helper CallFunctor calls as a statement
  for n_, c_ in v.all_calls():
    for t_ in repo.resolve(v.fi, c_):
      if t_.startswith('functors.Functors.') and t_ != v.fi.fq and \
          'args_map' in norm(c_, 200):
        try:
          h_ = FnView(repo, t_)
        except AnalysisError:
          continue
        if any(True for _ in h_.raises()):
          views.append(h_)
  for v, n, r in [(w_, n_, r_) for w_ in views for n_, r_ in w_.raises()]:
    for h, pol in v.cfg.header_of(n):
      st = v.cfg.stmt[h]
      if not isinstance(st, ast.If):
        continue
      t_ = v.expand_flow(st.test, 4)
      # a value computed by a small helper (`self.ForeignArguments(..)`): read
      # the helper's returned expression in its place
      for c_ in list(ast.walk(t_)):
        if isinstance(c_, ast.Call) and mentions(c_, 'args_map'):
          for tg_ in repo.resolve(v.fi, c_):
            if tg_.startswith('functors.Functors.') and tg_ != v.fi.fq:
              try:
                hh = FnView(repo, tg_)
              except AnalysisError:
                continue
              rets_ = [hh.expand(r2.value, 4) for _, r2 in hh.returns() if r2.value is not None]
              if len(rets_) == 1:
                t_ = ast.BoolOp(op=ast.Or(), values=[rets_[0]]) if not isinstance(
                    t_, ast.UnaryOp) else ast.UnaryOp(op=ast.Not(), operand=rets_[0])
      if not mentions(t_, 'args_map'):
        continue
      ok_ = False
      for x in ast.walk(t_):
        if isinstance(x, ast.BinOp) and isinstance(x.op, ast.Sub) and mentions(x.left, 'args_map') \
            and mentions(x.right, 'args_of', 'ArgsOf'):
          ok_ = True
        elif isinstance(x, ast.Compare) and len(x.ops) == 1 and \
            isinstance(x.ops[0], (ast.LtE, ast.Lt, ast.GtE)) and mentions(x, 'args_of', 'ArgsOf'):
          ok_ = True
        elif isinstance(x, ast.Call) and call_tail(x) in ('issubset', 'issuperset', 'difference') \
            and mentions(x, 'args_of', 'ArgsOf'):
          ok_ = True
        elif isinstance(x, ast.Call) and call_tail(x) in ('any', 'all') and x.args and \
            isinstance(x.args[0], (ast.GeneratorExp, ast.ListComp)) and \
            mentions(x.args[0], 'args_of', 'ArgsOf') and mentions(x.args[0], 'args_map'):
          ok_ = True
      # the difference must decide alone: no other conjunct may switch it off
      if ok_ and isinstance(t_, ast.BoolOp) and isinstance(t_.op, ast.And):
        ok_ = False
      if ok_:
        found = st
      else:
        weak = st
  if found is None and weak is None:
    raise AnalysisError('CallFunctor: the diagnostic for foreign arguments is not recognised')
  v = views[0]
  chk.ob(rid, found is not None, None,
         'a functor call is rejected as soon as one named argument is not a dependency of the functor',
         'the FunctorError hangs on `%s`, not on "some argument is not a dependency": a call '
         'with one valid and one misspelt argument is accepted and the misspelt binding '
         'is silently ignored' % (norm(weak.test, 70) if weak is not None else ''),
         fi=v.fi, node=weak)


def no_memo_decorators(chk, rid, relpaths):
  """functools.lru_cache / cache / cached_property keep results beyond the
  call: the caller receives the SAME object next time (a list that one UDF
  sorts in place is sorted for the next one) and the outcome depends on what
  ran before.  None of the listed modules memoises a function today."""
  repo = chk.repo
  hits = []
  for rel in relpaths:
    m = repo.mod(rel)
    for x in ast.walk(m.tree):
      if isinstance(x, (ast.FunctionDef, ast.AsyncFunctionDef)):
        for d in x.decorator_list:
          t_ = dotted(d.func) if isinstance(d, ast.Call) else dotted(d)
          if t_ and t_.split('.')[-1] in ('lru_cache', 'cache', 'cached_property', 'memoize'):
            hits.append((m, x, t_))
  chk.ob(rid, not hits,
         '%s:%s' % (hits[0][0].relpath, hits[0][1].name) if hits else '%s:module' % relpaths[0],
         'no function of %s is memoised across calls' % ', '.join(r.split('/')[-1] for r in relpaths),
         '%s is decorated with %s: its result object is shared between calls (and with whoever '
         'changes it in place), so a value depends on what was computed before'
         % (hits[0][1].name if hits else '', hits[0][2] if hits else ''))
