"""C17 - grounded predicates: statement construction (structural clauses)."""

import ast
import os
import re

from sa.absint import Const, Interp, State, Sym
from sa.model import (AnalysisError, call_tail, const_str, dotted, kwarg, norm,
                      walk_local)
from sa.pathrules import FnView, receiver
from sa import strshape
from rules import common as K

TTAF = 'universe.SubqueryTranslator.TranslateTableAttachedToFile'
PREDSQL = 'universe.LogicaProgram.PredicateSql'


def export_scenarios(repo, engine, overwrite, copy_to_file, has_rules=True):
  """All paths of TranslateTableAttachedToFile for a not yet defined, defined
  predicate: returns [(exported skeleton text or None, effects)]."""
  fi = repo.func(TTAF)

  def attr(node, st, interp):
    d = dotted(node)
    if d == 'ground.overwrite':
      return Const(overwrite)
    if d == 'ground.table_name':
      return Sym('TABLE')
    if d == 'ground.copy_to_file':
      return Sym('FILE') if copy_to_file else Const(None)
    return NotImplemented

  def call(node, st, interp):
    t = call_tail(node)
    if t == 'Engine':
      return Const(engine)
    if t == 'MaybeCascadingDeletionWord':
      return Sym('CASCADE?')
    if t == 'PredicateSql':
      return Sym('SQL')
    if t == 'GenerateWithClauses':
      return Const(None)
    if t == 'UseFlagsAsParameters' and node.args:
      return interp.value(node.args[0], st)
    if t == 'FormatSql' and node.args:
      return strshape.Str([strshape.as_str(interp.value(node.args[0], st)), ';'])
    if t == 'AddClickhouseDropAction':
      st.effects.append(('drop-action', [norm(a) for a in node.args]))
      return Const(None)
    if t in ('append', 'pop', 'AddDefine'):
      if t == 'append' and 'defines_and_exports' in norm(node.func) and node.args:
        st.effects.append(('emit', interp.value(node.args[0], st)))
      return Const(None)
    r = strshape.call_hook(node, st, interp)
    if r is not NotImplemented:
      return r
    # helper of the same module (e.g. an extracted method): interpret it
    for tg in repo.resolve(fi, node):
      if tg.startswith('universe.') and tg != fi.fq:
        try:
          callee = repo.func(tg)
        except AnalysisError:
          continue
        params = callee.params
        if callee.cls is not None and params and params[0] in ('self', 'cls'):
          params = params[1:]
        env = {'self': Sym('self')}
        for i, a in enumerate(node.args):
          if i < len(params):
            env[params[i]] = interp.value(a, st)
        for k in node.keywords:
          if k.arg:
            env[k.arg] = interp.value(k.value, st)
        # parameters keep their names for the attr hook (ground.overwrite ...)
        for p_ in params:
          env.setdefault(p_, Sym(p_))
        v = interp.inline(callee.node, {k: v for k, v in env.items()
                                        if not (isinstance(v, Sym) and v.text == k)}, st)
        if v is not NotImplemented:
          return v
    return NotImplemented

  def compare(op, l, r, st):
    if isinstance(op, (ast.In, ast.NotIn)) and isinstance(r, Sym):
      if r.text.endswith('table_to_defined_table_map'):
        return isinstance(op, ast.NotIn)
      if r.text.endswith('defined_predicates'):
        return isinstance(op, ast.In) == has_rules
    return NotImplemented

  def store(target, val, st, interp):
    if isinstance(target, ast.Subscript) and 'table_to_export_map' in norm(target.value):
      st.effects.append(('export', val))

  hooks = dict(attr=attr, call=call, compare=compare, store=store,
               expr=strshape.expr_hook)
  it = Interp(fi.node, hooks)
  outs = it.run(State(env={'table': Sym('P'), 'edge_needed': Const(True)}))
  res = []
  for o in outs:
    if o.kind != 'return':
      continue
    exp = [e[1] for e in o.state.effects if e[0] == 'export']
    text = None
    if not has_rules:
      res.append(([strshape.as_str(e[1]).text(lambda h: '<%s>' % getattr(h, 'text', '?'))
                   for e in o.state.effects if e[0] == 'emit' and not (
                       isinstance(e[1], Const) and e[1].v is None)], o.state.effects))
      continue
    if exp:
      text = strshape.as_str(exp[-1]).text(lambda h: '<%s>' % getattr(h, 'text', '?'))
    res.append((text, o.state.effects))
  return fi, res


def run(chk):
  repo = chk.repo
  chk.rule('C17-R1', 'a grounded predicate is materialised once per '
           'compilation, after its dependencies: the already-defined test '
           'precedes statement construction, the table is registered before '
           'the recursive compilation, the export statement is appended after it',
           min_instances=5)
  v = FnView(repo, TTAF)
  ps = v.need_calls(PREDSQL)
  early = [n for n in v.cfg.stmt_nodes() if isinstance(v.cfg.stmt[n], ast.If) and
           isinstance(v.cfg.stmt[n].test, ast.Compare) and
           isinstance(v.cfg.stmt[n].test.ops[0], ast.In) and
           'table_to_defined_table_map' in norm(v.expand(v.cfg.stmt[n].test.comparators[0]))]
  if not early:
    raise AnalysisError('TranslateTableAttachedToFile: already-defined test not found')
  hdr = early[0]
  ret_ok = any(isinstance(s, ast.Return) for s in v.cfg.stmt[hdr].body)
  chk.ob('C17-R1', ret_ok, None, 'an already materialised table returns its name at once',
         'a grounded predicate that is read twice is materialised twice', fi=v.fi)
  for s in ps:
    chk.ob('C17-R1', v.cfg.must_pass_before(s[0], [hdr]), None,
           'already-defined test precedes the compilation of the predicate',
           'the predicate is compiled before checking whether its table exists',
           fi=v.fi, node=s[1])
  reg = [n for n in v.cfg.stmt_nodes() if isinstance(v.cfg.stmt[n], ast.Assign) and
         isinstance(v.cfg.stmt[n].targets[0], ast.Subscript) and
         'table_to_defined_table_map' in norm(v.expand(v.cfg.stmt[n].targets[0].value))]
  for s in ps:
    chk.ob('C17-R1', bool(reg) and v.cfg.must_pass_before(s[0], reg), None,
           'the table is registered as defined before its body is compiled',
           'a predicate that reaches itself through its dependencies is '
           'materialised again (unbounded recursion / duplicate CREATE)',
           fi=v.fi, node=s[1])
  apps = [(n, c) for n, c in v.all_calls() if call_tail(c) == 'append' and
          'defines_and_exports' in norm(c.func) and c.args and
          dotted(c.args[0]) == 'export_statement']
  chk.ob('C17-R1', bool(apps), None, 'the export statement is appended to defines_and_exports',
         'the CREATE TABLE statement is never emitted', fi=v.fi)
  for a in apps:
    after = v.cfg.reachable(a[0])
    late = [s for s in ps if s[0] in after]
    chk.ob('C17-R1', not late and v.cfg.must_pass_before(a[0], v.nodes_of(ps) | set(
        b for b, (h, pol) in v.cfg.branch_of.items()
        if isinstance(v.cfg.stmt[h], ast.If) and 'defined_predicates' in norm(v.cfg.stmt[h].test) and not pol)),
           None, 'export statement appended after the recursive compilation',
           "a reader's CREATE statement precedes the statement of the table it reads",
           fi=v.fi, node=a[1])
  exp_store = [n for n in v.cfg.stmt_nodes() if isinstance(v.cfg.stmt[n], ast.Assign) and
               isinstance(v.cfg.stmt[n].targets[0], ast.Subscript) and
               'table_to_export_map' in norm(v.cfg.stmt[n].targets[0].value) and
               dotted(v.cfg.stmt[n].targets[0].slice) == 'table']
  chk.ob('C17-R1', bool(exp_store), None, 'the statement is recorded in table_to_export_map[table]',
         'the workflow executor has no statement for the grounded table', fi=v.fi)

  chk.rule('C17-R2', 're-creation is guarded: with overwrite the exported text '
           'drops or replaces the table it creates (same name), without '
           'overwrite no DROP is emitted; all engines, all paths (abstract '
           'interpretation with string skeletons)', min_instances=8)
  n_paths = 0
  for engine in ('sqlite', 'psql', 'duckdb', 'clickhouse', 'bigquery'):
    for overwrite in (True, False):
      fi, res = export_scenarios(repo, engine, overwrite, copy_to_file=False)
      n_paths += len(res)
      texts = [t for t, eff in res]
      if not res or any(t is None for t in texts):
        raise AnalysisError('TranslateTableAttachedToFile(%s, overwrite=%s): '
                            'exported statement not recognised' % (engine, overwrite))
      for t, eff in res:
        flat = ' '.join(t.split())
        creates = re.findall(r'CREATE (?:OR REPLACE )?TABLE (\S+) AS', flat)
        ok_create = creates == ['<TABLE>']
        chk.ob('C17-R2', ok_create, None,
               '[%s, overwrite=%s] creates exactly the grounded table' % (engine, overwrite),
               'exported text is `%s`' % flat[:160], fi=fi)
        dropped = re.search(r'DROP TABLE IF EXISTS <TABLE>', flat) is not None and \
            flat.index('DROP TABLE') < flat.index('CREATE')
        replaced = 'CREATE OR REPLACE TABLE <TABLE>' in flat
        action = any(e[0] == 'drop-action' for e in eff)
        any_drop = 'DROP TABLE' in flat
        if overwrite:
          chk.ob('C17-R2', dropped or replaced or action, None,
                 '[%s, overwrite] old table is dropped or replaced before CREATE' % engine,
                 'the second run fails with "table already exists" or keeps '
                 'stale rows: exported text is `%s`' % flat[:160], fi=fi)
        else:
          chk.ob('C17-R2', not any_drop and not replaced and not action, None,
                 '[%s, no overwrite] nothing is dropped' % engine,
                 'a table the user asked not to overwrite is dropped, or a '
                 'malformed DROP is emitted: `%s`' % flat[:160], fi=fi)
        bal = _balanced(flat)
        chk.ob('C17-R2', bal, None, '[%s, overwrite=%s] statement text is well formed' % (engine, overwrite),
               'exported text `%s` has an empty table name or dangling separator' % flat[:120],
               fi=fi, nontrivial=False)
  # a grounded predicate without rules names an existing table: nothing but
  # the comment may be emitted for it
  for engine in ('sqlite', 'duckdb', 'clickhouse'):
    fi, res = export_scenarios(repo, engine, True, False, has_rules=False)
    n_paths += len(res)
    for emitted, eff in res:
      stmts = [t for t in emitted if not t.lstrip().startswith('--')]
      drop = any(e[0] == 'drop-action' for e in eff)
      exported = any(e[0] == 'export' for e in eff)
      chk.ob('C17-R2', not stmts and not drop and not exported, None,
             '[%s] a rule-less @Ground emits no statement' % engine,
             'for a grounded predicate without rules (an existing table) %s is '
             'emitted: running the program drops / rewrites a table it only reads'
             % (stmts or 'a drop action'), fi=fi)
  chk.more_evaluations += n_paths
  ca = repo.func('universe.SubqueryTranslator.AddClickhouseDropAction')
  src = norm(ca.node, 10000)
  ok = 'DROP TABLE IF EXISTS' in src and 'ground.table_name' in src and \
      'dependency_edges.append((drop_action, table))' in src.replace('self.execution.', '')
  chk.ob('C17-R2', ok, None, 'ClickHouse drop action drops the grounded table and precedes the create',
         'the separate drop action no longer targets ground.table_name / is not ordered before the table',
         fi=ca)

  # several predicates requested in one run: what is done for one execution
  # (which grounded tables keep their write action, which are renamed) must
  # not depend on how many executions were processed before it - inside the
  # loop over the executions no container is both grown and consulted
  ex = FnView(repo, 'concertina_lib.ExecuteLogicaProgram')
  execs = ex.fi.params[0]
  loops = [n for n in ex.cfg.stmt_nodes() if isinstance(ex.cfg.stmt[n], ast.For) and
           dotted(ex.cfg.stmt[n].iter) == execs]
  if not loops:
    raise AnalysisError('ExecuteLogicaProgram: loop over the executions not found')
  for ln in loops:
    loop = ex.cfg.stmt[ln]
    grown, consulted = {}, {}
    for x in ast.walk(loop):
      if isinstance(x, ast.Call) and isinstance(x.func, ast.Attribute) and \
          isinstance(x.func.value, ast.Name) and x.func.attr in ('add', 'update', 'append', 'extend'):
        grown.setdefault(x.func.value.id, x)
      if isinstance(x, ast.AugAssign) and isinstance(x.target, ast.Name):
        grown.setdefault(x.target.id, x)
      if isinstance(x, ast.Assign) and isinstance(x.targets[0], ast.Subscript) and \
          isinstance(x.targets[0].value, ast.Name):
        grown.setdefault(x.targets[0].value.id, x)
    for x in ast.walk(loop):
      tests = []
      if isinstance(x, (ast.If, ast.While)):
        tests.append(x.test)
      elif isinstance(x, ast.For) and x is not loop:
        tests.append(x.iter)
      elif isinstance(x, ast.comprehension):
        tests.append(x.iter)
        tests.extend(x.ifs)
      for t_ in tests:
        for n_ in ast.walk(t_):
          if isinstance(n_, ast.Name) and n_.id in grown:
            consulted.setdefault(n_.id, t_)
    both = sorted(set(grown) & set(consulted))
    chk.ob('C17-R1', not both, None,
           'handling of one requested predicate does not depend on the ones handled before it',
           '`%s` is filled inside the loop over the requested predicates and consulted '
           'in the same loop (`%s`): a grounded predicate requested after its reader '
           'is not recognised as final, its table-writing action is overwritten and '
           'the reader sees the table of an earlier run'
           % (both[0] if both else '', norm(consulted[both[0]], 60) if both else ''),
           fi=ex.fi, node=loop)

  chk.rule('C17-R3', 'asking for a grounded predicate prints it: '
           'FormattedPredicateSql compiles `name` directly and never routes it '
           'through TranslateTable', min_instances=2)
  f = FnView(repo, 'universe.LogicaProgram.FormattedPredicateSql')
  direct = f.calls(PREDSQL) + f.calls('universe.LogicaProgram.FunctionSql')
  chk.ob('C17-R3', bool(direct) and all(dotted(c.args[0]) == 'name' for n, c in direct), None,
         'FormattedPredicateSql compiles name through PredicateSql / FunctionSql',
         'the requested predicate is not compiled directly', fi=f.fi)
  routed = [c for n, c in f.all_calls() if (call_tail(c) or '').startswith('TranslateTable')]
  chk.ob('C17-R3', not routed, None, 'the requested predicate is not translated as a table',
         'FormattedPredicateSql routes the requested predicate through '
         'TranslateTable: a grounded predicate would be written instead of printed',
         fi=f.fi)
  st = [x for x in walk_local(f.fi.node) if isinstance(x, ast.Assign) and
        isinstance(x.targets[0], ast.Subscript) and
        'table_to_export_map' in norm(x.targets[0].value) and dotted(x.targets[0].slice) == 'name']
  chk.ob('C17-R3', bool(st), None, 'the main query is recorded as table_to_export_map[name]',
         'the executor has no statement for the requested predicate', fi=f.fi)

  # the runners execute pieces of the execution object on their own (logica.py
  # run: preamble + defines_and_exports + main_predicate_sql; concertina:
  # preamble, table_to_export_map): each piece is stored with its ${flag}
  # placeholders substituted before FormattedPredicateSql returns, else the
  # ATTACH / CREATE TABLE that is executed is not the one that is printed
  pieces = {}
  for m_ in (repo.mod('logica.py'), repo.mod('common/concertina_lib.py')):
    for x in ast.walk(m_.tree):
      if isinstance(x, ast.Attribute) and isinstance(x.ctx, ast.Load) and \
          x.attr in ('preamble', 'main_predicate_sql', 'table_to_export_map'):
        pieces.setdefault(x.attr, os.path.basename(m_.path))
  if len(pieces) < 3:
    raise AnalysisError('runners read only %s of the execution object' % sorted(pieces))
  def direct(e):
    return any(isinstance(c, ast.Call) and call_tail(c) == 'UseFlagsAsParameters'
               for c in ast.walk(f.expand(e, 2)))
  local_assigns = {}
  for n in f.cfg.stmt_nodes():
    st = f.cfg.stmt[n]
    if isinstance(st, (ast.Assign, ast.AugAssign)):
      for tg in (st.targets if isinstance(st, ast.Assign) else [st.target]):
        if isinstance(tg, ast.Name):
          local_assigns.setdefault(tg.id, []).append((n, st))
  def substituted(e, at):
    """the value stored at node `at` went through UseFlagsAsParameters: in the
    expression itself, or - for a local - in an assignment every path to the
    store passes, after which the local is only extended (never replaced)"""
    if direct(e):
      return True
    if not isinstance(e, ast.Name):
      return False
    subs = [(n, st) for n, st in local_assigns.get(e.id, ()) if
            isinstance(st, ast.Assign) and direct(st.value)]
    for a_n, a_st in subs:
      if not f.cfg.must_pass_before(at, [a_n]):
        continue
      after = f.cfg.reachable(a_n)
      replaced = [o for o, ost in local_assigns[e.id] if o != a_n and o in after and
                  isinstance(ost, ast.Assign) and
                  not any(isinstance(y, ast.Name) and y.id == e.id for y in ast.walk(ost.value))]
      if not replaced:
        return True
    return False
  rets = [n for n, r in f.returns() if f.live(n)]
  loop_of = {}
  for n in f.cfg.stmt_nodes():
    st = f.cfg.stmt[n]
    if isinstance(st, ast.For):
      for y in st.body:
        for z in ast.walk(y):
          loop_of.setdefault(id(z), n)
  for piece, reader in sorted(pieces.items()):
    stores = []
    for n in f.cfg.stmt_nodes():
      st = f.cfg.stmt[n]
      if not isinstance(st, ast.Assign):
        continue
      for tg in st.targets:
        base = tg.value if isinstance(tg, ast.Subscript) else tg
        if (dotted(base) or '').endswith('execution.' + piece) and substituted(st.value, n):
          # a store per entry inside `for k, v in <piece>.items()` covers the
          # piece once the loop is passed
          stores.append(loop_of.get(id(st), n))
    ok = bool(stores) and all(f.cfg.must_pass_before(r, stores) for r in rets)
    chk.ob('C17-R3', ok, None,
           'execution.%s (executed by %s) is stored with its flags substituted '
           'before FormattedPredicateSql returns' % (piece, reader),
           'execution.%s keeps its ${flag} placeholders on some path: the runner '
           'executes e.g. ATTACH DATABASE \'${db}\' - another database than the '
           'printed script names, so the grounded table is written / read elsewhere'
           % piece, fi=f.fi)

  # "the table of P holds exactly the multiset P evaluates to": the query that
  # fills the table is the query that is printed when P is asked for - the
  # compilation of a predicate does not ask whether it is the requested one
  psv = FnView(repo, PREDSQL)
  asks = [x for x in walk_local(psv.fi.node) if isinstance(x, ast.Attribute) and
          x.attr == 'main_predicate' and isinstance(x.ctx, ast.Load)]
  for n_, c_ in psv.all_calls():
    for t_ in repo.resolve(psv.fi, c_):
      if t_.startswith('universe.LogicaProgram.') and t_ not in (PREDSQL,
                                                                 'universe.LogicaProgram.SingleRuleSql'):
        try:
          h_ = repo.func(t_)
        except AnalysisError:
          continue
        asks += [x for x in walk_local(h_.node) if isinstance(x, ast.Attribute) and
                 x.attr == 'main_predicate' and isinstance(x.ctx, ast.Load)]
  chk.ob('C17-R3', not asks, None,
         'PredicateSql compiles a predicate the same way whether it is requested or materialised',
         'PredicateSql consults execution.main_predicate: the statement that fills the table of '
         'a grounded predicate differs from the query printed for the predicate itself '
         '(e.g. LIMIT without ORDER BY keeps other rows)', fi=psv.fi,
         node=asks[0] if asks else None)

  chk.rule('C17-R4', 'a grounded predicate is never inlined into its reader: '
           'OkInjection is false whenever Ground(p) is present and every '
           'InjectStructure is control dependent on OkInjection for the '
           'predicate being injected', min_instances=2)
  from rules.c18 import Abs, outcomes
  from sa.absint import Const as _C
  fi2, outs = outcomes(repo, K.OKINJ, {'universe.Annotations.Ground': Abs('ground-present', True, False)})
  bad = [o for o in outs if o.kind in ('return', 'fall') and
         not (isinstance(o.value, _C) and not o.value.v)]
  chk.ob('C17-R4', bool(outs) and not bad, None, 'OkInjection is false when @Ground(p) is present',
         'a grounded predicate can be judged injectible: it is inlined and its '
         'table is never written', fi=fi2)
  v2, sites = K.injection_sites(chk)
  for n, c in sites:
    oks = [e for e, val in v2.guards(n) if val and isinstance(e, ast.Call) and
           K.OKINJ in repo.resolve(v2.fi, e)]
    gpr = {dotted(x.args[0]) for m2, x in v2.all_calls()
           if call_tail(x) == 'GetPredicateRules' and x.args}
    asked = {dotted(e.args[0]) for e in oks if e.args}
    chk.ob('C17-R4', bool(oks) and asked <= gpr, None,
           'every injection asks OkInjection about the predicate it injects, at the time it injects it',
           'InjectStructure is reached without a positive OkInjection(<predicate>) '
           'test on the path (hoisted / cached decision?): predicates that appear '
           'in later rounds of the injection loop are not checked against @Ground',
           fi=v2.fi, node=c)


def _balanced(flat):
  return 'EXISTS ;' not in flat and 'TABLE AS' not in flat and 'EXISTS <CASCADE?>;' not in flat
