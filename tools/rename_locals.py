"""Behaviour-preserving transformation used to hunt false alarms: rename every
function-local variable (not parameters, not globals / nonlocals, not names
only read) of every function in the analysed Python sources of a scratch copy
of /repo, then write the files back through ast.unparse.

usage: rename_locals.py <root> [--suffix _rn] [--params]

With --params positional parameters of *nested* functions and lambdas are not
touched either (callers may pass keywords); only locals are renamed.
"""
import argparse
import ast
import os
import sys

HERE = os.path.dirname(os.path.abspath(__file__))
sys.path.insert(0, os.path.dirname(HERE))
from selftest.run import COPY  # noqa: E402


def bound_names(fn):
  """names bound by assignment in the function's own scope."""
  out, declared = set(), set()

  def targets(t):
    if isinstance(t, ast.Name):
      out.add(t.id)
    elif isinstance(t, (ast.Tuple, ast.List)):
      for e in t.elts:
        targets(e)
    elif isinstance(t, ast.Starred):
      targets(t.value)

  def walk(node):
    for ch in ast.iter_child_nodes(node):
      if isinstance(ch, (ast.FunctionDef, ast.AsyncFunctionDef, ast.ClassDef)):
        out.add(ch.name) if False else None
        continue
      if isinstance(ch, ast.Lambda):
        continue
      if isinstance(ch, (ast.ListComp, ast.SetComp, ast.DictComp, ast.GeneratorExp)):
        # own scope for targets; but the first iterable is evaluated outside
        walk(ch)
        continue
      if isinstance(ch, (ast.Global, ast.Nonlocal)):
        declared.update(ch.names)
      if isinstance(ch, ast.Assign):
        for t in ch.targets:
          targets(t)
      elif isinstance(ch, (ast.AugAssign, ast.AnnAssign)):
        targets(ch.target)
      elif isinstance(ch, (ast.For, ast.AsyncFor)):
        targets(ch.target)
      elif isinstance(ch, (ast.With, ast.AsyncWith)):
        for it in ch.items:
          if it.optional_vars is not None:
            targets(it.optional_vars)
      elif isinstance(ch, ast.ExceptHandler) and ch.name:
        pass      # handler names are strings in the AST: left alone
      elif isinstance(ch, ast.NamedExpr):
        targets(ch.target)
      elif isinstance(ch, ast.comprehension):
        pass
      walk(ch)
  walk(fn)
  return out - declared


def comp_targets(comp):
  out = set()
  for g in comp.generators:
    for x in ast.walk(g.target):
      if isinstance(x, ast.Name):
        out.add(x.id)
  return out


def params(fn):
  a = fn.args
  ps = [p.arg for p in a.posonlyargs + a.args + a.kwonlyargs]
  if a.vararg:
    ps.append(a.vararg.arg)
  if a.kwarg:
    ps.append(a.kwarg.arg)
  return set(ps)


def handler_names(fn):
  return {h.name for h in ast.walk(fn) if isinstance(h, ast.ExceptHandler) and h.name}


class Renamer:
  def __init__(self, suffix, comps=False, safe_params=None):
    self.suffix = suffix
    self.count = 0
    self.comps = comps
    self.safe_params = safe_params

  def rename_in(self, node, mapping):
    """apply mapping to Name nodes below node, respecting nested scopes."""
    for ch in ast.iter_child_nodes(node):
      if isinstance(ch, (ast.FunctionDef, ast.AsyncFunctionDef)):
        # decorators / defaults are evaluated in the enclosing scope
        for d in ch.decorator_list + ch.args.defaults + [k for k in ch.args.kw_defaults if k]:
          self.apply(d, mapping)
        self.function(ch, mapping)
      elif isinstance(ch, ast.Lambda):
        for d in ch.args.defaults + [k for k in ch.args.kw_defaults if k]:
          self.apply(d, mapping)
        inner = {k: v for k, v in mapping.items() if k not in params(ch)}
        if self.comps:
          for p in ch.args.posonlyargs + ch.args.args:
            inner[p.arg] = p.arg + self.suffix
            p.arg = p.arg + self.suffix
            self.count += 1
        self.apply(ch.body, inner)
      elif isinstance(ch, ast.ClassDef):
        # class bodies do not see enclosing function locals by closure except
        # through nested functions; keep simple: apply mapping to methods only
        for d in ch.decorator_list + ch.bases:
          self.apply(d, mapping)
        for st in ch.body:
          if isinstance(st, (ast.FunctionDef, ast.AsyncFunctionDef)):
            self.function(st, mapping)
          else:
            self.apply(st, mapping)
      else:
        self.apply(ch, mapping)

  def apply(self, node, mapping):
    if isinstance(node, ast.Name):
      if node.id in mapping:
        node.id = mapping[node.id]
      return
    if isinstance(node, ast.Nonlocal):
      node.names = [mapping.get(n, n) for n in node.names]
      return
    if isinstance(node, (ast.ListComp, ast.SetComp, ast.DictComp, ast.GeneratorExp)):
      # comprehension variables are their own scope: they shadow
      shadow = comp_targets(node)
      inner = {k: v for k, v in mapping.items() if k not in shadow}
      if self.comps:
        for n in sorted(shadow):
          inner[n] = n + self.suffix
          self.count += 1
      # first iterable is evaluated in the enclosing scope
      first = node.generators[0].iter
      self.apply(first, mapping)
      for i, g in enumerate(node.generators):
        if i:
          self.apply(g.iter, inner)
        self.apply(g.target, inner)
        for c in g.ifs:
          self.apply(c, inner)
      if isinstance(node, ast.DictComp):
        self.apply(node.key, inner)
        self.apply(node.value, inner)
      else:
        self.apply(node.elt, inner)
      return
    if isinstance(node, (ast.FunctionDef, ast.AsyncFunctionDef, ast.Lambda, ast.ClassDef)):
      self.rename_in(ast.Module(body=[node], type_ignores=[]), mapping)
      return
    self.rename_in(node, mapping)

  def function(self, fn, outer):
    own = bound_names(fn) - params(fn) - handler_names(fn)
    # names used with the `nonlocal` / `global` statement are excluded by bound_names
    shadowed = params(fn) | bound_names(fn) | handler_names(fn)
    mapping = {k: v for k, v in outer.items() if k not in shadowed}
    # nested defs are names too, but other code may look them up: leave them
    nested = {n.name for n in ast.walk(fn)
              if isinstance(n, (ast.FunctionDef, ast.AsyncFunctionDef, ast.ClassDef)) and n is not fn}
    for n in sorted(own - nested):
      if n.startswith('__'):
        continue
      mapping[n] = n + self.suffix
      self.count += 1
    if self.safe_params is not None:
      a = fn.args
      for p in a.posonlyargs + a.args:
        if p.arg in ('self', 'cls') or p.arg in self.safe_params or p.arg + self.suffix in shadowed:
          continue
        mapping[p.arg] = p.arg + self.suffix
        p.arg = p.arg + self.suffix
        self.count += 1
    for st in fn.body:
      self.apply(st, mapping)


def uses_dynamic_scope(tree):
  for x in ast.walk(tree):
    if isinstance(x, ast.Call) and isinstance(x.func, ast.Name) and \
        x.func.id in ('locals', 'vars', 'eval', 'exec'):
      return True
  return False


def main():
  ap = argparse.ArgumentParser()
  ap.add_argument('root')
  ap.add_argument('--suffix', default='_rn')
  ap.add_argument('--comps', action='store_true', help='also comprehension / lambda variables')
  ap.add_argument('--params', action='store_true',
                  help='also positional parameters never passed by keyword anywhere')
  a = ap.parse_args()
  total = files = 0
  unsafe = None
  if a.params:
    # every keyword used at any call site of the repository, and every name
    # used as attribute of `args` style objects is left alone
    unsafe = set()
    for dp, dn, fn in os.walk(a.root):
      if '.git' in dp:
        continue
      for f in fn:
        if f.endswith('.py'):
          try:
            t = ast.parse(open(os.path.join(dp, f)).read())
          except (SyntaxError, UnicodeDecodeError):
            continue
          for x in ast.walk(t):
            if isinstance(x, ast.Call):
              unsafe.update(k.arg for k in x.keywords if k.arg)
  for d in COPY:
    base = os.path.join(a.root, d)
    if not os.path.isdir(base):
      continue
    for dp, dn, fn in os.walk(base):
      for f in fn:
        if not f.endswith('.py'):
          continue
        p = os.path.join(dp, f)
        src = open(p).read()
        try:
          tree = ast.parse(src)
        except SyntaxError:
          continue
        if uses_dynamic_scope(tree):
          continue
        r = Renamer(a.suffix, a.comps, unsafe)
        for st in tree.body:
          if isinstance(st, (ast.FunctionDef, ast.AsyncFunctionDef)):
            r.function(st, {})
          elif isinstance(st, ast.ClassDef):
            for m in ast.walk(st):
              pass
            r.rename_in(ast.Module(body=[st], type_ignores=[]), {})
        if r.count:
          open(p, 'w').write(ast.unparse(tree) + '\n')
          total += r.count
          files += 1
  print('renamed %d locals in %d files' % (total, files))


if __name__ == '__main__':
  main()
