"""Records, for every function of the analysed Python modules of /repo, the
names of its parameters and locals with a fingerprint of how each local is used
(sa/roles.py).  The rules were written against these names; the reference lets
the checker recognise the same variable after a rename.  Regenerate only from a
tree on which the rules were confirmed by reading (the pinned tree plus the
"fix:" commits)."""
import json
import os
import sys

HERE = os.path.dirname(os.path.abspath(__file__))
sys.path.insert(0, os.path.dirname(HERE))
from sa import roles  # noqa: E402

root = sys.argv[1] if len(sys.argv) > 1 else '/repo'
rels = []
for d, dirs, files in os.walk(root):
  dirs[:] = [x for x in dirs if x not in ('.git', '__pycache__')]
  for f in sorted(files):
    if f.endswith('.py'):
      rels.append(os.path.relpath(os.path.join(d, f), root))
ref = roles.build_reference(root, sorted(rels))
ref = {k: v for k, v in ref.items() if v}
with open(roles.REF, 'w') as f:
  json.dump(ref, f, separators=(',', ':'), sort_keys=False)
print('functions: %d  locals: %d  bytes: %d' % (
    sum(len(v) for v in ref.values()),
    sum(len(x['locals']) for v in ref.values() for x in v.values()),
    os.path.getsize(roles.REF)))
