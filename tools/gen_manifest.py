"""Generates /verif/MANIFEST.json from the table below (single source of truth
for claimed / not-applicable properties)."""

import json
import os
import sys

HERE = os.path.dirname(os.path.abspath(__file__))
VERIF = os.path.dirname(HERE)

TRUST = ('Trusted base: CPython ast module as the reader of /repo; the '
         'class-hierarchy-by-name call resolution of sa/model.py (no '
         'reflection in the pipeline, assumption A5); the CFG builder of '
         'sa/cfg.py (implicit exceptions outside try blocks not modelled); the '
         'normalisations applied before the rules run - variables and moved '
         'functions identified by role against sa/roles_ref.json (recorded from '
         'the pinned tree; it only decides which construct a rule is talking '
         'about, never the verdict), new helper functions read in place '
         '(sa/inline.py), named constants read as their definitions. '
         'The behaviour itself (rows returned) is NOT decided.')

CLAIMED = {
    'C01': dict(
        technique='typestate/dominance on per-function CFGs; producer/consumer key-set inclusion over the AST; format-constant agreement; SQL-token check of emitted templates',
        text='Structural necessary conditions only, not the multiset equality itself: (R1) on every path to RuleStructure.AsSql in SingleRuleSql/FunctionSql the structure went through ExtractRuleStructure -> RunInjections -> ElliminateInternalVariables(full) -> UnificationsToConstraints, and injected structures are eliminated before InjectStructure; (R2) every expression/literal/proposition kind the parser can build has a consumer branch; (R3) every site naming a positional column uses col<N> and every writer of the functional value uses logica_value; (R4) rules of one predicate are joined by UNION ALL without DISTINCT and GROUP BY is emitted only for distinct_vars. Breaking any of them changes rows or makes compilation fail for whole classes of programs; the checks see every branch of every function on every run, which no finite set of goldens does. Added after the seeded-change rounds: (R5) multiplicities - conjunction of DNFs is a product, disjunction a concatenation, every rewritten functional call gets its own conjunct, injection merges every component, WHERE is the AND of all constraints; (R6) the SQL of an infix operator and of a combine is one parenthesised group on every path out of ConvertToSql (abstract interpretation with string skeletons). (R7) no method of QL reachable from ConvertToSql stores into the expression tree it is given (sharing-level analysis: the same expression object stands at every use of a variable). Every rule body goes through PropositionToDNF; an inclusion is an unnesting on every path. (R8) the infix splitter tries looser operators first, `+` before `-`, `*` before `/`, and an operator that contains another one before it.',
        ref='3/C01'),
    'C05': dict(
        technique='post-dominance / guarded-by on CFGs, abstract interpretation of CheckForError, parser-key vs visitor-key inclusion, call-graph reachability of constraint generators',
        text='Structural necessary conditions only, not soundness of inference: (R1) in RunTypechecker and SingleRuleSql inference is always followed by the error search in raise mode over the same rules before AsSql, and CheckForError(raise) raises TypeErrorCaughtException whenever an error was found (all paths, abstract interpretation); (R2) every key under which the parser stores a sub-expression is visited by ExpressionsIterator and every Act* constraint generator is reachable from the inference passes; (R3) whole-program and per-structure checking are gated by the same ShouldTypecheck(); (R4) pod literals get Num/Str/Bool. (R5) dependencies of a predicate accumulate over all its rules and rules are inferred in dependency order; (R6) closing a record literal redirects the end of the reference chain and happens after its fields are unified. (R7) combine scoping of type variables: the scope is snapshotted after its own variables were registered and a fresh copy of the snapshot is restored after every nested combine. Two unified lists both receive the unified element references. A list literal is typed as a list even without elements.',
        ref='3/C05'),
    'C09': dict(
        technique='interface conformance over the class hierarchy (signature vs every call site), format-string parsing of every template table entry with arity from abstract interpretation of BuiltInFunctionArityRange, CFG dominance for placeholder handling and WITH ordering',
        text='Four of the five clauses, structurally: (R1) every method the pipeline invokes on a dialect object, with the argument shape of each call site, is accepted by each of the eight dialect classes; (R2) every function/infix/unnest/array/analytic template formats without ValueError/KeyError/IndexError for every admissible argument count and has an arity source; (R4) UNUSED entries are handled before the generic loop, the DUMMY() UDF bootstrap is overwritten, the nil marker is a SQL comment and filtered; (R5) a WITH dependency is appended after its own dependencies were compiled, once, and emitted in recorded order. Alias scoping (alias.column refers to an enclosing FROM) is run-time data of RuleStructure and is NOT decided; bracket/quote balance of emitted text is added by C09-R3 when the template-skeleton engine is built. (R3) every maximal string-building expression of the emitters and every template has balanced brackets and closed quotes with holes as atoms; the application style (positional vs named) of each template table matches its call site; (R5 also) compile-per-parent WITH recording. R1 respects Name() guards of dialect-specific calls; R3 also requires every string literal to be one closed literal of the dialect (the exhaustive check of C10-R1). SortUnnestings counts variables inside combines among the dependencies of an unnesting. TranslateRule never returns SQL remembered from a call with another enclosing vocabulary.',
        ref='3/C09'),
    'C13': dict(
        technique='inter-procedural set-order taint analysis (kinds, effect summaries, return/parameter/attribute flow to a fixpoint) with premise-checked exemptions; global-state inventory with data/control dependence and all-paths re-establishment on the CFG; nondeterminism-source confinement; deep-copy provenance',
        text='This is the property static analysis suits best: hash-seed and process-history dependence are invisible to a test run and visible in the code. (R1) no iteration order of a set reaches a list, string, allocator numbering, emitted statement or the insertion order of a dict that is iterated later, anywhere in parse/compiler/type-inference modules, except 8 named constructs whose normalising consumer is itself checked on every run; (R2) every run-time write to module/class level state is never read, a constant cache, or assigned on all paths of its writer; shared containers are never mutated in place; (R3) time/identity/random sources reach only the stop-signal file name, timers and identity bookkeeping; (R4) caller-owned rules and shared template tables are deep-copied before any in-place rewrite. Decides absence of these two mechanisms of non-determinism, not byte equality itself. Objects of the caller that the constructors keep as they are (rules, user flags) are never written to by any method.',
        ref='3/C13'),
    'C14': dict(
        technique='dominance / must-pass-through on CFGs of the edge-recording and queue-owning functions; ownership scan of the action queue; direction agreement between edge writer and reader',
        text='Three structural clauses, not schedule correctness for every graph: (R1) every read of a grounded or external table records the edge (table, reader-on-top-of-stack) before any return, only the iteration closure suppresses edges, and the executor reads the tuple in the same direction; (R2) push/pop of the workflow stack bracket the recursive compilation, SortActions schedules an action only when its requirements are complete; (R3) an iterated action is re-queued only after its counter was incremented and found below the declared repetitions and without stop signal, only three methods touch the queue, only iterated actions are re-queued, the head is dequeued before it runs. Renaming a predicate renames both ends of its dependency edges; the iterations table is owned by the program object and Iterations() hands out fresh data. A re-queued action is placed behind the queued members of its own iteration only. No set iteration order reaches the schedule SortActions returns (set-order analysis of concertina_lib).',
        ref='3/C14'),
    'C18': dict(
        technique='abstract interpretation of OkInjection / LimitClause under annotation scenarios (present, absent, zero); control dependence of InjectStructure on OkInjection; return-expression composition in PredicateSql; producer/consumer table agreement for denotations',
        text='Structural clauses, not the row order SQLite returns: (R1) OkInjection is false on every path when @OrderBy or @Limit is present and every InjectStructure is control dependent on it; (R2) every non-raising return of PredicateSql carries body + OrderByClause(name) + LimitClause(name) in that order and all nested uses compile through PredicateSql; (R3) an arbitrary int limit including 0 still blocks injection and emits LIMIT, absence emits nothing; (R4) denotation keys written by ParseRule are the keys read by AnnotationsFromDenotations and map to registered annotations read by OrderBy()/LimitOf(). OkInjection is asked about the predicate whose rules are injected; denotations become annotations before the parser rewrites that duplicate rules. Annotations inherited by functor clones are read from state recomputed after every application. Positional annotation arguments are taken in numeric order of their position. A returned name taken out of a local list is judged by what the list is filled with.',
        ref='3/C18'),
    'C19': dict(
        technique='catalogue of guarded raise sites located by exception type + polarity-aware guard dependence; must-call (post-dominance) of validators; call-graph reachability from the entry points; handler discipline on the call paths and at the CLI',
        text='Error discipline, not detection of every corrupted program: (R1) for each class of invalid program named by the property a raise of the right diagnostic type exists under a guard derived from the relevant condition; (R2) the validators are must-calls of the entry points and every site is reachable from ParseFile / LogicaProgram; (R3) catalogue functions raise only the four diagnostic types, exception_maker builds RuleCompileException, no handler between entry and site swallows a diagnostic, and logica.py / run_in_terminal catch all of them, show the message and exit non-zero. For five validators the must-raise scenario is interpreted abstractly: whenever the core condition holds, every path raises the diagnostic (an added escape such as `if <cond>: continue` is a path that does not). AllVariables() covers select, unifications, constraints and unnestings, and the select exemption of the variable collector is not in force below the top level. A call, record or list is accepted only when IsWhole(inner text) held on the way to the successful return (an unclosed opener is reported only because nothing parses).',
        ref='3/C19'),
    'C02': dict(
        technique='dominance on the CFG of ExtractRuleStructure; argument provenance at the combine call chain; set-difference shape of the GROUP BY key computation; exhaustiveness of dialect GroupBySpecBy constants; constructor/consumer key-set agreement of aggregation nodes',
        text='Structural necessary conditions only, not aggregate values or null behaviour: (R1) DisambiguateCombineVariables runs on the private copy before value inlining, select and body extraction; (R2) a combine is translated with the current vocabulary and is_combine=True, the flag and vocabulary are forwarded unchanged, DecorateCombineRule is applied iff is_combine, FROM sub-queries see only the external vocabulary; (R3) GROUP BY keys are exactly select keys minus aggregated keys of distinct rules, in all three dialect modes, and every dialect answers GroupBySpecBy() with a handled mode; (R4) + and ++ map to existing built-ins, every constructor of an aggregation node builds the key set the rewrite consumes, negation is IsNull(combine Min/Max= 1). (R5) the SQLite aggregate UDFs behind ArgMin/ArgMax/Set/List are arrival-order independent, keep the heap discipline of their K-best buffers (max-heap primitives only on the max-heap, buffer heapified before replacement) and never test data values for truthiness. The GROUP BY key list is exactly the select keys in distinct_vars (no further filter); DisambiguateCombineVariables has no exit before the loop over the sub-combines. Combine-local variables are renamed with a number from the execution-level allocator. Sibling recursive calls of the tree walkers agree on the optional parameters they forward; the dialects of engines with standard aggregate scoping entangle every combine on every path; TranslateRule returns SQL translated for this call (no store keyed without the vocabulary).',
        ref='3/C02'),
    'C04': dict(
        technique='provenance of renamed objects (deep-copy returns, no access to the shared rule index); value-dependence (def-use closure ignoring filters) of the cache key; polarity-aware guards of Make in MakeAll',
        text='Structural necessary conditions only, not equality with the hand-substituted program: (R1) AllRulesOf / CollectAnnotations return deep copies, CallFunctor renames only those clones, publishes them after renaming and rebuilds the argument maps; (R2) the cache key is built from the functor, and from names and values of exactly the relevant bindings, sorted, and cached_calls is indexed only by it; (R3) an instruction is built only when applicant, its transitive arguments and the argument values are built, lack of progress and arguments the functor does not depend on are FunctorErrors. Selection completeness of MakeAll is evaluated with three-valued conditions; the cache key identifies values by identity-free text. After an application the cached transitive arguments are dropped for every predicate whose cached set mentions the new predicate; CollectAnnotations reads only state UpdateStructure recomputes as a whole. The extraction of the predicates a rule calls walks the whole rule: no key is skipped from BuildDirectArgsOfWalk down.',
        ref='3/C04'),
    'C06': dict(
        technique='clang resolved JSON AST of logica_parse.cpp vs Python ast of parse.py: sequence equality of operator lists and alternative chains, per-function symbol-set equality with stated normalisations, character-class evaluation, rejection-capability equivalence',
        text='Agreement of every table a parser decision is read from, not equality of parse trees for every string: (R1) the operator precedence list is the same sequence, unary and proposition-level sets agree; (R2) alternatives are tried in the same order in ActuallyParseExpression, ParseProposition, ParseLiteral, the statement dispatch and the rewrite pipeline; (R3) for each of ~60 function pairs the node fields, separators, keywords and literal values agree; (R4) variable / call-name / predicate character classes, the bracket table and scanner state symbols agree; (R6) a function that can reject input in one parser can in the other. The realistic drift of two hand-written ports (an operator, keyword, field or alternative added on one side) is exactly what this catches. (R7) no set iteration order reaches the rule list of the Python parser (the C++ port uses ordered containers). (R8) Json::Escape escapes the quote, the backslash and every character below 0x20 on every way out of the function.',
        ref='3/C06',
        note='Trusted base: clang++ 14 as a front end (-fsyntax-only, nothing is built or run), CPython ast; the name correspondence of the two ports; normalisations listed in rules/c06.py (scanner status protocol, format-string splitting, ParseConjunction inlined in C++, experimental operators informational).'),
    'C07': dict(
        technique='per-aggregate accumulator-kind analysis: reads of the accumulator in finalize must pass through a total order (sorted with an injective key) or an order-insensitive reducer; sortedness of the order-driven compiler loops',
        text='One behavioural clause decided structurally - aggregate UDF results do not depend on arrival order (List element order, ANY_VALUE and ties of ArgMin/ArgMax excepted): for every class registered with create_aggregate the accumulator kind is derived and finalize may read it only through sorted(injective key)/min/max/sum/len; plus (R2) the order-driven loops named by the property draw from sorted sequences. Invariance of whole-program results under permutation / renaming is NOT decided. (R1 also: heap discipline of the K-best buffers, no truthiness on data values.) (R3) every alias handed out by the allocators is the one tested/numbered and the one recorded. The combine-variable disambiguation reaches every combine (no early exit). The handlers of the conjunct kinds choose the translation from the conjunct alone (no test reads the structure built from earlier conjuncts).',
        ref='3/C07'),
    'C10': dict(
        technique='abstract interpretation of QL.StrLiteral per dialect to extract the escaping transformer as data, then exhaustive application to all strings of length <= 3 over a 15-character metacharacter alphabet and decoding with an independent lexer per dialect; payload-flow allow-list; template provenance of format receivers; CFG checks of flag handling',
        text='(R1) For each of the eight dialects the transformation StrLiteral applies (extracted from the code, not executed) yields exactly one well-formed literal of that dialect that decodes to the original string, for all 3616 strings of the alphabet (exhaustive); (R2) raw string characters are read only by the sanitiser or documented non-data sinks, literals and FlagValue results are emitted by StrLiteral; (R3) no dynamic %/format receiver in the emitters is compiled SQL; (R4) user flags override programmatic override defaults, undefined flags are rejected before values are returned, ${flag} expansion is bounded and the only expanded form. The value SQLite returns at run time is not decided. (R5) the scanner and ParseString agree on which quote kinds interpret backslash escapes; (R3 also) a template is applied atomically, never formatted in two stages. The StrLiteral transformation is obtained by abstract interpretation that follows the payload through helper functions and dialect methods (loops over constant character lists unrolled). Nothing in the merge of flag values decides by the truthiness of a value. Escaped literals are decoded by the Python literal reader, not by a Latin-1 *_escape codec.',
        ref='3/C10',
        note='Trusted base: the lexical rules of the eight dialects in sa/sqllex.py (assumption A3); CPython ast; the abstract interpreter sa/absint.py.'),
    'C11': dict(
        technique='structural shape comparison of sibling AST constructors; own statement splitter over the eight dialect library strings for sibling agreement',
        text='Constructor agreement only, not semantic equivalence in context: (R1) the three combine syntaxes share BuildTreeForCombine and negation builds the same combine shape, P(k) Op= e builds the field logica_value? Op= e builds and marks the rule distinct, F(x) = v appends the field a named argument produces; (R2) `a:` defaults to `a: a`, positional fields keep int keys, A => B is ~(A, ~B); (R3) the `=` and `->` library predicates exist with one common definition in all eight dialect libraries. (R4) every functional call rewritten into a variable gets its own fresh variable and conjunct; (R5) the DNF of a disjunction keeps every alternative (no filtering, no de-duplication). An inclusion is translated as an unnesting on every path except the declared Container(..) form. The dependency extraction the functional rewrites rely on walks the whole rule.',
        ref='3/C11'),
    'C12': dict(
        technique='finite evaluation of the prefix-uniquification loop guard for paths of 2-4 components; typestate (marker before / result after the recursive parse) on the CFG of ParseImport; guard-dependence of the diagnostic raise sites',
        text='Mechanism liveness and diagnostics, not equality with the flattened program: (R1) the loop that makes per-file prefixes unique can use every component of the import path and stops at its end; (R2) the in-progress marker is stored before and replaced after the recursive ParseFile, an in-progress file raises, a finished file is not parsed again; (R3) renaming ranges over defined and made predicates (only @ and ++? exempt) and imported names get the imported file\'s prefix; (R4) undefined, unused, overriding imports and missing files raise ParsingException. The prefix loop is located wherever it lives and must run after imports are known; the renaming walker is total over rule parts. Own predicates are prefixed before imported names are resolved (order of the two renaming passes). What is stored for an imported file is the ParseFile result of this very call (a parse made for another program carries another program\'s prefix).',
        ref='3/C12'),
    'C15': dict(
        technique='program-text provenance typing of parse.py (fixpoint from ParseFile through the Split/Strip family) and a who-may-search rule; slice-bound discipline; scanner state table',
        text='Scanner discipline, not invariance of the parse under all layout noise: (R1) infix searches on program text (in/find/split/replace/re) occur only inside the bracket/string/comment aware scanner family or at six confirmed sites - this is how "characters inside a string literal are treated as syntax" enters a parser built on repeated splitting; (R2) escaping slices of program text have non-negative lower bounds and no step, GetSlice computes spans by plain addition; (R3) every string/comment state of the scanner switches bracket tracking off and SplitRaw splits only at depth 0. RemoveComments copies non-comment characters verbatim; Strip re-strips layout before every outer-parenthesis test. ParseExpression stamps every tree it returns with the span of its own argument on every path. A neighbouring character stops a split only when it is the constant \'|\'.',
        ref='3/C15'),
    'C16': dict(
        technique='abstract interpretation of reference_algebra.Rank and Unify over the 11 type classes: exhaustive enumeration of all 121 ordered pairs and all paths, compared with a specification matrix derived from the property statement',
        text='Top-level case analysis, exhaustive: for every ordered pair of type classes Unify is total (no reachable assertion), gives the same outcome with roles swapped, reports a clash exactly when the classes have no common instance (conditional for lists on elements and for closed records on field sets), changes nothing when either side already carries an error, makes Singular ^ Sequential = Str and links both references on success; (R2) record merging keeps the union of fields; (R3) chains are compressed before the identity test. Laws on nested terms (idempotence after repetition, order independence for triples) need evaluation on terms and are NOT decided. Only Unify, UnifyFriendlyRecords, CloseRecord and the constructor write `.target`, each at the end of the chain. The relation that decides Closed x Closed is symmetric in the two field sets. Two unified lists both receive the unified element references. TypeStructureCopier never hands out the object it was given unless it is immutable (each use of a signature unifies against a fresh instance).',
        ref='3/C16'),
    'C17': dict(
        technique='dominance on the CFG of TranslateTableAttachedToFile; abstract interpretation with string skeletons over engine x overwrite scenarios of the exported statement text',
        text='Statement construction only, not table contents after sequences of runs: (R1) the already-defined test precedes construction, the table is registered before its body is compiled, the export statement is appended after the recursive compilation; (R2) on every path and engine, with overwrite the exported text drops or replaces exactly the table it creates (or registers the ClickHouse drop action), without overwrite nothing is dropped; (R3) FormattedPredicateSql compiles the requested predicate directly and never through TranslateTable. (R4) OkInjection is false whenever Ground(p) is present and every InjectStructure is guarded by OkInjection of the predicate being injected at the time it is injected. Inside the loop over the requested predicates no container is both grown and consulted. The pieces of the execution object the runners execute on their own (preamble, main_predicate_sql, table_to_export_map) are stored with their flags substituted on every path to the return.',
        ref='3/C17'),
    'C20': dict(
        technique='tokenisation of the effective SQLite templates and library SqlExpr templates against the literal create_function / create_aggregate registrations and SQLite core function list; placeholder/field agreement; accumulator analysis shared with C07',
        text='Writer/reader agreement, not the values the functions return: (R1) every function identifier called by the SQLite templates of the built-ins the property names and by the sqlite_library SqlExpr templates is registered with compatible arity and role or is a SQLite core function; registered aggregates are classes with step/finalize of matching arity; (R2) SqlExpr placeholders are fields of the record passed, in all eight libraries; (R3) aggregate UDFs are arrival-order independent; (R4) SQLite templates format for every admissible argument count. A QL instance works on a private copy of the template tables (no history dependence between engines). Scalar UDFs do not decide by the truthiness of data values either. SqLiteDialect.DecorateCombineRule entangles on every path.',
        ref='3/C20'),
}

NOT_APPLICABLE = {
    'C03': 'Counts rule applications (depth+1) and asserts a least fixpoint: both are quantities of the generated program text and of its evaluation on a database; no shape of the code implies them, and pinning the loop bounds would be a frozen-fragment proxy (DESIGN.md section 5).',
    'C08': 'Run-time equivalence of different SQL plans (inject / WITH / inline / ground); the only structural clause (ordered or limited predicates are never injected, every injection guarded by OkInjection) is decided under C18-R1 and does not justify claiming C08 (DESIGN.md section 5).',
}

PENDING_REASON = ('static rules for this property are designed in DESIGN.md '
                  'section 3 but not built yet in this commit; not claimed '
                  'until the check exists')

ALL = ['C%02d' % i for i in range(1, 21)]


def main():
  checks = []
  for pid in ALL:
    if pid not in CLAIMED:
      continue
    c = CLAIMED[pid]
    checks.append(dict(
        property_id=pid,
        quick_cmd='./check %s --tier quick' % pid,
        thorough_cmd='./check %s --tier thorough' % pid,
        evidence_file='/verif/evidence/%s.json' % pid,
        replay_cmd_template='./check %s --explain {path}' % pid,
        engine='sa',
        level_claimed=dict(category='other', text=c['text'],
                           design_ref='DESIGN.md section ' + c['ref']),
        level_note=c.get('note', TRUST),
        technique=c['technique']))
  na = []
  for pid in ALL:
    if pid in CLAIMED:
      continue
    na.append(dict(property_id=pid,
                   reason=NOT_APPLICABLE.get(pid, PENDING_REASON)))
  manifest = dict(
      version=1,
      setup_cmd='true',
      hooks=dict(guard='LOGICA_VERIF',
                 enable='none needed: the checks parse /repo, they never build or run it (guard reserved, unused)',
                 baseline_off_cmd='cd /repo && /venv/bin/python -m pytest -ra -q -p no:cacheprovider --timeout=900 --continue-on-collection-errors',
                 source_commits=[], add_only=True),
      engines=[dict(name='sa', path='/verif/sa',
                    serves_properties=sorted(CLAIMED),
                    kind_free_text='custom static analysis over Python ast (program model, CFG/dominators, table extraction, string-template skeletons, set-order taint, finite abstract interpretation) and the clang JSON AST of the C++ parser')],
      checks=checks,
      notes='Static analysis only; every check re-parses /repo on each run. Exit 0 held / 1 VIOLATION / 2 ANALYSIS-ERROR (anchor vanished or checker broke). Thorough tier adds the whole-repo scope and the self-test of the property (selftest/): hand-written and independently seeded mutants must be reported (seeded/), hand-written twins, seven whole-tree behaviour-preserving transformations and 311 independently written behaviour-preserving refactorings (benign/) must stay silent.',
      not_applicable=na)
  with open(os.path.join(VERIF, 'MANIFEST.json'), 'w') as f:
    json.dump(manifest, f, indent=1)
    f.write('\n')
  print('wrote MANIFEST.json: %d claimed, %d not applicable' % (len(checks), len(na)))


if __name__ == '__main__':
  main()
