"""Generates /verif/MANIFEST.json from the table below (single source of truth
for claimed / not-applicable properties)."""

import json
import os
import sys

HERE = os.path.dirname(os.path.abspath(__file__))
VERIF = os.path.dirname(HERE)

TRUST = ('Trusted base: CPython ast module as the reader of /repo; the '
         'class-hierarchy-by-name call resolution of sa/model.py (no '
         'reflection in the pipeline, assumption A5); the CFG builder of '
         'sa/cfg.py (implicit exceptions outside try blocks not modelled). '
         'The behaviour itself (rows returned) is NOT decided.')

CLAIMED = {
    'C01': dict(
        technique='typestate/dominance on per-function CFGs; producer/consumer key-set inclusion over the AST; format-constant agreement; SQL-token check of emitted templates',
        text='Structural necessary conditions only, not the multiset equality itself: (R1) on every path to RuleStructure.AsSql in SingleRuleSql/FunctionSql the structure went through ExtractRuleStructure -> RunInjections -> ElliminateInternalVariables(full) -> UnificationsToConstraints, and injected structures are eliminated before InjectStructure; (R2) every expression/literal/proposition kind the parser can build has a consumer branch; (R3) every site naming a positional column uses col<N> and every writer of the functional value uses logica_value; (R4) rules of one predicate are joined by UNION ALL without DISTINCT and GROUP BY is emitted only for distinct_vars. Breaking any of them changes rows or makes compilation fail for whole classes of programs; the checks see every branch of every function on every run, which no finite set of goldens does.',
        ref='3/C01'),
}

NOT_APPLICABLE = {
    'C03': 'Counts rule applications (depth+1) and asserts a least fixpoint: both are quantities of the generated program text and of its evaluation on a database; no shape of the code implies them, and pinning the loop bounds would be a frozen-fragment proxy (DESIGN.md section 5).',
    'C08': 'Run-time equivalence of different SQL plans (inject / WITH / inline / ground); the only structural clause (ordered or limited predicates are never injected, every injection guarded by OkInjection) is decided under C18-R1 and does not justify claiming C08 (DESIGN.md section 5).',
}

PENDING_REASON = ('static rules for this property are designed in DESIGN.md '
                  'section 3 but not built yet in this commit; not claimed '
                  'until the check exists')

ALL = ['C%02d' % i for i in range(1, 21)]


def main():
  checks = []
  for pid in ALL:
    if pid not in CLAIMED:
      continue
    c = CLAIMED[pid]
    checks.append(dict(
        property_id=pid,
        quick_cmd='./check %s --tier quick' % pid,
        thorough_cmd='./check %s --tier thorough' % pid,
        evidence_file='/verif/evidence/%s.json' % pid,
        replay_cmd_template='./check %s --explain {path}' % pid,
        engine='sa',
        level_claimed=dict(category='other', text=c['text'],
                           design_ref='DESIGN.md section ' + c['ref']),
        level_note=c.get('note', TRUST),
        technique=c['technique']))
  na = []
  for pid in ALL:
    if pid in CLAIMED:
      continue
    na.append(dict(property_id=pid,
                   reason=NOT_APPLICABLE.get(pid, PENDING_REASON)))
  manifest = dict(
      version=1,
      setup_cmd='true',
      hooks=dict(guard='LOGICA_VERIF',
                 enable='none needed: the checks parse /repo, they never build or run it (guard reserved, unused)',
                 baseline_off_cmd='cd /repo && /venv/bin/python -m pytest -ra -q -p no:cacheprovider --timeout=900 --continue-on-collection-errors',
                 source_commits=[], add_only=True),
      engines=[dict(name='sa', path='/verif/sa',
                    serves_properties=sorted(CLAIMED),
                    kind_free_text='custom static analysis over Python ast (program model, CFG/dominators, table extraction, string-template skeletons, set-order taint, finite abstract interpretation) and the clang JSON AST of the C++ parser')],
      checks=checks,
      notes='Static analysis only; every check re-parses /repo on each run. Exit 0 held / 1 VIOLATION / 2 ANALYSIS-ERROR (anchor vanished or checker broke). Thorough tier adds the whole-repo scope and the mutation self-test (selftest/).',
      not_applicable=na)
  with open(os.path.join(VERIF, 'MANIFEST.json'), 'w') as f:
    json.dump(manifest, f, indent=1)
    f.write('\n')
  print('wrote MANIFEST.json: %d claimed, %d not applicable' % (len(checks), len(na)))


if __name__ == '__main__':
  main()
