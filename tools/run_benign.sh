#!/bin/sh
# run_benign.sh <dir with r*.diff> : every check against every behaviour-preserving patch
for d in "$1"/r*.diff "$1"/all.diff; do
  [ -f "$d" ] || continue
  echo "=== $d"
  /venv/bin/python /verif/tools/run_seed.py "$d" | cut -c1-420
done
