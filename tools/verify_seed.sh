#!/bin/sh
# verify_seed.sh <worktree>: confirm a sub-agent's seeded change in its own
# scratch worktree (demo fails with it, passes without, suite unchanged) and
# run all checks against the patch on a scratch copy of /repo.
# NB: never `git stash` here - the stash is shared by all worktrees of a repo.
wt=$1
cd "$wt" || exit 9
git checkout -q -- . || exit 9
git apply --check seed/patch.diff || { echo "patch.diff does not apply to the unchanged tree"; exit 9; }
timeout 1200 /venv/bin/python seed/demo.py > /tmp/seed_demo_without.txt 2>&1; rc_without=$?
git apply seed/patch.diff
timeout 1200 /venv/bin/python seed/demo.py > /tmp/seed_demo_with.txt 2>&1; rc_with=$?
suite=$(/venv/bin/python -m pytest -q -p no:cacheprovider --timeout=900 --continue-on-collection-errors 2>&1 | tail -1)
echo "demo with change rc=$rc_with ; without rc=$rc_without ; suite with change: $suite"
tail -2 /tmp/seed_demo_with.txt | cut -c1-300
cd /verif && /venv/bin/python tools/run_seed.py "$wt/seed/patch.diff" | cut -c1-500
