"""Run every check against a seeded change.

usage: run_seed.py <patch.diff> [--props C01,C13] [--in-repo]

Default: the patch is applied to a scratch copy of /repo's source directories
(fresh temporary directory, removed afterwards).  With --in-repo it is applied
to /repo itself with `git apply` and undone with `git checkout -- .` straight
afterwards.
"""

import argparse
import concurrent.futures
import json
import os
import shutil
import subprocess
import sys
import tempfile

HERE = os.path.dirname(os.path.abspath(__file__))
VERIF = os.path.dirname(HERE)
sys.path.insert(0, VERIF)

from selftest.run import make_copy  # noqa: E402


def all_props():
  m = json.load(open(os.path.join(VERIF, 'MANIFEST.json')))
  return [c['property_id'] for c in m['checks']]


def run_checks(root, props, evdir):
  env = dict(os.environ, VERIF_EVIDENCE_DIR=evdir)

  def one(p):
    r = subprocess.run([os.path.join(VERIF, 'check'), p, '--root', root],
                       capture_output=True, text=True, env=env, timeout=900)
    return p, r.returncode, r.stdout + r.stderr
  with concurrent.futures.ThreadPoolExecutor(max_workers=16) as ex:
    return list(ex.map(one, props))


def main():
  ap = argparse.ArgumentParser()
  ap.add_argument('patch')
  ap.add_argument('--props')
  ap.add_argument('--in-repo', action='store_true')
  ap.add_argument('--repo', default='/repo')
  ap.add_argument('-v', action='store_true')
  a = ap.parse_args()
  props = a.props.split(',') if a.props else all_props()
  patch = os.path.abspath(a.patch)
  tmp = tempfile.mkdtemp(prefix='vseed_')
  try:
    evdir = os.path.join(tmp, 'ev')
    if a.in_repo:
      root = a.repo
      r = subprocess.run(['git', '-C', root, 'apply', patch], capture_output=True, text=True)
      if r.returncode:
        print('patch does not apply:', r.stderr)
        return 3
      try:
        res = run_checks(root, props, evdir)
      finally:
        subprocess.run(['git', '-C', root, 'checkout', '--', '.'])
    else:
      root = os.path.join(tmp, 'repo')
      make_copy(a.repo, root)
      r = subprocess.run(['git', 'apply', '--unsafe-paths', '--directory=' + root, patch],
                         capture_output=True, text=True, cwd=root)
      if r.returncode:
        r = subprocess.run(['patch', '-p1', '-i', patch], capture_output=True, text=True, cwd=root)
        if r.returncode:
          print('patch does not apply:', r.stdout, r.stderr)
          return 3
      res = run_checks(root, props, evdir)
    fired = []
    for p, rc, out in res:
      tag = {0: 'ok', 1: 'VIOLATION', 2: 'ANALYSIS-ERROR'}.get(rc, 'rc=%d' % rc)
      lines = [l for l in out.splitlines() if l[:1] == 'C' and '-R' in l.split()[0]
               and not l.startswith('KNOWN')]
      if rc != 0:
        fired.append(p)
        print('%s %s' % (p, tag))
        for l in lines[:6]:
          print('    ' + l[:400])
        if rc == 2:
          print('    ' + out.strip().splitlines()[-1][:400])
      elif a.v:
        print('%s ok' % p)
    print('fired:', ' '.join(fired) if fired else '(none)')
    return 0
  finally:
    shutil.rmtree(tmp, ignore_errors=True)


if __name__ == '__main__':
  sys.exit(main())
