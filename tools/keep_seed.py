"""keep_seed.py <ID> <worktree> "<needs>" "<initially>" : copy a verified seeded
change into /verif/seeded/<ID>/ and write meta.json (runs the verification and
the full battery again to record the facts)."""
import json
import os
import shutil
import subprocess
import sys

sid, wt, needs, initially = sys.argv[1:5]
name = sys.argv[5] if len(sys.argv) > 5 else sid
dst = os.path.join('/verif/seeded', name)
os.makedirs(dst, exist_ok=True)
seed = os.path.join(wt, 'seed')
for f in os.listdir(seed):
  if f.startswith('FOREIGN') or f.startswith('foreign') or f.startswith('.'):
    continue
  p = os.path.join(seed, f)
  if os.path.isdir(p):
    if f == '__pycache__':
      continue
    shutil.copytree(p, os.path.join(dst, f), dirs_exist_ok=True)
  elif os.path.getsize(p) < 2_000_000:
    shutil.copy2(p, os.path.join(dst, f))
r = subprocess.run(['/verif/tools/verify_seed.sh', wt], capture_output=True, text=True)
out = r.stdout
first = out.splitlines()[0] if out else ''
fired = [l for l in out.splitlines() if l.startswith('fired:')]
rules = sorted({l.split()[0] for l in out.splitlines() if l.strip().startswith('C') and '-R' in l.split()[0]})
prop = json.load(open('/verif/properties.jsonl'.replace('.jsonl', '.jsonl'))) if False else None
title = ''
for l in open('/verif/properties.jsonl'):
  p = json.loads(l)
  if p['id'] == sid:
    title = p['title']
meta = dict(
    property=sid, property_title=title,
    origin='written by an independent sub-agent that saw only the property text '
           'and its own scratch worktree of /repo (nothing from /verif)',
    needs_to_manifest=needs,
    verification=dict(
        how='tools/verify_seed.sh <scratch worktree>: demo.py on the unchanged tree, '
            'demo.py with patch.diff applied, the pinned pytest suite with the patch applied, '
            'then every check of MANIFEST.json against a scratch copy of /repo with the patch applied',
        result=first),
    detection=dict(
        caught_when_first_run=initially,
        now=fired[0] if fired else '',
        rules=rules))
json.dump(meta, open(os.path.join(dst, 'meta.json'), 'w'), indent=1)
print(name, first, fired)
