"""Whole-tree behaviour-preserving transformations used as twins by the
self-test (every check must stay silent on each of them).

usage: transforms.py <name> <root>
  flatten   : `if c: ...return/raise/continue/break` + else-branch  ->  else-branch dedented
  swap      : `if c: A else: B`  ->  `if not c: B else: A`   (both branches present)
  membership: `x == 'a' or x == 'b'`  ->  `x in ('a', 'b')`   (x a plain name / attribute)
  eqchain   : `x in ('a', 'b')`  ->  `x == 'a' or x == 'b'`   (x a plain name, constant tuple)
  reorder   : consecutive function definitions of a class / module in reverse order
"""
import ast
import os
import sys

HERE = os.path.dirname(os.path.abspath(__file__))
sys.path.insert(0, os.path.dirname(HERE))
from selftest.run import COPY  # noqa: E402

TERMINATORS = (ast.Return, ast.Raise, ast.Continue, ast.Break)


class Flatten(ast.NodeTransformer):
  def _block(self, stmts):
    out = []
    for st in stmts:
      st = self.visit(st)
      if isinstance(st, ast.If) and st.orelse and st.body and \
          isinstance(st.body[-1], TERMINATORS):
        tail = st.orelse
        st.orelse = []
        out.append(st)
        out.extend(tail)
      else:
        out.append(st)
    return out

  def generic_visit(self, node):
    for f in ('body', 'orelse', 'finalbody'):
      v = getattr(node, f, None)
      if isinstance(v, list) and v and isinstance(v[0], ast.stmt):
        setattr(node, f, self._block(v))
    for h in getattr(node, 'handlers', []):
      h.body = self._block(h.body)
    for c in getattr(node, 'cases', []):
      c.body = self._block(c.body)
    return node


class Swap(ast.NodeTransformer):
  def visit_If(self, node):
    self.generic_visit(node)
    if node.orelse and node.body:
      t = node.test
      if isinstance(t, ast.UnaryOp) and isinstance(t.op, ast.Not):
        nt = t.operand
      else:
        nt = ast.UnaryOp(op=ast.Not(), operand=t)
      node.test = nt
      node.body, node.orelse = node.orelse, node.body
    return node


def _pure(e):
  return isinstance(e, ast.Name) or (isinstance(e, ast.Attribute) and _pure(e.value))


class Membership(ast.NodeTransformer):
  def visit_BoolOp(self, node):
    self.generic_visit(node)
    if isinstance(node.op, ast.Or) and len(node.values) >= 2:
      lefts, consts = [], []
      for v in node.values:
        if isinstance(v, ast.Compare) and len(v.ops) == 1 and isinstance(v.ops[0], ast.Eq) and \
            _pure(v.left) and isinstance(v.comparators[0], ast.Constant) and \
            isinstance(v.comparators[0].value, str):
          lefts.append(ast.dump(v.left))
          consts.append(v.comparators[0])
        else:
          return node
      if len(set(lefts)) == 1:
        return ast.Compare(left=node.values[0].left, ops=[ast.In()],
                           comparators=[ast.Tuple(elts=consts, ctx=ast.Load())])
    return node


class EqChain(ast.NodeTransformer):
  def visit_Compare(self, node):
    self.generic_visit(node)
    if len(node.ops) == 1 and isinstance(node.ops[0], ast.In) and isinstance(node.left, ast.Name) and \
        isinstance(node.comparators[0], (ast.Tuple, ast.List)) and node.comparators[0].elts and \
        len(node.comparators[0].elts) <= 4 and \
        all(isinstance(e, ast.Constant) and isinstance(e.value, str) for e in node.comparators[0].elts):
      vals = [ast.Compare(left=ast.Name(id=node.left.id, ctx=ast.Load()), ops=[ast.Eq()], comparators=[e])
              for e in node.comparators[0].elts]
      return vals[0] if len(vals) == 1 else ast.BoolOp(op=ast.Or(), values=vals)
    return node


class Reorder(ast.NodeTransformer):
  def _block(self, stmts):
    out, run = [], []
    for st in stmts:
      if isinstance(st, ast.FunctionDef) and not st.decorator_list:
        run.append(st)
      else:
        out.extend(reversed(run))
        run = []
        out.append(st)
    out.extend(reversed(run))
    return out

  def visit_ClassDef(self, node):
    self.generic_visit(node)
    node.body = self._block(node.body)
    return node

  def visit_Module(self, node):
    self.generic_visit(node)
    node.body = self._block(node.body)
    return node


T = dict(flatten=Flatten, swap=Swap, membership=Membership, eqchain=EqChain, reorder=Reorder)


def main():
  name, root = sys.argv[1], sys.argv[2]
  n = 0
  for d in COPY:
    base = os.path.join(root, d)
    paths = []
    if os.path.isdir(base):
      for dp, dn, fn in os.walk(base):
        paths += [os.path.join(dp, f) for f in fn if f.endswith('.py')]
    elif base.endswith('.py') and os.path.exists(base):
      paths.append(base)
    for p in paths:
      try:
        tree = ast.parse(open(p, encoding='utf-8').read())
      except SyntaxError:
        continue
      before = ast.dump(tree)
      tree = T[name]().visit(tree)
      ast.fix_missing_locations(tree)
      if ast.dump(tree) != before:
        open(p, 'w', encoding='utf-8').write(ast.unparse(tree) + '\n')
        n += 1
  print('%s: %d files changed' % (name, n))


if __name__ == '__main__':
  main()
