"""CLI of the static verification battery: ./check <id> [--tier ..] [--root ..]."""

import argparse
import importlib
import json
import os
import sys
import traceback

HERE = os.path.dirname(os.path.abspath(__file__))
sys.path.insert(0, HERE)

from sa.model import AnalysisError  # noqa: E402
from sa.report import Check  # noqa: E402


def selftest(chk, pid, root):
  """Thorough tier: the checker itself is tested both ways on scratch copies
  (mutants must fire naming the rule, benign twins must stay silent).  A
  failure means the checker is broken: exit 2, never a verdict."""
  from selftest import run as st
  res = st.run(prop=pid, jobs=16, root=root, quiet=True)
  fired = [r for r in res if r['status'] == 'fired']
  silent = [r for r in res if r['status'] == 'silent']
  skipped = [r for r in res if r['status'] == 'skipped']
  bad = [r for r in res if r['status'] in ('MISSED', 'FALSE-ALARM')]
  chk.extra['selftest'] = dict(
      mutants_fired=len(fired), twins_silent=len(silent), skipped=len(skipped),
      failed=[r['id'] for r in bad],
      fired_ids=[r['id'] for r in fired], silent_ids=[r['id'] for r in silent])
  chk.more_evaluations += len(res)
  if bad:
    raise AnalysisError('self-test of the %s checker failed: %s' % (
        pid, ', '.join('%s (%s)' % (r['id'], r['status']) for r in bad)))
  if not fired:
    raise AnalysisError('self-test of the %s checker applied no mutant '
                        '(%d skipped): cannot show the rules have teeth' % (pid, len(skipped)))


def main(argv):
  ap = argparse.ArgumentParser()
  ap.add_argument('pid')
  ap.add_argument('--tier', default=os.environ.get('VERIF_TIER') or 'quick',
                  choices=['quick', 'thorough'])
  ap.add_argument('--root', default=os.environ.get('VERIF_REPO', '/repo'))
  ap.add_argument('--explain', default=None)
  ap.add_argument('--no-selftest', action='store_true')
  a = ap.parse_args(argv)
  pid = a.pid.upper()
  if a.explain:
    with open(a.explain) as f:
      r = json.load(f)
    print(json.dumps(r, indent=1))
    print('re-running %s on the current tree:' % r.get('property', pid))
    pid = r.get('property', pid)
  try:
    seed = int(os.environ.get('VERIF_SEED', '0') or 0)
  except ValueError:
    seed = 0
  try:
    mod = importlib.import_module('rules.' + pid.lower())
  except ImportError as e:
    print('ANALYSIS-ERROR property=%s no rule module: %s' % (pid, e))
    return 2
  chk = Check(pid, tier=a.tier, root=a.root, seed=seed)
  try:
    mod.run(chk)
    if a.tier == 'thorough' and not a.no_selftest:
      selftest(chk, pid, a.root)
    return chk.finish()
  except AnalysisError as e:
    print('ANALYSIS-ERROR property=%s %s' % (pid, e))
    return 2
  except Exception as e:  # the checker itself broke: never a verdict
    traceback.print_exc()
    print('ANALYSIS-ERROR property=%s checker raised %s: %s' %
          (pid, type(e).__name__, e))
    return 2


if __name__ == '__main__':
  sys.exit(main(sys.argv[1:]))
