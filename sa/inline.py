"""Extract-method refactorings are undone before the rules look at a module.

The rules speak about the functions of the pinned tree ("on every path of
SingleRuleSql the error search precedes AsSql").  Moving a few statements of
such a function into a new helper is the second most common behaviour
preserving edit after renaming, and it hides those statements from a rule that
reads one function at a time.  Every function that the reference
(sa/roles_ref.json) does not know - i.e. one that was created after the rules
were written - and that is only used inside its own module is therefore
inlined into its call sites, in the in-memory AST the rules read:

  return H(a)          ->  body of H (its returns return from the caller too)
  H(a)                 ->  body of H, tail returns dropped
  x = H(a) / x += H(a) ->  body of H, tail returns turned into the assignment
  ... H(a) ...         ->  the returned expression, when H is `return <expr>`
                           (otherwise H's body is hoisted in front of the
                           statement and its value held in a fresh local)

Parameters are replaced by the argument expressions (or bound by an
assignment when H rebinds them), locals of H that would collide with names of
the caller get a suffix.  Guard-clause helpers (`if c: return x` followed by
more code) are read as if/else.  A helper that cannot be expressed this way
(generators, returns inside loops or try blocks, recursion) is left alone -
then the rule that needs the moved statements reports the vanished anchor as
before.  The verdict never depends on the reference; it only says which
functions are new.
"""

import ast
import copy

from . import roles
from .model import clone

FUNC = (ast.FunctionDef, ast.AsyncFunctionDef)
MAX_ROUNDS = 3


class CannotInline(Exception):
  pass


def _own_nodes(fn):
  """nodes of fn's body, not descending into nested defs / classes."""
  stack = list(fn.body)
  while stack:
    n = stack.pop()
    yield n
    if isinstance(n, FUNC + (ast.ClassDef, ast.Lambda)):
      continue
    stack.extend(ast.iter_child_nodes(n))


def _is_generator(fn):
  return any(isinstance(n, (ast.Yield, ast.YieldFrom)) for n in _own_nodes(fn))


def _tail_assign(stmts, make):
  """Rewrite `stmts` so that every return becomes make(value) (a list of
  statements); guard clauses are read as if/else.  Raises CannotInline when a
  return is not in tail position (inside a loop, try, with)."""
  out = []
  for i, st in enumerate(stmts):
    last = i == len(stmts) - 1
    if isinstance(st, ast.Return):
      out.extend(make(st.value))
      return out, True
    if isinstance(st, ast.If):
      body, bret = _tail_assign(st.body, make)
      if st.orelse:
        orelse, oret = _tail_assign(st.orelse, make)
      else:
        orelse, oret = [], False
      if bret and not oret and not last:
        # guard clause: the rest of the block is the else branch
        rest, rret = _tail_assign(stmts[i + 1:], make)
        new = ast.If(test=st.test, body=body or [ast.Pass()], orelse=orelse + rest)
        ast.copy_location(new, st)
        out.append(new)
        return out, rret
      if oret and not bret and not last:
        rest, rret = _tail_assign(stmts[i + 1:], make)
        new = ast.If(test=st.test, body=body + rest, orelse=orelse or [ast.Pass()])
        ast.copy_location(new, st)
        out.append(new)
        return out, rret
      if (bret or oret) and not last and not (bret and oret):
        raise CannotInline('return in the middle')
      new = ast.If(test=st.test, body=body or [ast.Pass()], orelse=orelse)
      ast.copy_location(new, st)
      out.append(new)
      if bret and oret:
        return out, True
      continue
    if any(isinstance(x, ast.Return) for x in _walk_stmt(st)):
      raise CannotInline('return inside a loop / try / with')
    out.append(st)
  return out, False


def _walk_stmt(st):
  stack = [st]
  while stack:
    n = stack.pop()
    yield n
    if isinstance(n, FUNC + (ast.ClassDef, ast.Lambda)) and n is not st:
      continue
    stack.extend(ast.iter_child_nodes(n))


def _simple(e):
  return isinstance(e, (ast.Name, ast.Constant)) or \
      (isinstance(e, ast.Attribute) and _simple(e.value)) or \
      (isinstance(e, ast.Subscript) and _simple(e.value) and _simple(e.slice))


class _Subst(ast.NodeTransformer):
  def __init__(self, mapping, renames):
    self.mapping, self.renames = mapping, renames

  def visit_Name(self, node):
    if node.id in self.mapping and isinstance(node.ctx, ast.Load):
      return clone(self.mapping[node.id])
    if node.id in self.renames:
      node.id = self.renames[node.id]
    return node

  def visit_Nonlocal(self, node):
    node.names = [self.renames.get(n, n) for n in node.names]
    return node


def _bind(helper, call, is_method):
  """parameter name -> argument expression (defaults filled in)."""
  a = helper.args
  if a.vararg or a.kwarg or a.posonlyargs:
    raise CannotInline('star parameters')
  params = [p.arg for p in a.args]
  if is_method:
    params = params[1:]
  if any(isinstance(x, ast.Starred) for x in call.args) or any(k.arg is None for k in call.keywords):
    raise CannotInline('star arguments')
  bound = {}
  if len(call.args) > len(params):
    raise CannotInline('too many arguments')
  for p, v in zip(params, call.args):
    bound[p] = v
  kwonly = [p.arg for p in a.kwonlyargs]
  for k in call.keywords:
    if k.arg not in params + kwonly or k.arg in bound:
      raise CannotInline('unknown keyword')
    bound[k.arg] = k.value
  defaults = dict(zip(params[len(params) - len(a.defaults):] if a.defaults else [], a.defaults))
  for p, d in zip(kwonly, a.kw_defaults):
    if d is not None:
      defaults[p] = d
  for p in params + kwonly:
    if p not in bound:
      if p not in defaults:
        raise CannotInline('missing argument')
      bound[p] = defaults[p]
  return bound


class Inliner(object):

  def __init__(self, tree, new_names, known, used_elsewhere=None):
    self.used_elsewhere = used_elsewhere or (lambda name: False)
    self.tree = tree
    self.notes = []
    self.counter = 0
    # helpers by simple name: module-level functions and methods (with class)
    self.helpers = {}
    for q, fn in roles.functions(tree).items():
      if q not in new_names:
        continue
      parts = q.split('.')
      if len(parts) == 1:
        self.helpers[parts[0]] = (fn, None)
      elif len(parts) == 2 and parts[0] in self.classes():
        self.helpers[parts[1]] = (fn, parts[0])
    # a name that is also a function the rules know is not a new helper
    for q in known:
      self.helpers.pop(q.split('.')[-1], None)
    # new local closures: readable in place inside the function that defines
    # them (free variables are looked up at call time, exactly as inlined code
    # would); keyed by (qualified name of the defining function, own name)
    self.closures = {}
    known_simple = {q.split('.')[-1] for q in known}
    allfn = roles.functions(tree)
    for q, fn in allfn.items():
      if q not in new_names or '.' not in q:
        continue
      parent = q.rsplit('.', 1)[0]
      if parent in allfn and fn.name not in known_simple:
        self.closures[(parent, fn.name)] = fn
    for key, fn in list(self.closures.items()):
      recursive = any(isinstance(c, ast.Call) and isinstance(c.func, ast.Name) and
                      c.func.id == fn.name for c in ast.walk(fn))
      rebinds_outer = any(isinstance(x, (ast.Nonlocal, ast.Global)) for x in ast.walk(fn))
      if recursive or rebinds_outer or _is_generator(fn) or fn.decorator_list:
        del self.closures[key]
    for n, (fn, cls) in list(self.helpers.items()):
      recursive = any(isinstance(c, ast.Call) and (
          (isinstance(c.func, ast.Name) and c.func.id == fn.name) or
          (isinstance(c.func, ast.Attribute) and c.func.attr == fn.name))
          for c in ast.walk(fn))
      if recursive or _is_generator(fn) or fn.decorator_list and not all(
          isinstance(d, ast.Name) and d.id in ('classmethod', 'staticmethod') for d in fn.decorator_list):
        del self.helpers[n]

  def classes(self):
    return {st.name for st in self.tree.body if isinstance(st, ast.ClassDef)}

  def target(self, call):
    """(helper node, is_method) when `call` calls a new helper."""
    f = call.func
    if isinstance(f, ast.Name) and f.id in self.helpers and self.helpers[f.id][1] is None:
      return self.helpers[f.id][0], False
    if isinstance(f, ast.Attribute) and f.attr in self.helpers and isinstance(f.value, ast.Name):
      fn, cls = self.helpers[f.attr]
      if cls is not None and (f.value.id in ('self', 'cls') or f.value.id == cls):
        static = any(isinstance(d, ast.Name) and d.id == 'staticmethod' for d in fn.decorator_list)
        return fn, not static
    return None, False

  # -- one call ---------------------------------------------------------------
  def body_for(self, helper, call, is_method, caller_names, same=None):
    bound = _bind(helper, call, is_method)
    rebound = set(roles.bound_names(helper)) | {
        n.id for n in _own_nodes(helper) if isinstance(n, ast.Name) and isinstance(n.ctx, (ast.Store, ast.Del))}
    mapping, pre = {}, []
    locals_ = set(roles.bound_names(helper))
    renames = {}
    for n in sorted(locals_):
      if n in caller_names:
        renames[n] = '%s__%s' % (n, helper.name)
    if same is not None:
      renames[same[0]] = same[1]
    for p, v in bound.items():
      uses = sum(1 for n in _own_nodes(helper) if isinstance(n, ast.Name) and n.id == p)
      if p in rebound or not (_simple(v) or uses <= 1):
        pn = p if p not in caller_names else '%s__%s' % (p, helper.name)
        if isinstance(v, ast.Name) and v.id == pn:
          continue
        renames[p] = pn
        asg = ast.Assign(targets=[ast.Name(id=pn, ctx=ast.Store())], value=clone(v))
        ast.copy_location(asg, call)
        ast.fix_missing_locations(asg)
        pre.append(asg)
      else:
        mapping[p] = v
    body = [clone(st) for st in helper.body]
    if body and isinstance(body[0], ast.Expr) and isinstance(body[0].value, ast.Constant) and \
        isinstance(body[0].value.value, str):
      body = body[1:]          # docstring
    sub = _Subst(mapping, renames)
    body = [sub.visit(st) for st in body]
    return pre, body

  def fresh(self, helper):
    self.counter += 1
    return '%s_value_%d' % (helper.name, self.counter)

  # -- statements ---------------------------------------------------------------
  def rewrite_block(self, stmts, caller_names):
    out = []
    for st in stmts:
      out.extend(self.rewrite_stmt(st, caller_names))
    return out

  def rewrite_stmt(self, st, caller_names):
    # nested blocks first
    if isinstance(st, FUNC + (ast.ClassDef,)):
      return [st]
    for f in ('body', 'orelse', 'finalbody'):
      sub = getattr(st, f, None)
      if isinstance(sub, list) and sub and isinstance(sub[0], ast.stmt):
        setattr(st, f, self.rewrite_block(sub, caller_names))
    for h in getattr(st, 'handlers', []) or []:
      h.body = self.rewrite_block(h.body, caller_names)
    for c in getattr(st, 'cases', []) or []:
      c.body = self.rewrite_block(c.body, caller_names)
    try:
      # whole-statement forms
      if isinstance(st, ast.Return) and isinstance(st.value, ast.Call):
        h, im = self.target(st.value)
        if h is not None:
          pre, body = self.body_for(h, st.value, im, caller_names)
          if not body or not isinstance(body[-1], (ast.Return, ast.Raise)):
            body = body + [ast.copy_location(ast.Return(value=None), st)]
          self.note(h)
          return pre + body
      if isinstance(st, ast.Expr) and isinstance(st.value, ast.Call):
        h, im = self.target(st.value)
        if h is not None:
          pre, body = self.body_for(h, st.value, im, caller_names)
          body, _ = _tail_assign(body, lambda v: [] if v is None or _pure(v) else [
              ast.copy_location(ast.Expr(value=v), v)])
          self.note(h)
          return pre + (body or [ast.copy_location(ast.Pass(), st)])
      if isinstance(st, (ast.Assign, ast.AugAssign, ast.AnnAssign)) and isinstance(st.value, ast.Call):
        h, im = self.target(st.value)
        if h is not None and not self.is_expression_function(h):
          # `x = H()` where H builds a local and returns it: that local is x
          same = None
          if isinstance(st, ast.Assign) and len(st.targets) == 1 and isinstance(st.targets[0], ast.Name):
            rets = [n for n in _own_nodes(h) if isinstance(n, ast.Return)]
            names = {n.value.id for n in rets if isinstance(n.value, ast.Name)}
            if rets and len(names) == 1 and all(isinstance(n.value, ast.Name) for n in rets) and \
                names <= set(roles.bound_names(h)):
              same = (names.pop(), st.targets[0].id)
          pre, body = self.body_for(h, st.value, im, caller_names, same)

          def make(v, st=st):
            if same is not None and isinstance(v, ast.Name) and v.id == same[1]:
              return []           # x = x
            new = copy.copy(st)
            new.value = v if v is not None else ast.Constant(value=None)
            return [ast.fix_missing_locations(ast.copy_location(new, st))]
          body, ret = _tail_assign(body, make)
          if not ret:
            body = body + make(None)
          self.note(h)
          return pre + body
    except CannotInline:
      pass
    # calls nested inside the statement's own expressions
    hoisted = []
    if isinstance(st, (ast.Expr, ast.Assign, ast.AugAssign, ast.AnnAssign, ast.Return,
                       ast.If, ast.Raise, ast.Assert, ast.For, ast.With)):
      for field in ('value', 'test', 'exc', 'iter', 'msg'):
        e = getattr(st, field, None)
        if isinstance(e, ast.AST):
          setattr(st, field, self.rewrite_expr(e, caller_names, hoisted, st))
      if isinstance(st, ast.With):
        for it in st.items:
          it.context_expr = self.rewrite_expr(it.context_expr, caller_names, hoisted, st)
    elif isinstance(st, ast.While):
      st.test = self.rewrite_expr(st.test, caller_names, None, st)
    return hoisted + [st]

  def is_expression_function(self, h):
    body = h.body
    if body and isinstance(body[0], ast.Expr) and isinstance(body[0].value, ast.Constant) and \
        isinstance(body[0].value.value, str):
      body = body[1:]
    return len(body) == 1 and isinstance(body[0], ast.Return) and body[0].value is not None

  def expression_form(self, h):
    """`x = <pure>; y = <pure>; return r`  ->  the same function as a single
    `return r[x:=.., y:=..]` (each local assigned once from a call-free
    expression); None when the body has another shape."""
    cache = self.__dict__.setdefault('_exprform', {})
    if id(h) in cache:
      return cache[id(h)][1]
    body = list(h.body)
    if body and isinstance(body[0], ast.Expr) and isinstance(body[0].value, ast.Constant) and \
        isinstance(body[0].value.value, str):
      body = body[1:]
    out = None
    if len(body) >= 2 and isinstance(body[-1], ast.Return) and body[-1].value is not None and all(
        isinstance(st_, ast.Assign) and len(st_.targets) == 1 and isinstance(st_.targets[0], ast.Name)
        and _pure(st_.value) for st_ in body[:-1]):
      names = [st_.targets[0].id for st_ in body[:-1]]
      if len(set(names)) == len(names) and not (set(names) & set(roles.params(h))):
        env = {}
        for st_ in body[:-1]:
          env[st_.targets[0].id] = _Subst(dict(env), {}).visit(clone(st_.value))
        ret = _Subst(dict(env), {}).visit(clone(body[-1].value))
        h2 = clone(h)
        h2.body = [ast.copy_location(ast.Return(value=ret), body[-1])]
        ast.fix_missing_locations(h2)
        out = h2
    cache[id(h)] = (h, out)
    return out

  def rewrite_expr(self, e, caller_names, hoisted, st):
    inl = self

    class T(ast.NodeTransformer):
      def visit_Lambda(self, node):
        return node

      def visit_Call(self, node):
        self.generic_visit(node)
        h, im = inl.target(node)
        if h is None:
          return node
        try:
          h_expr = h if inl.is_expression_function(h) else inl.expression_form(h)
          if h_expr is not None:
            pre, body = inl.body_for(h_expr, node, im, caller_names)
            if pre and hoisted is None:
              return node
            if pre:
              hoisted.extend(pre)
            inl.note(h)
            return body[0].value
          if hoisted is None:
            return node
          pre, body = inl.body_for(h, node, im, caller_names)
          tmp = inl.fresh(h)

          def make(v):
            a = ast.Assign(targets=[ast.Name(id=tmp, ctx=ast.Store())],
                           value=v if v is not None else ast.Constant(value=None))
            return [ast.fix_missing_locations(ast.copy_location(a, node))]
          body, ret = _tail_assign(body, make)
          if not ret:
            body = body + make(None)
          hoisted.extend(pre + body)
          inl.note(h)
          return ast.copy_location(ast.Name(id=tmp, ctx=ast.Load()), node)
        except CannotInline:
          return node
    # comprehension bodies are evaluated repeatedly: only expression functions there
    return T().visit(e)

  def note(self, h):
    if h.name not in self.notes:
      self.notes.append(h.name)

  # -- driver ---------------------------------------------------------------------
  def _remove_def(self, holder_fn, node):
    for holder in ast.walk(holder_fn):
      for f in ('body', 'orelse', 'finalbody'):
        body = getattr(holder, f, None)
        if isinstance(body, list) and node in body:
          body.remove(node)
          if not body:
            body.append(ast.Pass())
          return

  def run(self):
    self.closure_notes = []
    if not self.helpers and not self.closures:
      return []
    for _ in range(MAX_ROUNDS):
      before = len(self.notes), self.counter
      changed = False
      for q, fn in roles.functions(self.tree).items():
        # never inline a helper into itself
        names = set(roles.bound_names(fn)) | set(roles.params(fn)) | {
            n.id for n in _own_nodes(fn) if isinstance(n, ast.Name)}
        saved = self.helpers.pop(fn.name, None)
        # closures defined directly in this function are helpers while it is read
        mine = {}
        for (parent, cname), cfn in self.closures.items():
          if parent == q and cname not in self.helpers and not any(
              isinstance(n_, ast.Name) and n_.id == cname and isinstance(n_.ctx, ast.Load) and
              not any(isinstance(p_, ast.Call) and p_.func is n_ for p_ in _own_nodes(fn))
              for n_ in _own_nodes(fn)):
            mine[cname] = (cfn, None)
        self.helpers.update(mine)
        self._closure_scope = dict(mine)
        dump0 = None
        if any(isinstance(c, ast.Call) and self.target(c)[0] is not None for c in _own_nodes(fn)):
          dump0 = True
          fn.body = self.rewrite_block(fn.body, names) or [ast.Pass()]
          ast.fix_missing_locations(fn)
          changed = True
        for cname in mine:
          self.helpers.pop(cname, None)
          left = [n_ for n_ in _own_nodes(fn) if isinstance(n_, ast.Name) and n_.id == cname and
                  isinstance(n_.ctx, ast.Load)]
          nested_use = any(isinstance(n_, ast.Name) and n_.id == cname
                           for g in ast.walk(fn) if isinstance(g, FUNC + (ast.Lambda,)) and g is not fn
                           and g is not mine[cname][0] for n_ in ast.walk(g))
          if cname in self.notes and (left or nested_use):
            self.notes.remove(cname)
          if cname in self.notes:
            # every call was read in place (a closure passed around as a value
            # is never offered): the definition goes
            self._remove_def(fn, mine[cname][0])
            self.notes.remove(cname)
            self.closure_notes.append('%s.%s' % (q, cname))
        if saved is not None:
          self.helpers[fn.name] = saved
      if not changed or (len(self.notes), self.counter) == before:
        break
    self.drop_dissolved()
    return self.notes + self.closure_notes

  def drop_dissolved(self):
    """a helper all of whose call sites were read in place no longer exists as
    a function of its own for the rules (sweeps over all functions of a module
    would otherwise judge its statements twice, out of their context)."""
    for name in list(self.notes):
      fn, cls = self.helpers[name]
      left = 0
      for other in roles.functions(self.tree).values():
        if other is fn:
          continue
        for c in _own_nodes(other):
          if isinstance(c, ast.Call) and self.target(c)[0] is fn:
            left += 1
          elif isinstance(c, ast.Name) and c.id == name and isinstance(c.ctx, ast.Load) and cls is None \
              and not any(isinstance(p, ast.Call) and p.func is c for p in _own_nodes(other)):
            left += 1        # passed around as a value
          elif isinstance(c, ast.Attribute) and c.attr == name and cls is not None and \
              not any(isinstance(p, ast.Call) and p.func is c for p in _own_nodes(other)):
            left += 1
      if left or self.used_elsewhere(name):
        continue           # still called from somewhere: it stays a function
      for holder in ast.walk(self.tree):
        body = getattr(holder, 'body', None)
        if isinstance(body, list) and fn in body:
          body.remove(fn)
          if not body:
            body.append(ast.Pass())


def _pure(v):
  return isinstance(v, (ast.Name, ast.Constant, ast.Attribute, ast.Tuple, ast.List, ast.Dict,
                        ast.Subscript, ast.Compare, ast.BoolOp, ast.BinOp, ast.UnaryOp)) and \
      not any(isinstance(x, (ast.Call, ast.Await, ast.Yield)) for x in ast.walk(v))


def undo_extract_method(relpath, tree, notes=None, used_elsewhere=None):
  ref = roles.reference().get(relpath)
  if not ref:
    return []
  cur = roles.functions(tree)
  new = {q for q in cur if q not in ref}
  if not new:
    return []
  # a function that vanished and a new one with the same simple name is a move
  # (nested <-> module level), not an extraction: Module.func() handles it
  gone = {q.split('.')[-1] for q in ref if q not in cur}
  new = {q for q in new if q.split('.')[-1] not in gone}
  new -= set(roles.moved_functions(relpath, tree, notes).values())
  done = Inliner(tree, new, set(ref), used_elsewhere).run()
  out = ['%s: new helper %s read in place at its call sites' % (relpath, n) for n in done]
  if notes is not None:
    notes.extend(out)
  return out


def _dotted_node(e):
  while isinstance(e, ast.Attribute):
    e = e.value
  return isinstance(e, ast.Name)


def undo_callable_aliases(relpath, tree, notes=None):
  """`f = module.Function` / `f = self.Method` followed by `f(..)`: a local
  that merely names a callable (assigned once from a dotted name, read only
  as the callee of calls, not known to the reference) is read as the dotted
  name at its call sites.  Only the analysed tree changes."""
  ref = roles.reference().get(relpath) or {}
  done = []
  for q, fn in roles.functions(tree).items():
    known = set((ref.get(q) or {}).get('locals', {})) | set((ref.get(q) or {}).get('params', []))
    own = list(_own_nodes(fn))
    assigns = {}
    bad = set(roles.params(fn))
    for x in own:
      if isinstance(x, ast.Assign) and len(x.targets) == 1 and isinstance(x.targets[0], ast.Name):
        assigns.setdefault(x.targets[0].id, []).append(x)
      elif isinstance(x, ast.Name) and isinstance(x.ctx, (ast.Store, ast.Del)):
        pass
      elif isinstance(x, (ast.Global, ast.Nonlocal)):
        bad.update(x.names)
    stores = {}
    for x in own:
      if isinstance(x, ast.Name) and isinstance(x.ctx, (ast.Store, ast.Del)):
        stores[x.id] = stores.get(x.id, 0) + 1
    callee_ids = {id(c.func) for c in own if isinstance(c, ast.Call)}
    # names read inside nested functions / lambdas keep their alias
    nested_reads = {n_.id for g in ast.walk(fn) if isinstance(g, FUNC + (ast.Lambda,)) and g is not fn
                    for n_ in ast.walk(g) if isinstance(n_, ast.Name)}
    for name, asg in assigns.items():
      if name in bad or name in known or len(asg) != 1 or stores.get(name, 0) != 1 or name in nested_reads:
        continue
      v = asg[0].value
      if not (isinstance(v, ast.Attribute) and _dotted_node(v)):
        continue
      reads = [x for x in own if isinstance(x, ast.Name) and x.id == name and isinstance(x.ctx, ast.Load)]
      if not reads or not all(id(x) in callee_ids for x in reads):
        continue
      # the base of the dotted name must not be rebound in the function
      base = v
      while isinstance(base, ast.Attribute):
        base = base.value
      if stores.get(base.id, 0) and base.id not in roles.params(fn):
        continue
      for c in own:
        if isinstance(c, ast.Call) and isinstance(c.func, ast.Name) and c.func.id == name:
          c.func = ast.copy_location(clone(v), c.func)
      for holder in ast.walk(fn):
        for f_ in ('body', 'orelse', 'finalbody'):
          body = getattr(holder, f_, None)
          if isinstance(body, list) and asg[0] in body:
            body.remove(asg[0])
            if not body:
              body.append(ast.Pass())
      done.append('%s: local %s in %s names a callable, read as %s' % (
          relpath, name, q, ast.unparse(v)))
    ast.fix_missing_locations(fn)
  if notes is not None:
    notes.extend(done)
  return done
