"""Whole-pipeline call graph on top of Repo.resolve (CHA by method name)."""

import ast

from .model import call_tail, walk_local


class CallGraph(object):

  def __init__(self, repo, modules=None):
    self.repo = repo
    self.funcs = {}
    self.edges = {}        # fq -> set(fq)
    self.sites = {}        # (caller fq, callee fq) -> [Call]
    self.calls_total = 0
    self.calls_resolved = 0
    mods = modules or repo.pipeline()
    for m in mods:
      for fi in m.funcs.values():
        self.funcs[fi.fq] = fi
    for fi in list(self.funcs.values()):
      out = self.edges.setdefault(fi.fq, set())
      for x in walk_local(fi.node):
        if isinstance(x, ast.Call):
          self.calls_total += 1
          tg = repo.resolve(fi, x)
          if tg:
            self.calls_resolved += 1
          for t in tg:
            t2 = self._ctor(t)
            out.add(t2)
            self.sites.setdefault((fi.fq, t2), []).append(x)
      # a nested function is considered called by its definer (closures are
      # invoked or passed as callbacks by the enclosing function)
      for sub in fi.nested.values():
        out.add(sub.fq)
    self._rev = None

  def _ctor(self, fq):
    """Class name -> its __init__ when defined."""
    modname, _, qual = fq.partition('.')
    try:
      m = self.repo.by_name(modname)
    except Exception:
      return fq
    if qual in m.classes:
      init = self.repo.lookup_method(m, qual, '__init__')
      if init is not None:
        return init.fq
    return fq

  def reachable(self, roots):
    seen = set(roots)
    stack = list(roots)
    while stack:
      a = stack.pop()
      for b in self.edges.get(a, ()):
        if b not in seen:
          seen.add(b)
          stack.append(b)
    return seen

  def callers(self):
    if self._rev is None:
      rev = {}
      for a, bs in self.edges.items():
        for b in bs:
          rev.setdefault(b, set()).add(a)
      self._rev = rev
    return self._rev

  def can_reach(self, target):
    """All functions from which `target` is reachable."""
    rev = self.callers()
    seen = {target}
    stack = [target]
    while stack:
      a = stack.pop()
      for b in rev.get(a, ()):
        if b not in seen:
          seen.add(b)
          stack.append(b)
    return seen

  def path(self, src, dst):
    prev = {src: None}
    queue = [src]
    while queue:
      a = queue.pop(0)
      if a == dst:
        out = []
        while a is not None:
          out.append(a)
          a = prev[a]
        return list(reversed(out))
      for b in sorted(self.edges.get(a, ())):
        if b not in prev:
          prev[b] = a
          queue.append(b)
    return None
