"""Template tables of the SQL emitter: extraction and format-string parsing."""

import ast
import csv
import io
import string

from .model import AnalysisError, const_str, dotted, norm, walk_local
from . import tables

_TYPES = 'diouxXeEfFgGcrsa'


def percent_specs(t):
  """Conversion specs of a %-format string: list of (type char, key or None).
  Raises ValueError when Python's `%` operator would raise on the template
  itself (incomplete or unsupported format)."""
  out = []
  i = 0
  n = len(t)
  while i < n:
    if t[i] != '%':
      i += 1
      continue
    i += 1
    if i >= n:
      raise ValueError('incomplete format')
    if t[i] == '%':
      i += 1
      continue
    key = None
    if t[i] == '(':
      j = t.find(')', i)
      if j < 0:
        raise ValueError('incomplete format key')
      key = t[i + 1:j]
      i = j + 1
    while i < n and t[i] in '#0- +':
      i += 1
    while i < n and (t[i].isdigit() or t[i] == '*'):
      i += 1
    if i < n and t[i] == '.':
      i += 1
      while i < n and (t[i].isdigit() or t[i] == '*'):
        i += 1
    if i < n and t[i] in 'hlL':
      i += 1
    if i >= n:
      raise ValueError('incomplete format')
    if t[i] not in _TYPES:
      raise ValueError('unsupported format character %r' % t[i])
    out.append((t[i], key))
    i += 1
  return out


def format_fields(t):
  """Field names of a str.format template (ValueError if malformed)."""
  out = []
  for lit, field, spec, conv in string.Formatter().parse(t):
    if field is not None:
      out.append(field)
      if spec and '{' in spec:
        raise ValueError('nested replacement field')
  return out


def bulk_functions(repo):
  """{LogicaName: (min, max)} mirrored from processed_functions.CSV_DATA the
  way QL.InstallBulkFunctionsOfStandardSQL derives it; the derivation is
  cross-checked structurally against that method."""
  m = repo.mod('common/data/processed_functions.py')
  data = const_str(m.module_assign('CSV_DATA'))
  if data is None:
    raise AnalysisError('processed_functions.CSV_DATA is not a string constant')
  inst = repo.func('expr_translate.QL.InstallBulkFunctionsOfStandardSQL')
  cols = {const_str(x.slice) for x in walk_local(inst.node)
          if isinstance(x, ast.Subscript) and dotted(x.value) == 'row' and
          const_str(x.slice)}
  need = {'function', 'sql_function', 'min_args', 'max_args', 'has_repeated_args'}
  if not need <= cols:
    raise AnalysisError('InstallBulkFunctionsOfStandardSQL reads columns %s; '
                        'the mirrored derivation expects %s' % (sorted(cols), sorted(need)))
  from .pathrules import FnView
  iv = FnView(repo, 'expr_translate.QL.InstallBulkFunctionsOfStandardSQL')
  src = norm(inst.node, 100000)
  for n_, c in iv.all_calls():                          # helpers (CamelCase) included
    for t in repo.resolve(inst, c):
      try:
        src += ' ' + norm(repo.func(t).node, 100000)
      except AnalysisError:
        pass
  for frag in ("== '$'", "replace('.', '_')", "split('_')", "float('inf')"):
    if frag not in src:
      raise AnalysisError('InstallBulkFunctionsOfStandardSQL changed (no %s): '
                          'mirrored name derivation may be stale' % frag)
  reader = csv.reader(io.StringIO(data))
  header = next(reader)
  out = {}
  for row in reader:
    if not row:
      continue
    r = dict(zip(header, row))
    if r['function'][0] == '$':
      continue
    s = r['function'].replace('.', '_')
    name = ''.join(p[0].upper() + p[1:] for p in s.split('_'))
    out[name] = (int(r['min_args']),
                 float('inf') if r['has_repeated_args'] == '1' else int(r['max_args']))
  if len(out) < 100:
    raise AnalysisError('bulk function table has only %d entries' % len(out))
  return out


def class_table(repo, cls, name, mod='expr_translate'):
  node = repo.by_name(mod).class_assign(cls, name)
  d = tables.dict_literal(node, '%s.%s' % (cls, name))
  return {k: tables.const_value(v) for k, v in d.items()}, node


def dialect_classes(repo):
  """{engine: class name} from dialects.DIALECTS."""
  m = repo.by_name('dialects')
  d = tables.dict_literal(m.module_assign('DIALECTS'), 'dialects.DIALECTS')
  out = {}
  for k, v in d.items():
    n = dotted(v)
    if n is None or n not in m.classes:
      raise AnalysisError('DIALECTS[%r] is not a class of dialects.py' % k)
    out[k] = n
  if len(out) < 8:
    raise AnalysisError('DIALECTS lists %d engines, the property names 8' % len(out))
  return out


def class_attr(repo, m, cls, attr):
  """class-level value of `attr` as an instance of `cls` sees it (own class
  first, then the bases of the same module); None if not a class attribute."""
  order, seen = [cls], {cls}
  i = 0
  while i < len(order):
    c = m.classes.get(order[i])
    i += 1
    if c is None:
      continue
    for st in c.node.body:
      if isinstance(st, ast.Assign):
        for t in st.targets:
          if isinstance(t, ast.Name) and t.id == attr:
            return st.value
    for b_ in c.bases:
      if b_ in m.classes and b_ not in seen:
        seen.add(b_)
        order.append(b_)
  return None


def with_class_attrs(repo, m, cls, fi):
  """`fi` with every `self.<attr>` that is a class-level constant of `cls`
  replaced by that constant (a scalar property kept as a class attribute and
  read through an accessor is the value the accessor used to return)."""
  from .model import clone, FuncInfo
  hits = [x for x in walk_local(fi.node) if isinstance(x, ast.Attribute) and
          isinstance(x.value, ast.Name) and x.value.id == 'self' and isinstance(x.ctx, ast.Load)
          and class_attr(repo, m, cls, x.attr) is not None]
  if not hits:
    return fi
  node = clone(fi.node)

  class T(ast.NodeTransformer):
    def visit_Attribute(self, x):
      self.generic_visit(x)
      if isinstance(x.value, ast.Name) and x.value.id == 'self' and isinstance(x.ctx, ast.Load):
        v = class_attr(repo, m, cls, x.attr)
        if v is not None and not isinstance(v, (ast.Lambda,)):
          return ast.copy_location(clone(v), x)
      return x
  node = T().visit(node)
  ast.fix_missing_locations(node)
  f2 = FuncInfo(m, fi.qualname, node, fi.cls, None)
  for x in walk_local(node):
    if isinstance(x, ast.Name):
      x._mod = m
      x._fi = f2
  return f2


def dialect_table(repo, cls, method):
  """Template dict returned by <cls>.<method>() (own or inherited)."""
  m = repo.by_name('dialects')
  fi = repo.lookup_method(m, cls, method)
  if fi is None:
    return None, None
  fi = with_class_attrs(repo, m, cls, fi)
  d = tables.returned_dict_of_method(fi)
  return {k: (tables.const_value(v) if not (isinstance(v, ast.Constant) and v.value is None) else None)
          for k, v in d.items()}, fi


def dialect_const(repo, cls, method):
  m = repo.by_name('dialects')
  fi = repo.lookup_method(m, cls, method)
  if fi is None:
    return None, None
  fi = with_class_attrs(repo, m, cls, fi)
  return tables.returned_const(fi), fi


def arity_2_functions(repo):
  fi = repo.func('expr_translate.QL.BuiltInFunctionArityRange')
  for x in walk_local(fi.node):
    if isinstance(x, ast.Assign) and any(
        isinstance(t, ast.Name) and t.id == 'arity_2_functions' for t in x.targets):
      return set(tables.const_value(x.value)), fi
  raise AnalysisError('BuiltInFunctionArityRange: arity_2_functions not found')
