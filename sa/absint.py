"""E8 - finite-domain abstract interpreter for small functions.

Explores every path of one function body under three-valued conditions.
Values are `Const(v)`, `Sym(text)` (an unknown, identified by its normalised
source text so that the same unknown expression is decided consistently along
one path) or rule-specific objects produced by the `hooks`.  Unknown conditions
fork.  This is path enumeration over a finite abstract state, not symbolic
execution with a solver: no arithmetic reasoning, no constraint solving.

hooks (all optional, return NotImplemented to decline):
  call(node, state, interp)        -> abstract value of a Call
  attr(node, state, interp)        -> abstract value of an Attribute load
  truth(value, state)              -> True / False / None
  compare(op, left, right, state)  -> True / False / None
  loop(node, state)                -> 'skip' | 'once' (0 or 1 iterations)
  stmt(node, state, interp)        -> True if the statement was handled
"""

import ast

from .model import AnalysisError, norm


class Const(object):
  __slots__ = ('v',)

  def __init__(self, v):
    self.v = v

  def __repr__(self):
    return 'Const(%r)' % (self.v,)

  def __eq__(self, o):
    return isinstance(o, Const) and type(o.v) is type(self.v) and o.v == self.v

  def __hash__(self):
    return hash(('Const', repr(self.v)))


class Sym(object):
  __slots__ = ('text', 'node')

  def __init__(self, text, node=None):
    self.text = text
    self.node = node

  def __repr__(self):
    return 'Sym(%s)' % self.text

  def __eq__(self, o):
    return isinstance(o, Sym) and o.text == self.text

  def __hash__(self):
    return hash(('Sym', self.text))


class State(object):

  def __init__(self, env=None, facts=None, trace=None, effects=None):
    self.env = dict(env or {})
    self.facts = dict(facts or {})      # text -> bool
    self.trace = list(trace or [])
    self.effects = list(effects or [])  # rule-specific records

  def copy(self):
    return State(self.env, self.facts, self.trace, self.effects)


class Outcome(object):

  def __init__(self, kind, value, state, node):
    self.kind = kind        # 'return' | 'raise' | 'assert' | 'fall'
    self.value = value
    self.state = state
    self.node = node

  def __repr__(self):
    return '<%s %r>' % (self.kind, self.value)


def _abstract(v):
  if isinstance(v, (str, int, float, bool)) or v is None:
    return Const(v)
  if isinstance(v, (list, tuple)):
    out = tuple(_abstract(x) for x in v)
    return None if any(x is None for x in out) else out
  return None


def _named_constant(name_node):
  """a module / class level constant of the code (sa/tables.definition) as an
  abstract value; None when the name is not one."""
  from . import tables
  if getattr(name_node, '_mod', None) is None:
    return None
  try:
    d = tables.module_constant(name_node._mod, name_node.id)
    if d is None:
      return None
    try:
      return _abstract(tables.const_value(d))
    except AnalysisError:
      return _abstract_literal(d)
  except AnalysisError:
    return None


def _abstract_literal(node):
  """a literal tuple / list whose cells may be names (classes, functions):
  names become symbols."""
  if isinstance(node, ast.Constant):
    return Const(node.value)
  if isinstance(node, ast.Name):
    return Sym(node.id, node)
  if isinstance(node, ast.Attribute):
    return Sym(norm(node), node)
  if isinstance(node, (ast.Tuple, ast.List)):
    out = tuple(_abstract_literal(e) for e in node.elts)
    return None if any(x is None for x in out) else out
  return None


def _attribute_constant(node):
  """self.X / cls.X / Class.X / module.X naming a constant table of the code."""
  from . import tables
  if not (isinstance(node.value, ast.Name) and getattr(node.value, '_mod', None) is not None):
    return None
  try:
    d = tables.resolve(node)
    if d is node:
      return None
    return _abstract(tables.const_value(d))
  except AnalysisError:
    return None


_KEY_CACHE = {}


def _parsed_key(key):
  """a fact key `L == c` / `L != c` -> (text of L, is_eq, c) or None."""
  if key not in _KEY_CACHE:
    res = None
    if '==' in key or '!=' in key:
      try:
        e = ast.parse(key, mode='eval').body
        if isinstance(e, ast.Compare) and len(e.ops) == 1 and \
            isinstance(e.ops[0], (ast.Eq, ast.NotEq)) and \
            isinstance(e.comparators[0], ast.Constant):
          res = (norm(e.left), isinstance(e.ops[0], ast.Eq), e.comparators[0].value)
      except SyntaxError:
        res = None
    _KEY_CACHE[key] = res
  return _KEY_CACHE[key]


def _equality_reasoning(node, facts):
  """`x == 'a'` known true decides `x == 'b'` (false), `x != 'b'` (true) and
  `x in ('b', 'c')`; the left side is compared as text, like every other fact."""
  op = node.ops[0]
  c = node.comparators[0]
  if isinstance(c, ast.Constant):
    consts = [c.value]
  elif isinstance(c, (ast.Tuple, ast.List, ast.Set)) and \
      all(isinstance(e, ast.Constant) for e in c.elts):
    consts = [e.value for e in c.elts]
  else:
    return None
  if isinstance(op, (ast.Eq, ast.NotEq)) and not isinstance(c, ast.Constant):
    return None
  if not isinstance(op, (ast.Eq, ast.NotEq, ast.In, ast.NotIn)):
    return None
  left = norm(node.left)
  known = None
  excluded = set()
  for k, v in facts.items():
    pk = _parsed_key(k) if isinstance(k, str) else None
    if pk is None or pk[0] != left:
      continue
    try:
      if pk[1] == bool(v):         # (== and true) or (!= and false)
        known = pk[2]
      else:
        excluded.add(pk[2])
    except TypeError:
      continue
  positive = isinstance(op, (ast.Eq, ast.In))
  try:
    if known is not None:
      return (known in consts) == positive
    if all(x in excluded for x in consts):
      return not positive
  except TypeError:
    return None
  return None


class Interp(object):

  def __init__(self, fn, hooks=None, max_paths=20000):
    self.fn = fn
    self.hooks = hooks or {}
    self.max_paths = max_paths
    self.paths = 0

  # -- values -----------------------------------------------------------------
  def value(self, node, st):
    if node is None:
      return Const(None)
    if isinstance(node, ast.Constant):
      return Const(node.value)
    if isinstance(node, ast.Name):
      if node.id in st.env:
        return st.env[node.id]
      if node.id in ('True', 'False', 'None'):
        return Const({'True': True, 'False': False, 'None': None}[node.id])
      v = _named_constant(node)
      if v is not None:
        return v
      return Sym(node.id, node)
    if isinstance(node, (ast.Tuple, ast.List)):
      return tuple(self.value(e, st) for e in node.elts)
    if isinstance(node, ast.Call):
      h = self.hooks.get('call')
      if h:
        r = h(node, st, self)
        if r is not NotImplemented:
          return r
      # bool(x): the truth of x when every path agrees on it
      if isinstance(node.func, ast.Name) and node.func.id == 'bool' and len(node.args) == 1 \
          and not node.keywords:
        try:
          truths = {t_ for t_, _s in self.cond(node.args[0], st.copy())}
        except AnalysisError:
          truths = set()
        if len(truths) == 1 and None not in truths:
          return Const(bool(truths.pop()))
      # frozenset([...]) / set(...) / tuple(...) / list(...) of a literal: the
      # same membership table as the literal itself
      if isinstance(node.func, ast.Name) and node.func.id in ('frozenset', 'set', 'tuple', 'list') \
          and len(node.args) == 1 and not node.keywords:
        inner = self.value(node.args[0], st)
        if isinstance(inner, tuple):
          return inner
      return Sym(norm(node), node)
    if isinstance(node, ast.Attribute):
      h = self.hooks.get('attr')
      if h:
        r = h(node, st, self)
        if r is not NotImplemented:
          return r
      v = _attribute_constant(node)
      if v is not None:
        return v
      return Sym(norm(node), node)
    if isinstance(node, ast.NamedExpr):
      v = self.value(node.value, st)
      st.env[node.target.id] = v
      return v
    if isinstance(node, ast.UnaryOp) and not isinstance(node.op, ast.Not):
      v = self.value(node.operand, st)
      if isinstance(v, Const) and isinstance(v.v, (int, float)):
        if isinstance(node.op, ast.USub):
          return Const(-v.v)
        if isinstance(node.op, ast.UAdd):
          return Const(+v.v)
      return Sym(norm(node), node)
    if isinstance(node, ast.IfExp):
      t = self.decided(node.test, st)
      if t is not None:
        return self.value(node.body if t else node.orelse, st)
      return Sym(self.subst_text(node, st), node)
    if isinstance(node, (ast.BoolOp, ast.Compare, ast.UnaryOp)):
      t = self.decided(node, st)
      if t is not None:
        return Const(t)
      return Sym(self.subst_text(node, st), node)
    h = self.hooks.get('expr')
    if h:
      r = h(node, st, self)
      if r is not NotImplemented:
        return r
    if isinstance(node, ast.BinOp):
      l, r = self.value(node.left, st), self.value(node.right, st)
      if isinstance(l, Const) and isinstance(r, Const):
        try:
          if isinstance(node.op, ast.Add) and type(l.v) is type(r.v) and \
              isinstance(l.v, (str, int, float)) and not isinstance(l.v, bool):
            return Const(l.v + r.v)
          if isinstance(node.op, ast.Sub) and isinstance(l.v, (int, float)) and \
              isinstance(r.v, (int, float)):
            return Const(l.v - r.v)
          if isinstance(node.op, ast.Mod) and isinstance(l.v, str) and \
              isinstance(r.v, (str, int)) and not isinstance(r.v, bool):
            return Const(l.v % r.v)
        except (TypeError, ValueError):
          pass
    if isinstance(node, ast.Subscript) and isinstance(node.slice, ast.Constant) and \
        isinstance(node.slice.value, int):
      base = self.value(node.value, st)
      if isinstance(base, tuple) and -len(base) <= node.slice.value < len(base):
        return base[node.slice.value]
    return Sym(self.subst_text(node, st), node)

  def subst_text(self, node, st):
    return norm(node)

  # -- conditions -------------------------------------------------------------
  def truth_of(self, v, st):
    h = self.hooks.get('truth')
    if h:
      r = h(v, st)
      if r is not NotImplemented and r is not None:
        return r
    if isinstance(v, Const):
      return bool(v.v)
    if isinstance(v, tuple):
      return len(v) > 0
    if isinstance(v, Sym):
      return st.facts.get(v.text)
    key = getattr(v, 'key', None)
    if key is not None:
      return st.facts.get(key)
    return None

  def fact_key(self, v, node):
    if isinstance(v, Sym):
      return v.text
    key = getattr(v, 'key', None)
    return key if key is not None else norm(node)

  def decided(self, node, st):
    """Three-valued evaluation without forking."""
    if isinstance(node, ast.BoolOp):
      vals = [self.decided(v, st) for v in node.values]
      if isinstance(node.op, ast.And):
        if any(v is False for v in vals):
          return False
        return True if all(v is True for v in vals) else None
      if any(v is True for v in vals):
        return True
      return False if all(v is False for v in vals) else None
    if isinstance(node, ast.UnaryOp) and isinstance(node.op, ast.Not):
      v = self.decided(node.operand, st)
      return None if v is None else (not v)
    if isinstance(node, ast.Compare):
      return self.compare(node, st)
    v = self.value(node, st)
    return self.truth_of(v, st)

  def compare(self, node, st):
    if len(node.ops) != 1:
      return st.facts.get(norm(node))
    op = node.ops[0]
    l = self.value(node.left, st)
    r = self.value(node.comparators[0], st)
    h = self.hooks.get('compare')
    if h:
      res = h(op, l, r, st)
      if res is not NotImplemented and res is not None:
        return res
    if isinstance(l, Const) and isinstance(r, Const):
      try:
        if isinstance(op, ast.Eq):
          return l.v == r.v
        if isinstance(op, ast.NotEq):
          return l.v != r.v
        if isinstance(op, ast.Is):
          return l.v is r.v
        if isinstance(op, ast.IsNot):
          return l.v is not r.v
        if isinstance(op, ast.In):
          return l.v in r.v
        if isinstance(op, ast.NotIn):
          return l.v not in r.v
        if isinstance(op, ast.Gt):
          return l.v > r.v
        if isinstance(op, ast.GtE):
          return l.v >= r.v
        if isinstance(op, ast.Lt):
          return l.v < r.v
        if isinstance(op, ast.LtE):
          return l.v <= r.v
      except TypeError:
        return None
    if isinstance(l, Const) and isinstance(r, tuple) and \
        all(isinstance(x, Const) for x in r):
      if isinstance(op, ast.In):
        return any(x == l for x in r)
      if isinstance(op, ast.NotIn):
        return not any(x == l for x in r)
    if isinstance(op, (ast.Is, ast.Eq)) and isinstance(l, Sym) and l == r:
      return True
    got = st.facts.get(norm(node))
    if got is None:
      got = _equality_reasoning(node, st.facts)
    return got

  def cond(self, node, st):
    """Yields (bool, state) for every consistent outcome of the test."""
    if isinstance(node, ast.BoolOp):
      yield from self._boolop(node.values, isinstance(node.op, ast.And), st)
      return
    if isinstance(node, ast.UnaryOp) and isinstance(node.op, ast.Not):
      for t, s in self.cond(node.operand, st):
        yield (not t, s)
      return
    d = self.decided(node, st)
    if d is not None:
      yield (d, st)
      return
    if isinstance(node, ast.Compare):
      key = norm(node)
    else:
      key = self.fact_key(self.value(node, st), node)
    for b in (True, False):
      s2 = st.copy()
      s2.facts[key] = b
      s2.trace.append('%s=%s' % (key, b))
      self._count()
      yield (b, s2)

  def _boolop(self, values, is_and, st):
    if not values:
      yield (is_and, st)
      return
    for t, s in self.cond(values[0], st):
      if is_and and not t:
        yield (False, s)
      elif not is_and and t:
        yield (True, s)
      else:
        yield from self._boolop(values[1:], is_and, s)

  def _elem(self, node, st):
    """abstract element of the iterable of a for loop; an iterable held in a
    local is named by what the local holds, so that the provenance of the
    element survives hoisting the iterable into a variable."""
    if isinstance(node.iter, ast.Name):
      try:
        v = self.value(node.iter, st)
      except AnalysisError:
        v = None
      if isinstance(v, Sym) and v.text != node.iter.id:
        return Sym('elem(%s)' % v.text)
    return Sym('elem(%s)' % norm(node.iter))

  def _count(self):
    self.paths += 1
    if self.paths > self.max_paths:
      raise AnalysisError('abstract interpretation of %s exceeds %d paths' %
                          (self.fn.name, self.max_paths))

  # -- inlining a small callee --------------------------------------------------
  def inline(self, fn_node, args, st, depth_limit=2):
    """Interpret a callee with the same hooks; returns its value when every
    path returns the same abstract value (effects of the callee are appended
    to the caller's state), else NotImplemented."""
    depth = getattr(self, '_inline_depth', 0)
    if depth >= depth_limit:
      return NotImplemented
    sub = Interp(fn_node, self.hooks, self.max_paths)
    sub._inline_depth = depth + 1
    s0 = State(env=args, facts=st.facts, trace=st.trace, effects=[])
    try:
      outs = sub.run(s0)
    except AnalysisError:
      return NotImplemented
    self.paths += sub.paths
    vals = []
    for o in outs:
      if o.kind not in ('return', 'fall'):
        return NotImplemented
      vals.append(o)
    if not vals:
      return NotImplemented
    first = repr(vals[0].value)
    if any(repr(o.value) != first for o in vals[1:]):
      return NotImplemented
    st.effects.extend(vals[0].state.effects)
    return vals[0].value

  # -- statements -------------------------------------------------------------
  def run(self, st=None):
    st = st or State()
    outs = []
    for s, sig in self.block(self.fn.body, st):
      if sig is None:
        outs.append(Outcome('fall', Const(None), s, None))
      elif sig[0] in ('return', 'raise', 'assert'):
        outs.append(Outcome(sig[0], sig[1], s, sig[2]))
      else:
        raise AnalysisError('stray %s in %s' % (sig[0], self.fn.name))
    return outs

  def block(self, stmts, st):
    if not stmts:
      yield (st, None)
      return
    first, rest = stmts[0], stmts[1:]
    for s, sig in self.stmt(first, st):
      if sig is None:
        yield from self.block(rest, s)
      else:
        yield (s, sig)

  def assign(self, target, val, st):
    if isinstance(target, ast.Name):
      st.env[target.id] = val
    elif isinstance(target, (ast.Tuple, ast.List)):
      if isinstance(val, tuple) and len(val) == len(target.elts):
        for t, v in zip(target.elts, val):
          self.assign(t, v, st)
      else:
        for i, t in enumerate(target.elts):
          self.assign(t, Sym('%s[%d]' % (getattr(val, 'text', '?'), i)), st)
    else:
      h = self.hooks.get('store')
      if h:
        h(target, val, st, self)

  def stmt(self, node, st):
    h = self.hooks.get('stmt')
    if h:
      r = h(node, st, self)
      if r is True:
        yield (st, None)
        return
    if isinstance(node, ast.Expr):
      self.value(node.value, st)
      yield (st, None)
    elif isinstance(node, ast.Assign):
      v = self.value(node.value, st)
      for t in node.targets:
        self.assign(t, v, st)
      yield (st, None)
    elif isinstance(node, ast.AugAssign):
      v = self.value(node.value, st)
      cur = self.value(node.target, st) if isinstance(node.target, ast.Name) else None
      h2 = self.hooks.get('augassign')
      res = h2(node, cur, v, st, self) if h2 else NotImplemented
      if res is NotImplemented and isinstance(node.target, ast.Name):
        # x op= e  is  x = x op e
        binop = ast.BinOp(left=ast.Name(id=node.target.id, ctx=ast.Load()),
                          op=node.op, right=node.value)
        ast.copy_location(binop, node)
        ast.fix_missing_locations(binop)
        res = self.value(binop, st)
      if res is NotImplemented:
        res = Sym(norm(node), node)
      self.assign(node.target, res, st)
      yield (st, None)
    elif isinstance(node, ast.AnnAssign):
      if node.value is not None:
        self.assign(node.target, self.value(node.value, st), st)
      yield (st, None)
    elif isinstance(node, ast.Return):
      yield (st, ('return', self.value(node.value, st), node))
    elif isinstance(node, ast.Raise):
      yield (st, ('raise', node.exc, node))
    elif isinstance(node, ast.Assert):
      for t, s in self.cond(node.test, st):
        if t:
          yield (s, None)
        else:
          yield (s, ('assert', node.msg, node))
    elif isinstance(node, ast.If):
      for t, s in self.cond(node.test, st):
        yield from self.block(node.body if t else node.orelse, s)
    elif isinstance(node, (ast.For, ast.While)):
      h = self.hooks.get('loop')
      policy = h(node, st) if h else None
      if policy == 'skip':
        yield (st, None)
      elif policy == 'body':
        # exactly one iteration of the body (used by must-raise scenarios)
        s1 = st.copy()
        if isinstance(node, ast.For):
          self.assign(node.target, self._elem(node, s1), s1)
        for s, sig in self.block(node.body, s1):
          if sig is None or sig[0] in ('break', 'continue'):
            yield (s, None)
          else:
            yield (s, sig)
      elif policy == 'unroll':
        # a loop over a constant string / tuple is executed element by element
        if not isinstance(node, ast.For):
          raise AnalysisError('cannot unroll a while loop')
        seq = self.value(node.iter, st)
        if isinstance(seq, Const) and isinstance(seq.v, (str, tuple, list)):
          elems = [Const(x) for x in seq.v]
        elif isinstance(seq, tuple):
          elems = list(seq)
        else:
          raise AnalysisError('loop over a value that is not constant: %s' % norm(node.iter, 50))

        def run(states, i):
          if i == len(elems):
            for s in states:
              yield (s, None)
            return
          nxt = []
          for s in states:
            s1 = s.copy()
            self.assign(node.target, elems[i], s1)
            for s2, sig in self.block(node.body, s1):
              if sig is None or sig[0] == 'continue':
                nxt.append(s2)
              elif sig[0] == 'break':
                yield (s2, None)
              else:
                yield (s2, sig)
          yield from run(nxt, i + 1)
        yield from run([st.copy()], 0)
      elif policy == 'once':
        yield (st.copy(), None)
        s1 = st.copy()
        if isinstance(node, ast.For):
          self.assign(node.target, self._elem(node, s1), s1)
        for s, sig in self.block(node.body, s1):
          if sig is None or sig[0] in ('break', 'continue'):
            yield (s, None)
          else:
            yield (s, sig)
      else:
        raise AnalysisError('loop not supported by the abstract interpreter '
                            'in %s: %s' % (self.fn.name, norm(node, 60)))
    elif isinstance(node, ast.Break):
      yield (st, ('break', None, node))
    elif isinstance(node, ast.Continue):
      yield (st, ('continue', None, node))
    elif isinstance(node, (ast.Pass, ast.Global, ast.Nonlocal, ast.Import,
                           ast.ImportFrom, ast.FunctionDef, ast.ClassDef,
                           ast.Delete)):
      yield (st, None)
    elif isinstance(node, ast.With):
      yield from self.block(node.body, st)
    elif isinstance(node, ast.Try):
      # normal flow only: body, else, finally
      for s, sig in self.block(node.body, st):
        if sig is None:
          for s2, sig2 in self.block(node.orelse, s):
            if sig2 is None:
              yield from self.block(node.finalbody, s2)
            else:
              yield (s2, sig2)
        else:
          yield (s, sig)
    else:
      raise AnalysisError('statement not supported by the abstract '
                          'interpreter in %s: %s' % (self.fn.name,
                                                     norm(node, 60)))
