"""E5 - string-template skeletons.

A skeleton is a `Str`: a list of parts, each a literal `str` or a hole (any
abstract value that is not a string literal).  Skeletons are built from the
string-building forms the repository uses: `+`, `%` with tuple / scalar right
operand, `str.format`, f-strings, `sep.join([...literal list...])`.

Used (a) as value hooks of the abstract interpreter (C17-R2) and (b) for the
expression-level balance check of emitter functions (C09-R3).
"""

import ast
import string

from .absint import Const, Sym
from .model import AnalysisError, call_tail, const_str, dotted, norm
from . import sqllex, templates


class Str(object):

  def __init__(self, parts):
    self.parts = []
    for p in parts:
      if isinstance(p, str) and self.parts and isinstance(self.parts[-1], str):
        self.parts[-1] += p
      elif isinstance(p, Str):
        for q in p.parts:
          if isinstance(q, str) and self.parts and isinstance(self.parts[-1], str):
            self.parts[-1] += q
          else:
            self.parts.append(q)
      elif isinstance(p, str) and p == '':
        continue
      else:
        self.parts.append(p)
    self.key = 'str:' + self.text()

  def text(self, hole=lambda h: '<%s>' % getattr(h, 'text', type(h).__name__)):
    return ''.join(p if isinstance(p, str) else hole(p) for p in self.parts)

  def is_literal(self):
    return all(isinstance(p, str) for p in self.parts)

  def literal(self):
    return ''.join(self.parts)

  def __repr__(self):
    return 'Str(%r)' % self.text()

  def __eq__(self, o):
    return isinstance(o, Str) and self.text() == o.text()

  def __hash__(self):
    return hash(self.text())


def as_str(v):
  if isinstance(v, Str):
    return v
  if isinstance(v, Const) and isinstance(v.v, str):
    return Str([v.v])
  if isinstance(v, Const) and isinstance(v.v, (int, float)) and not isinstance(v.v, bool):
    return Str([str(v.v)])
  return Str([v])


def percent_format(tpl, args):
  """tpl: literal template, args: list of abstract values."""
  out = []
  i = 0
  k = 0
  n = len(tpl)
  while i < n:
    j = tpl.find('%', i)
    if j < 0:
      out.append(tpl[i:])
      break
    out.append(tpl[i:j])
    if j + 1 < n and tpl[j + 1] == '%':
      out.append('%')
      i = j + 2
      continue
    # conversion spec: skip flags/width, take the type char
    m = j + 1
    while m < n and tpl[m] in '#0- +.0123456789':
      m += 1
    if m >= n:
      raise AnalysisError('incomplete %%-format in %r' % tpl)
    if k < len(args):
      out.append(as_str(args[k]))
    else:
      out.append(Sym('<missing format argument>'))
    k += 1
    i = m + 1
  return Str(out)


def brace_format(tpl, args, kwargs):
  out = []
  auto = 0
  for lit, field, spec, conv in string.Formatter().parse(tpl):
    out.append(lit)
    if field is None:
      continue
    head = field.split('.')[0].split('[')[0]
    if head == '':
      v = args[auto] if auto < len(args) else Sym('<missing>')
      auto += 1
    elif head.isdigit():
      v = args[int(head)] if int(head) < len(args) else Sym('<missing>')
    else:
      v = kwargs.get(head, Sym('{%s}' % head))
    out.append(as_str(v))
  return Str(out)


def expr_hook(node, st, interp):
  """`expr` hook of the abstract interpreter for string building."""
  if isinstance(node, ast.JoinedStr):
    parts = []
    for v in node.values:
      if isinstance(v, ast.Constant):
        parts.append(v.value)
      else:
        parts.append(as_str(interp.value(v.value, st)))
    return Str(parts)
  if isinstance(node, ast.BinOp) and isinstance(node.op, ast.Add):
    l = interp.value(node.left, st)
    r = interp.value(node.right, st)
    if _stringy(l) or _stringy(r):
      return Str([as_str(l), as_str(r)])
    return NotImplemented
  if isinstance(node, ast.BinOp) and isinstance(node.op, ast.Mod):
    l = interp.value(node.left, st)
    if _stringy(l) and as_str(l).is_literal():
      r = node.right
      if isinstance(r, ast.Tuple):
        args = [interp.value(e, st) for e in r.elts]
      else:
        v = interp.value(r, st)
        args = list(v) if isinstance(v, tuple) else [v]
      return percent_format(as_str(l).literal(), args)
    return NotImplemented
  if isinstance(node, ast.IfExp):
    t = interp.decided(node.test, st)
    if t is True:
      return interp.value(node.body, st)
    if t is False:
      return interp.value(node.orelse, st)
    return NotImplemented
  return NotImplemented


def call_hook(node, st, interp):
  if isinstance(node.func, ast.Attribute) and node.func.attr == 'format':
    base = interp.value(node.func.value, st)
    if _stringy(base) and as_str(base).is_literal():
      args = [interp.value(a, st) for a in node.args]
      kwargs = {k.arg: interp.value(k.value, st) for k in node.keywords if k.arg}
      return brace_format(as_str(base).literal(), args, kwargs)
  return NotImplemented


def _stringy(v):
  return isinstance(v, Str) or (isinstance(v, Const) and isinstance(v.v, str))


# ---------------------------------------------------------------------------
# static (interpreter-free) skeletons for the expression-level balance check

HOLE = object()


class Hole(object):

  def __init__(self, node):
    self.node = node
    self.text = norm(node, 40)

  def __repr__(self):
    return '<%s>' % self.text


def static_skeletons(e, limit=16):
  """All alternative skeletons (lists of str / Hole) of a string-building
  expression; conditional expressions fork, everything unknown is a hole."""
  if isinstance(e, ast.Constant):
    if isinstance(e.value, str):
      return [[e.value]]
    return [[Hole(e)]]
  if isinstance(e, ast.JoinedStr):
    alts = [[]]
    for v in e.values:
      if isinstance(v, ast.Constant):
        alts = [a + [v.value] for a in alts]
      else:
        alts = [a + [Hole(v.value)] for a in alts]
    return alts
  if isinstance(e, ast.BinOp) and isinstance(e.op, ast.Add):
    ls, rs = static_skeletons(e.left, limit), static_skeletons(e.right, limit)
    return [l + r for l in ls for r in rs][:limit]
  if isinstance(e, ast.BinOp) and isinstance(e.op, ast.Mod):
    tpl = const_str(e.left)
    if tpl is not None:
      args = e.right.elts if isinstance(e.right, ast.Tuple) else [e.right]
      return [_percent_static(tpl, args)]
    return [[Hole(e)]]
  if isinstance(e, ast.Call) and isinstance(e.func, ast.Attribute) and \
      e.func.attr == 'format' and const_str(e.func.value) is not None:
    return [_brace_static(const_str(e.func.value), e)]
  if isinstance(e, ast.Call) and isinstance(e.func, ast.Attribute) and \
      e.func.attr == 'join' and const_str(e.func.value) is not None:
    # sep.join(xs): balanced pieces joined by a (checked) separator
    return [[Hole(e)]]
  if isinstance(e, ast.IfExp):
    return (static_skeletons(e.body, limit) + static_skeletons(e.orelse, limit))[:limit]
  return [[Hole(e)]]


def _percent_static(tpl, args):
  out = []
  i = 0
  k = 0
  n = len(tpl)
  while i < n:
    j = tpl.find('%', i)
    if j < 0:
      out.append(tpl[i:])
      break
    out.append(tpl[i:j])
    if j + 1 < n and tpl[j + 1] == '%':
      out.append('%')
      i = j + 2
      continue
    m = j + 1
    while m < n and tpl[m] in '#0- +.0123456789':
      m += 1
    if m >= n:
      break
    if k < len(args):
      a = args[k]
      sub = static_skeletons(a)
      out += sub[0] if len(sub) == 1 else [Hole(a)]
    else:
      out.append(Hole(ast.Constant(value=None)))
    k += 1
    i = m + 1
  return [p for p in out if not (isinstance(p, str) and p == '')]


def _brace_static(tpl, call):
  out = []
  auto = 0
  kw = {k.arg: k.value for k in call.keywords if k.arg}
  for lit, field, spec, conv in string.Formatter().parse(tpl):
    if lit:
      out.append(lit)
    if field is None:
      continue
    head = field.split('.')[0].split('[')[0]
    node = None
    if head == '':
      node = call.args[auto] if auto < len(call.args) else None
      auto += 1
    elif head.isdigit():
      node = call.args[int(head)] if int(head) < len(call.args) else None
    else:
      node = kw.get(head)
    if node is None:
      out.append(Hole(ast.Constant(value=None)))
    else:
      sub = static_skeletons(node)
      out += sub[0] if len(sub) == 1 else [Hole(node)]
  return out


def scan_skeleton(parts, braces=True):
  """Scan a skeleton; returns (final ScanState, [(hole, quote state)])."""
  st = sqllex.ScanState()
  holes = []
  for p in parts:
    if isinstance(p, str):
      sqllex.scan(p, st, braces=braces)
      if st.error:
        break
    else:
      holes.append((p, st.quote))
  return st, holes


def template_as_text(t):
  """Replace %s / {n} / {name} placeholders of a template by an atom."""
  if '%s' in t:
    return t.replace('%%', '\x00').replace('%s', 'X').replace('\x00', '%')
  try:
    out = []
    for lit, field, spec, conv in string.Formatter().parse(t):
      out.append(lit)
      if field is not None:
        out.append('X')
    return ''.join(out)
  except ValueError:
    return t
