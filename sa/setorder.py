"""E6 - unordered-iteration order taint.

Finds every place where the iteration order of a `set` (hash-seed / history
dependent) is materialised into something order-observable: a list, a string,
the insertion order of a dict that is iterated later, the numbering of an
allocator, statements emitted into the compilation state.

The analysis is flow-insensitive per function with inter-procedural summaries
(set-kinded returns, set-kinded parameters, effect summaries) iterated to a
fixpoint over the call graph.
"""

import ast

from .model import (AnalysisError, call_tail, const_str, dotted, fi_class, norm,
                    walk_local)

SET_OPS = (ast.BitOr, ast.BitAnd, ast.Sub, ast.BitXor)
SANITISERS = {'sorted', 'set', 'frozenset', 'len', 'any', 'all', 'min', 'max',
              'sum', 'bool', 'isinstance', 'id', 'type'}
MATERIALISERS = {'list', 'tuple', 'enumerate', 'zip', 'map', 'iter', 'next',
                 'reversed', 'str', 'repr', 'deque', 'dict', 'OrderedDict',
                 'dumps', 'filter'}
GROW_METHODS = {'append', 'extend', 'insert', 'appendleft'}
SETGROW_METHODS = {'add', 'update', 'discard', 'remove', 'difference_update',
                   'intersection_update', 'clear'}
DIAG_CALLS = {'print', 'Format', 'Warn', 'Color', 'ShowMessage', 'write'}


class Site(object):
  """One place where unordered order is consumed."""

  def __init__(self, fi, node, source, kind, verdict, reason, chain=None):
    self.fi = fi
    self.node = node
    self.source = source      # normalised text of the unordered expression
    self.kind = kind          # 'for' | 'comp' | 'call:<name>' | 'format' ...
    self.verdict = verdict    # 'ok' | 'leak'
    self.reason = reason
    self.chain = chain or []

  def key(self):
    return (self.fi.module.relpath, self.fi.qualname, self.source, self.kind)


class Analysis(object):

  def __init__(self, repo, modules, allocators=(), emitters=(),
               rename_walkers=()):
    self.repo = repo
    self.modules = modules
    self.funcs = {}
    for m in modules:
      for fi in m.funcs.values():
        self.funcs[fi.fq] = fi
    self.allocators = set(allocators)       # fq names: numbering is observable
    self.emitters = set(emitters)           # fq names: append to shared state
    self.rename_walkers = set(rename_walkers)
    self.ret_set = {}          # fq -> bool (every return set-kinded)
    self.ret_tuple = {}        # fq -> [kind per tuple position]
    self.dictkey_set = set()   # constant keys under which dict literals hold sets
    self.param_set = {}        # (fq, param) -> bool
    self.attr_set = {}         # (class, attr) -> 'set' | 'dictset'
    self.effects = {}          # fq -> set of effect tags
    self.tainted_dicts = {}    # key -> chain list
    self.sites = []
    self._solve_kinds()
    self._solve_effects()

  # -- kinds -------------------------------------------------------------------
  def _solve_kinds(self):
    changed = True
    rounds = 0
    while changed and rounds < 12:
      rounds += 1
      changed = False
      for fi in self.funcs.values():
        ctx = Ctx(self, fi)
        # class attributes
        cls = fi_class(fi)
        for x in walk_local(fi.node):
          if isinstance(x, (ast.Assign, ast.AugAssign, ast.AnnAssign)):
            targets = x.targets if isinstance(x, ast.Assign) else [x.target]
            val = x.value
            if val is None:
              continue
            for t in targets:
              d = dotted(t)
              if d and d.startswith('self.') and d.count('.') == 1 and cls:
                k = ctx.kind(val)
                if isinstance(x, ast.AugAssign) and isinstance(x.op, SET_OPS) and \
                    ctx.kind(val) == 'set':
                  k = 'set'
                if k in ('set', 'dictset') and self.attr_set.get((cls, t.attr)) != k:
                  if self.attr_set.get((cls, t.attr)) is None:
                    self.attr_set[(cls, t.attr)] = k
                    changed = True
              if isinstance(t, ast.Subscript):
                b = dotted(t.value)
                if b and b.startswith('self.') and b.count('.') == 1 and cls and \
                    ctx.kind(val) == 'set':
                  if self.attr_set.get((cls, t.value.attr)) is None:
                    self.attr_set[(cls, t.value.attr)] = 'dictset'
                    changed = True
        # dict literals holding a set under a constant key
        for x in walk_local(fi.node):
          if isinstance(x, ast.Dict):
            for k, v in zip(x.keys, x.values):
              ks = const_str(k) if k is not None else None
              if ks is not None and ks not in self.dictkey_set and ctx.kind(v) == 'set':
                self.dictkey_set.add(ks)
                changed = True
        # returns
        rets = [x for x in walk_local(fi.node) if isinstance(x, ast.Return)
                and x.value is not None]
        if rets and all(isinstance(r.value, ast.Tuple) for r in rets):
          n = len(rets[0].value.elts)
          if all(len(r.value.elts) == n for r in rets):
            kinds = []
            for i in range(n):
              ks = {ctx.kind(r.value.elts[i]) for r in rets}
              kinds.append(ks.pop() if len(ks) == 1 else None)
            if any(kinds) and self.ret_tuple.get(fi.fq) != kinds:
              self.ret_tuple[fi.fq] = kinds
              changed = True
        rs = bool(rets) and all(ctx.kind(r.value) == 'set' for r in rets)
        if rs and not self.ret_set.get(fi.fq):
          self.ret_set[fi.fq] = True
          changed = True
        # parameters from call sites
        for c in walk_local(fi.node):
          if isinstance(c, ast.Call):
            tg = self.repo.resolve(fi, c)
            if len(tg) != 1 or tg[0] not in self.funcs:
              continue
            callee = self.funcs[tg[0]]
            params = callee.params
            if callee.cls is not None and params and params[0] in ('self', 'cls') \
                and isinstance(c.func, ast.Attribute):
              params = params[1:]
            for i, a in enumerate(c.args):
              if i < len(params) and ctx.kind(a) == 'set':
                if not self.param_set.get((callee.fq, params[i])):
                  self.param_set[(callee.fq, params[i])] = True
                  changed = True
            for k in c.keywords:
              if k.arg and ctx.kind(k.value) == 'set':
                if not self.param_set.get((callee.fq, k.arg)):
                  self.param_set[(callee.fq, k.arg)] = True
                  changed = True

  # -- effects -----------------------------------------------------------------
  def _solve_effects(self):
    direct = {}
    for fi in self.funcs.values():
      eff = set()
      ctx = Ctx(self, fi)
      cls = fi_class(fi)
      for x in walk_local(fi.node):
        if isinstance(x, ast.Call) and isinstance(x.func, ast.Attribute):
          recv = dotted(x.func.value)
          if x.func.attr in GROW_METHODS and recv and not ctx.is_local(recv) \
              and ctx.kind(x.func.value) != 'set':
            eff.add('GROWS:' + self._attr_key(cls, recv))
          if x.func.attr in ('update', 'setdefault') and recv and \
              not ctx.is_local(recv) and ctx.kind(x.func.value) not in ('set',):
            eff.add('INSERTS:' + self._attr_key(cls, recv))
        if isinstance(x, (ast.Assign, ast.AugAssign)):
          targets = x.targets if isinstance(x, ast.Assign) else [x.target]
          for t in targets:
            if isinstance(t, ast.Subscript):
              b = dotted(t.value)
              if b and not ctx.is_local(b):
                eff.add('INSERTS:' + self._attr_key(cls, b))
            if isinstance(x, ast.AugAssign) and isinstance(x.op, ast.Add):
              d = dotted(t)
              if d and not ctx.is_local(d) and ctx.kind(t) != 'set':
                eff.add('GROWS:' + self._attr_key(cls, d))
        if isinstance(x, (ast.Yield, ast.YieldFrom)):
          eff.add('YIELDS')
      if fi.fq in self.allocators:
        eff.add('ALLOCATES')
      if fi.fq in self.emitters:
        eff.add('EMITS')
      direct[fi.fq] = eff
    self.direct_effects = {k: set(v) for k, v in direct.items()}
    self.effects = {k: set(v) for k, v in direct.items()}
    changed = True
    while changed:
      changed = False
      for fi in self.funcs.values():
        for c in walk_local(fi.node):
          if isinstance(c, ast.Call):
            for t in self.repo.resolve(fi, c):
              t = self._ctor(t)
              for e in self.effects.get(t, ()):
                if e not in self.effects[fi.fq]:
                  self.effects[fi.fq].add(e)
                  changed = True
        for sub in fi.nested.values():
          pass

  def _ctor(self, fq):
    modname, _, qual = fq.partition('.')
    for m in self.modules:
      if m.name == modname and qual in m.classes:
        init = self.repo.lookup_method(m, qual, '__init__')
        if init is not None:
          return init.fq
    return fq

  def attr_owner(self, attr):
    """Class that owns instance attribute `attr` when exactly one analysed
    class assigns `self.<attr>`."""
    if not hasattr(self, '_owners'):
      own = {}
      for fi in self.funcs.values():
        cls = fi_class(fi)
        if not cls:
          continue
        for x in walk_local(fi.node):
          if isinstance(x, ast.Attribute) and isinstance(x.ctx, ast.Store) and \
              dotted(x) == 'self.' + x.attr:
            own.setdefault(x.attr, set()).add(cls)
      self._owners = own
    o = self._owners.get(attr, set())
    return list(o)[0] if len(o) == 1 else None

  def repo_module_names(self):
    names = set()
    for m in self.modules:
      names.add(m.name)
      names |= set(m.imports)
    return names

  def _attr_key(self, cls, d):
    if d.startswith('self.') and cls:
      return '%s.%s' % (cls, d[5:])
    return d


class Ctx(object):
  """Per-function kind inference."""

  def __init__(self, an, fi):
    self.an = an
    self.fi = fi
    self.cls = fi_class(fi)
    self._names = None
    self._locals = None

  def locals(self):
    if self._locals is None:
      s = set()
      for x in walk_local(self.fi.node):
        if isinstance(x, ast.Name) and isinstance(x.ctx, ast.Store):
          s.add(x.id)
      self._locals = s - set(self.fi.params)
    return self._locals

  def is_local(self, d):
    """Container named by dotted `d` is created in this function (so growing
    it is not an effect visible to callers, unless it is returned)."""
    root = d.split('.')[0]
    if '.' in d:
      return False
    return root in self.locals()

  def name_defs(self):
    if self._names is None:
      defs = {}
      for x in walk_local(self.fi.node):
        if isinstance(x, ast.Assign):
          for t in x.targets:
            self._bind(defs, t, x.value)
        elif isinstance(x, ast.AnnAssign) and x.value is not None:
          self._bind(defs, x.target, x.value)
        elif isinstance(x, ast.AugAssign):
          if isinstance(x.target, ast.Name):
            defs.setdefault(x.target.id, []).append(('aug', x.op, x.value))
        elif isinstance(x, ast.NamedExpr):
          defs.setdefault(x.target.id, []).append(x.value)
        elif isinstance(x, (ast.For, ast.comprehension)):
          self._bind_iter(defs, x.target, x.iter)
      self._names = defs
    return self._names

  def _bind(self, defs, t, v):
    if isinstance(t, ast.Subscript) and isinstance(t.value, ast.Name):
      defs.setdefault(t.value.id, []).append(('elemstore', v))
      return
    if isinstance(t, ast.Name):
      defs.setdefault(t.id, []).append(v)
    elif isinstance(t, (ast.Tuple, ast.List)):
      if isinstance(v, (ast.Tuple, ast.List)) and len(v.elts) == len(t.elts):
        for a, b in zip(t.elts, v.elts):
          self._bind(defs, a, b)
      else:
        for i, a in enumerate(t.elts):
          self._bind(defs, a, ('elem', i, v))

  def _bind_iter(self, defs, target, it):
    # element of an iteration: set if iterating `.values()` of a dict of sets
    if isinstance(target, ast.Name):
      defs.setdefault(target.id, []).append(('iter', it))
    elif isinstance(target, (ast.Tuple, ast.List)):
      for i, a in enumerate(target.elts):
        if isinstance(a, ast.Name):
          defs.setdefault(a.id, []).append(('iter-elem', i, it))

  def kind(self, e, depth=0):
    """'set' | 'dictset' | None."""
    if depth > 6 or e is None:
      return None
    if isinstance(e, tuple):
      tag = e[0]
      if tag == 'aug':
        _, op, val = e
        if isinstance(op, SET_OPS) and self.kind(val, depth + 1) == 'set':
          return 'set'
        return None
      if tag == 'elemstore':
        return 'dictset' if self.kind(e[1], depth + 1) == 'set' else None
      if tag == 'elem':
        _, i, v = e
        if isinstance(v, ast.Call):
          tg = [x for x in self.an.repo.resolve(self.fi, v) if x in self.an.funcs]
          ks = {tuple(self.an.ret_tuple.get(x) or ()) for x in tg}
          if len(ks) == 1:
            k = ks.pop()
            if i < len(k):
              return k[i]
        return None
      if tag == 'iter':
        it = e[1]
        if isinstance(it, ast.Call) and call_tail(it) == 'values' and \
            isinstance(it.func, ast.Attribute) and \
            self.kind(it.func.value, depth + 1) == 'dictset':
          return 'set'
        return None
      if tag == 'iter-elem':
        _, i, it = e
        if i == 1 and isinstance(it, ast.Call) and call_tail(it) == 'items' and \
            isinstance(it.func, ast.Attribute) and \
            self.kind(it.func.value, depth + 1) == 'dictset':
          return 'set'
        return None
      return None
    if isinstance(e, (ast.Set, ast.SetComp)):
      return 'set'
    if isinstance(e, ast.Call):
      t = call_tail(e)
      f = e.func
      if isinstance(f, ast.Name) and t in ('set', 'frozenset'):
        return 'set'
      if isinstance(f, ast.Attribute) and t in (
          'union', 'intersection', 'difference', 'symmetric_difference', 'copy') \
          and self.kind(f.value, depth + 1) == 'set':
        return 'set'
      if t == 'defaultdict' and e.args and dotted(e.args[0]) in ('set', 'frozenset'):
        return 'dictset'
      if t == 'deepcopy' and e.args:
        return self.kind(e.args[0], depth + 1)
      if isinstance(f, ast.Attribute) and t == 'get' and \
          self.kind(f.value, depth + 1) == 'dictset':
        return 'set'
      tg = self.an.repo.resolve(self.fi, e)
      tg = [x for x in tg if x in self.an.funcs]
      if tg and all(self.an.ret_set.get(x) for x in tg):
        return 'set'
      return None
    if isinstance(e, ast.BinOp) and isinstance(e.op, SET_OPS):
      for side in (e.left, e.right):
        if self.kind(side, depth + 1) == 'set':
          return 'set'
        if isinstance(side, ast.Call) and call_tail(side) in ('keys', 'items') \
            and isinstance(e.op, (ast.BitOr, ast.BitAnd, ast.Sub, ast.BitXor)):
          return 'set'
      return None
    if isinstance(e, ast.IfExp):
      return self.kind(e.body, depth + 1) or self.kind(e.orelse, depth + 1)
    if isinstance(e, ast.BoolOp):
      for v in e.values:
        k = self.kind(v, depth + 1)
        if k:
          return k
      return None
    if isinstance(e, ast.DictComp):
      if self.kind(e.value, depth + 1) == 'set':
        return 'dictset'
      return None
    if isinstance(e, ast.Dict):
      if e.values and all(self.kind(v, depth + 1) == 'set' for v in e.values):
        return 'dictset'
      return None
    if isinstance(e, ast.Name):
      if self.an.param_set.get((self.fi.fq, e.id)):
        return 'set'
      p = self.fi.parent
      defs = self.name_defs().get(e.id)
      if defs is None and p is not None:
        # closure variable of the enclosing function
        return Ctx(self.an, p).kind(e, depth + 1)
      for d in defs or ():
        k = self.kind(d, depth + 1)
        if k:
          return k
      return None
    if isinstance(e, ast.Attribute):
      d = dotted(e)
      if d and d.startswith('self.') and d.count('.') == 1 and self.cls:
        return self.an.attr_set.get((self.cls, e.attr))
      # attribute of another object: by unique attribute name over classes
      ks = {v for (c, a), v in self.an.attr_set.items() if a == e.attr}
      if len(ks) == 1 and isinstance(e.value, (ast.Name, ast.Attribute)) and \
          not (isinstance(e.value, ast.Name) and e.value.id in self.an.repo_module_names()):
        return ks.pop()
      return None
    if isinstance(e, ast.Subscript):
      if self.kind(e.value, depth + 1) == 'dictset':
        return 'set'
      ks = const_str(e.slice)
      if ks is not None and ks in self.an.dictkey_set:
        return 'set'
      return None
    if isinstance(e, ast.NamedExpr):
      return self.kind(e.value, depth + 1)
    return None


# ---------------------------------------------------------------------------
# site collection and classification


def _parents(fn):
  par = {}
  for n in walk_local(fn):
    for c in ast.iter_child_nodes(n):
      par[c] = n
  return par


def _is_diag_call(c):
  t = call_tail(c) or ''
  return t in DIAG_CALLS or t.endswith('Exception') or t.endswith('Error') \
      or t in ('exception_maker', 'RaiseCompilerError', 'AnnotationError')


def _const_like(e):
  if e is None or isinstance(e, ast.Constant):
    return True
  if isinstance(e, ast.UnaryOp) and isinstance(e.operand, ast.Constant):
    return True
  return False


def _injective_key(k):
  d = dotted(k) or ''
  return d in ('str', 'repr') or d.endswith('StrIntKey')


class Collector(object):

  def __init__(self, an, exemptions=()):
    self.an = an
    self.exemptions = list(exemptions)
    self.exempt_hits = {}
    self.sites = []
    self.unknown_calls = 0
    self.tainted = {}        # key -> (tkind, chain)
    self.ret_tainted = {}    # fq -> (tkind, chain)
    self._done_t = set()
    self._done_r = set()
    self._par = {}
    self._ctx = {}
    self._param_memo = {}

  def par(self, fi):
    if fi.fq not in self._par:
      self._par[fi.fq] = _parents(fi.node)
    return self._par[fi.fq]

  def ctx(self, fi):
    if fi.fq not in self._ctx:
      self._ctx[fi.fq] = Ctx(self.an, fi)
    return self._ctx[fi.fq]

  def _present_name(self, fq):
    """name the function of an exemption has today (it may have been moved
    or renamed; sa/roles.py identifies it)."""
    cache = self.__dict__.setdefault('_pn', {})
    key = id(fq) if callable(fq) else fq
    if key not in cache:
      try:
        cache[key] = fq(self.an.repo) if callable(fq) else self.an.repo.func(fq).fq
      except Exception:
        cache[key] = None if callable(fq) else fq
    return cache[key]

  def site(self, fi, node, source, kind, verdict, reason, chain):
    self.sites.append(Site(fi, node, source, kind, verdict, reason, list(chain)))

  def exempted(self, fi, node, source, kind, chain):
    """True (and a site recorded) when (function, source) is an exempted
    construct: the analysis stops there, nothing is propagated."""
    wide = source
    if source.isidentifier():
      # a local that merely names the exempted expression (`others = cover - {p}`)
      defs = [x.value for x in walk_local(fi.node) if isinstance(x, ast.Assign) and
              len(x.targets) == 1 and isinstance(x.targets[0], ast.Name) and x.targets[0].id == source]
      if len(defs) == 1:
        wide = source + ' = ' + norm(defs[0], 200)
    for i, ex in enumerate(self.exemptions):
      if self._present_name(ex['fn']) == fi.fq and ex['source'] in wide:
        self.exempt_hits[i] = self.exempt_hits.get(i, 0) + 1
        self.site(fi, node, source, kind, 'exempt', ex['reason'], chain)
        return True
    return False

  # -- driver ------------------------------------------------------------------
  def run(self):
    for fi in self.an.funcs.values():
      self._direct_sources(fi)
    progress = True
    rounds = 0
    while progress and rounds < 30:
      rounds += 1
      progress = False
      for key in list(self.tainted):
        if key not in self._done_t:
          self._done_t.add(key)
          progress = True
          self._container_uses(key, *self.tainted[key])
      for fq in list(self.ret_tainted):
        if fq not in self._done_r:
          self._done_r.add(fq)
          progress = True
          self._call_sites_of(fq, *self.ret_tainted[fq])
    return self.sites

  # -- phase 1: set-kinded expressions consumed in an ordered way --------------
  def _direct_sources(self, fi):
    ctx = self.ctx(fi)
    for x in walk_local(fi.node):
      if isinstance(x, ast.For) and ctx.kind(x.iter) == 'set':
        ch = ['%s iterates the set %s' % (fi.fq, norm(x.iter, 60))]
        if not self.exempted(fi, x, norm(x.iter), 'for', ch):
          self._loop(fi, x, norm(x.iter), ch)
      elif isinstance(x, (ast.ListComp, ast.GeneratorExp, ast.DictComp)):
        for g in x.generators:
          if ctx.kind(g.iter) == 'set':
            ch = ['%s builds a sequence from the set %s' % (fi.fq, norm(g.iter, 60))]
            tk = 'dict' if isinstance(x, ast.DictComp) else 'seq'
            if self.exempted(fi, x, norm(g.iter), 'comprehension', ch):
              continue
            v, why = self._flow(fi, x, tk, ch, 0)
            self.site(fi, x, norm(g.iter), 'comprehension', v, why, ch)
      elif isinstance(x, ast.Call):
        t = call_tail(x)
        args = list(x.args)
        if t in MATERIALISERS and any(ctx.kind(a) == 'set' for a in args):
          src = [a for a in args if ctx.kind(a) == 'set'][0]
          ch = ['%s materialises the set %s with %s()' % (fi.fq, norm(src, 60), t)]
          if self.exempted(fi, x, norm(src), 'call:' + t, ch):
            continue
          v, why = self._flow(fi, x, 'seq', ch, 0)
          self.site(fi, x, norm(src), 'call:' + t, v, why, ch)
        elif t == 'join' and args and ctx.kind(args[0]) == 'set':
          ch = ['%s joins the set %s' % (fi.fq, norm(args[0], 60))]
          v, why = self._flow(fi, x, 'seq', ch, 0)
          self.site(fi, x, norm(args[0]), 'join', v, why, ch)
        elif t == 'extend' and args and ctx.kind(args[0]) == 'set' and \
            isinstance(x.func, ast.Attribute) and ctx.kind(x.func.value) != 'set':
          ch = ['%s extends a list with the set %s' % (fi.fq, norm(args[0], 60))]
          v, why = self._grown(fi, x.func.value, x, ch)
          self.site(fi, x, norm(args[0]), 'extend', v, why, ch)
        elif t == 'pop' and isinstance(x.func, ast.Attribute) and not args and \
            ctx.kind(x.func.value) == 'set':
          ch = ['%s pops from the set %s' % (fi.fq, norm(x.func.value, 60))]
          if self._in_diag(self.par(fi), x):
            self.site(fi, x, norm(x.func.value), 'pop', 'ok', 'diagnostic only', ch)
          else:
            self.site(fi, x, norm(x.func.value), 'pop', 'leak',
                      'set.pop() picks a hash-order dependent element', ch)
        elif t == 'format' and any(ctx.kind(a) == 'set' for a in args):
          src = [a for a in args if ctx.kind(a) == 'set'][0]
          ch = ['%s formats the set %s' % (fi.fq, norm(src, 60))]
          v, why = self._flow(fi, x, 'seq', ch, 0)
          self.site(fi, x, norm(src), 'format', v, why, ch)
      elif isinstance(x, ast.BinOp) and isinstance(x.op, ast.Mod):
        rs = x.right.elts if isinstance(x.right, ast.Tuple) else [x.right]
        for r in rs:
          if ctx.kind(r) == 'set' and (const_str(x.left) is not None or
                                       isinstance(x.left, ast.JoinedStr)):
            ch = ['%s formats the set %s' % (fi.fq, norm(r, 60))]
            v, why = self._flow(fi, x, 'seq', ch, 0)
            self.site(fi, x, norm(r), 'format', v, why, ch)
      elif isinstance(x, ast.FormattedValue) and ctx.kind(x.value) == 'set':
        ch = ['%s formats the set %s' % (fi.fq, norm(x.value, 60))]
        v, why = self._flow(fi, x, 'seq', ch, 0)
        self.site(fi, x, norm(x.value), 'format', v, why, ch)
      elif isinstance(x, ast.AugAssign) and isinstance(x.op, ast.Add) and \
          ctx.kind(x.value) == 'set' and ctx.kind(x.target) != 'set':
        ch = ['%s extends a list with the set %s' % (fi.fq, norm(x.value, 60))]
        v, why = self._grown(fi, x.target, x, ch)
        self.site(fi, x, norm(x.value), 'extend', v, why, ch)

  # -- where does an order-tainted value go ------------------------------------
  def _in_diag(self, par, node):
    p = node
    while p is not None:
      if isinstance(p, ast.Raise):
        return True
      q = par.get(p)
      if isinstance(q, ast.Assert) and q.msg is p:
        return True
      if isinstance(p, ast.Call) and _is_diag_call(p):
        return True
      p = q
    return False

  def _flow(self, fi, node, tk, chain, depth):
    """Verdict for the order-tainted value produced by `node` in fi.
    tk: 'seq' (element order tainted) | 'dict' (insertion order tainted)."""
    par = self.par(fi)
    ctx = self.ctx(fi)
    if depth > 10:
      return 'leak', 'use chain too long to follow'
    if self._in_diag(par, node):
      return 'ok', 'only reaches a diagnostic message'
    p = par.get(node)
    if p is None:
      return 'leak', 'value escapes'
    if tk.startswith('elem:'):
      inner = tk[len('elem:'):]
      if isinstance(p, ast.Subscript) and p.value is node:
        if isinstance(p.ctx, ast.Load):
          return self._flow(fi, p, inner, chain, depth + 1)
        return 'ok', 'element store'
      if isinstance(p, ast.Attribute) and p.value is node and p.attr in ('get', 'pop'):
        q = par.get(p)
        if isinstance(q, ast.Call):
          return self._flow(fi, q, inner, chain, depth + 1)
      if isinstance(p, ast.Attribute) and p.value is node and p.attr in ('values', 'items'):
        q = par.get(p)
        qq = par.get(q) if q is not None else None
        if isinstance(qq, ast.Call) and call_tail(qq) in SANITISERS and \
            call_tail(qq) not in ('sorted',):
          return 'ok', 'consumed by %s()' % call_tail(qq)
        return 'leak', 'iterates values that are order-tainted sequences'
      # everything else behaves like a dict whose own order is not at stake,
      # except that the taint kind is kept when the value is passed on
      if isinstance(p, ast.Call) and (node in p.args or any(
          k.value is node for k in p.keywords)):
        tg = [self.an._ctor(x) for x in self.an.repo.resolve(fi, p)]
        tg = [x for x in tg if x in self.an.funcs]
        if tg:
          for callee in tg:
            v = self._param_flow(callee, p, node, tk, chain, depth + 1)
            if v[0] == 'leak':
              return v
          return 'ok', 'every callee reads the element lists order-insensitively'
        if call_tail(p) in ('deepcopy', 'copy', 'dict'):
          return self._flow(fi, p, tk, chain, depth + 1)
      if isinstance(p, ast.Return):
        self._mark_returned(fi, tk, chain)
        return 'ok', 'returned: judged at the call sites'
      if isinstance(p, (ast.Assign, ast.AnnAssign)) and p.value is node:
        targets = p.targets if isinstance(p, ast.Assign) else [p.target]
        for t in targets:
          if isinstance(t, ast.Name):
            v = self._uses_of(fi, t.id, p, tk, chain, depth + 1)
            if v[0] == 'leak':
              return v
          else:
            v = self._stored(fi, t, tk, chain)
            if v[0] == 'leak':
              return v
        return 'ok', 'every later use is order-insensitive'
      if isinstance(p, ast.Tuple):
        return self._flow(fi, p, tk, chain, depth + 1)
      return 'ok', 'container itself is only looked up'
    if isinstance(p, ast.Call):
      t = call_tail(p)
      is_arg = node in p.args or any(k.value is node for k in p.keywords)
      if is_arg:
        if t in SANITISERS and isinstance(p.func, ast.Name):
          if t == 'sorted':
            key = [k.value for k in p.keywords if k.arg == 'key']
            if key and not _injective_key(key[0]):
              return self._flow(fi, p, 'seq', chain + [
                  'sorted(key=%s) keeps ties in the incoming order' % norm(key[0], 30)], depth + 1)
          return 'ok', 'consumed by %s()' % t
        if t in ('list', 'tuple', 'enumerate', 'zip', 'map', 'iter', 'next',
                 'reversed', 'filter', 'deque', 'dumps', 'str', 'repr',
                 # itertools: the order of the result is the order of the input
                 'chain', 'from_iterable', 'islice', 'takewhile', 'dropwhile',
                 'accumulate', 'starmap', 'zip_longest'):
          return self._flow(fi, p, 'seq', chain, depth + 1)
        if t in ('dict', 'OrderedDict'):
          return self._flow(fi, p, 'dict', chain, depth + 1)
        if t == 'deepcopy' or t == 'copy':
          return self._flow(fi, p, tk, chain, depth + 1)
        if t in ('join', 'format'):
          return self._flow(fi, p, 'seq', chain, depth + 1)
        if t in SETGROW_METHODS or t in ('issubset', 'issuperset', 'isdisjoint',
                                         'union', 'intersection', 'difference'):
          return 'ok', 'consumed by a set operation'
        if t in ('extend',) and isinstance(p.func, ast.Attribute):
          return self._grown(fi, p.func.value, p, chain)
        if t in ('append', 'insert') and isinstance(p.func, ast.Attribute):
          # the tainted sequence becomes an element of another container
          return self._grown(fi, p.func.value, p, chain)
        tg = [self.an._ctor(x) for x in self.an.repo.resolve(fi, p)]
        tg = [x for x in tg if x in self.an.funcs]
        if tg:
          worst = ('ok', 'every callee uses the argument order-insensitively')
          for callee in tg:
            v = self._param_flow(callee, p, node, tk, chain, depth + 1)
            if v[0] == 'leak':
              return v
          return worst
        self.unknown_calls += 1
        return 'leak', 'passed to %s()' % (t or norm(p.func, 30))
      if isinstance(p.func, ast.Attribute) and p.func.value is node:
        return self._flow(fi, p, tk, chain, depth + 1)
      return self._flow(fi, p, tk, chain, depth + 1)
    if isinstance(p, ast.Attribute) and p.value is node:
      a = p.attr
      if a in ('items', 'keys', 'values', 'copy'):
        return self._flow(fi, p, tk, chain, depth + 1)
      if tk == 'dict' and a in ('get', 'pop', 'setdefault', 'update', 'clear'):
        return 'ok', 'dict lookup / update'
      if a in GROW_METHODS | SETGROW_METHODS | {'popleft'}:
        if a == 'popleft':
          return self._flow(fi, p, 'seq', chain, depth + 1)
        return 'ok', 'container is being modified, not read'
      if a in ('sort',):
        return 'ok', 'sorted in place'
      return self._flow(fi, p, tk, chain, depth + 1)
    if isinstance(p, ast.Compare):
      if node in p.comparators and all(isinstance(o, (ast.In, ast.NotIn)) for o in p.ops):
        return 'ok', 'membership test'
      if tk == 'dict':
        return 'ok', 'dict comparison'
      if all(isinstance(o, (ast.Eq, ast.NotEq)) for o in p.ops):
        return 'leak', 'sequence compared for equality'
      return 'ok', 'comparison'
    if isinstance(p, ast.BinOp):
      if isinstance(p.op, SET_OPS):
        return 'ok', 'set algebra'
      return self._flow(fi, p, 'seq', chain, depth + 1)
    if isinstance(p, ast.Subscript):
      if p.slice is node:
        return 'ok', 'used as a subscript'
      if tk == 'dict':
        return 'ok', 'dict lookup'
      if isinstance(p.slice, ast.Slice):
        return self._flow(fi, p, tk, chain, depth + 1)
      return 'leak', 'indexed by position'
    if isinstance(p, (ast.JoinedStr, ast.FormattedValue)):
      return self._flow(fi, p, 'seq', chain, depth + 1)
    if isinstance(p, ast.Tuple) and isinstance(par.get(p), ast.Return):
      self._mark_returned(fi, tk, chain, pos=p.elts.index(node))
      return 'ok', 'returned (tuple element): judged at the call sites'
    if isinstance(p, (ast.Tuple, ast.List, ast.IfExp, ast.Starred, ast.keyword,
                      ast.Dict, ast.Await)):
      return self._flow(fi, p, tk, chain, depth + 1)
    if isinstance(p, ast.comprehension) or isinstance(p, ast.For):
      if p.iter is node:
        if isinstance(p, ast.For):
          probe = self._probe_loop(fi, p, norm(node), chain)
          if probe:
            return 'leak', probe
          return 'ok', 'iterated by an order-insensitive loop'
        comp = par.get(p)
        if isinstance(comp, ast.SetComp):
          return 'ok', 'rebuilt as a set'
        return self._flow(fi, comp, 'dict' if isinstance(comp, ast.DictComp) else 'seq',
                          chain, depth + 1)
      return 'ok', 'loop target'
    if isinstance(p, (ast.Assign, ast.AnnAssign, ast.NamedExpr)):
      targets = p.targets if isinstance(p, ast.Assign) else [p.target]
      for t in targets:
        elts = t.elts if isinstance(t, (ast.Tuple, ast.List)) else [t]
        for e in elts:
          if isinstance(e, ast.Starred):
            e = e.value
          if isinstance(e, ast.Name):
            v = self._uses_of(fi, e.id, p, tk, chain, depth + 1)
            if v[0] == 'leak':
              return v
          else:
            v = self._stored(fi, e, tk, chain)
            if v[0] == 'leak':
              return v
      return 'ok', 'every later use is order-insensitive'
    if isinstance(p, ast.AugAssign):
      if p.value is node:
        return self._grown(fi, p.target, p, chain)
      return 'ok', 'augmented target'
    if isinstance(p, ast.Return):
      self._mark_returned(fi, tk, chain)
      return 'ok', 'returned: judged at the call sites'
    if isinstance(p, ast.Expr):
      return 'ok', 'value discarded'
    if isinstance(p, (ast.If, ast.While, ast.BoolOp, ast.UnaryOp, ast.Assert)):
      return 'ok', 'only tested'
    if isinstance(p, (ast.Yield, ast.YieldFrom)):
      self._mark_returned(fi, 'seq', chain)
      return 'ok', 'yielded: judged at the call sites'
    if isinstance(p, ast.Lambda):
      return 'leak', 'captured by a lambda'
    return 'leak', 'flows into %s' % type(p).__name__

  def _mark_returned(self, fi, tk, chain, pos=None):
    key = fi.fq if pos is None else '%s#%d' % (fi.fq, pos)
    if key not in self.ret_tainted:
      self.ret_tainted[key] = (tk, chain + ['%s returns it%s' % (
          fi.fq, '' if pos is None else ' (tuple position %d)' % pos)])

  def _uses_of(self, fi, name, definition, tk, chain, depth):
    line = getattr(definition, 'lineno', 0)
    in_loop = self._enclosing_loop_start(fi, definition)
    for x in walk_local(fi.node):
      if isinstance(x, ast.Name) and x.id == name and isinstance(x.ctx, ast.Load):
        if x.lineno < (in_loop if in_loop is not None else line):
          continue
        v = self._flow(fi, x, tk, chain, depth)
        if v[0] == 'leak':
          return v
    return 'ok', ''

  def _enclosing_loop_start(self, fi, node):
    par = self.par(fi)
    p = par.get(node)
    first = None
    while p is not None:
      if isinstance(p, (ast.For, ast.While)):
        first = p.lineno
      p = par.get(p)
    return first

  def _stored(self, fi, target, tk, chain):
    """Tainted value stored into an attribute / subscript."""
    d = dotted(target)
    if isinstance(target, ast.Subscript):
      # becomes an element of a container: the container now holds a tainted
      # sequence as a value; follow the container
      base = dotted(target.value)
      if base is None:
        return 'leak', 'stored in %s' % norm(target, 40)
      key = self._key(fi, base)
      self._taint(key, tk if tk.startswith('elem:') else 'elem:' + tk, chain + ['%s stores it in %s[..]' % (fi.fq, base)])
      return 'ok', 'stored as an element: judged where the container is read'
    if d is None:
      return 'leak', 'stored in %s' % norm(target, 40)
    key = self._key(fi, d)
    self._taint(key, tk, chain + ['%s stores it in %s' % (fi.fq, d)])
    return 'ok', 'stored: judged where the attribute is read'

  def _grown(self, fi, container, node, chain):
    """A container is grown (append/extend/+=) in a tainted order."""
    d = dotted(container)
    if d is None:
      if isinstance(container, ast.Subscript):
        b = dotted(container.value)
        if b:
          key = self._key(fi, b)
          self._taint(key, 'elem:seq', chain + ['%s grows %s[..]' % (fi.fq, b)])
          return 'ok', 'element list grows: judged where the container is read'
      return 'leak', '%s grows in a tainted order' % norm(container, 40)
    key = self._key(fi, d)
    self._taint(key, 'seq', chain + ['%s grows %s' % (fi.fq, d)])
    return 'ok', 'grown: judged where %s is read' % d

  def _key(self, fi, d):
    cls = fi_class(fi)
    if d.startswith('self.') and d.count('.') == 1 and cls:
      return 'attr:%s.%s' % (cls, d[5:])
    if '.' not in d:
      if d in self.ctx(fi).locals() or d in fi.params:
        return 'local:%s:%s' % (fi.fq, d)
      p = fi.parent
      while p is not None:
        if d in self.ctx(p).locals() or d in p.params:
          return 'local:%s:%s' % (p.fq, d)
        p = p.parent
      return 'global:%s.%s' % (fi.module.name, d)
    owner = self.an.attr_owner(d.split('.')[-1])
    if owner:
      return 'attr:%s.%s' % (owner, d.split('.')[-1])
    return 'unknown:%s' % d

  def _taint(self, key, tk, chain):
    if key not in self.tainted:
      self.tainted[key] = (tk, chain)

  # -- argument passed to an analysed function ---------------------------------
  def _param_flow(self, callee_fq, call, argnode, tk, chain, depth):
    callee = self.an.funcs[callee_fq]
    params = callee.params
    if callee.cls is not None and params and params[0] in ('self', 'cls') and \
        (isinstance(call.func, ast.Attribute) or callee.name == '__init__'):
      params = params[1:]
    pname = None
    for i, a in enumerate(call.args):
      if a is argnode and i < len(params):
        pname = params[i]
    for k in call.keywords:
      if k.value is argnode:
        pname = k.arg
    if pname is None:
      return 'leak', 'passed to %s in an unknown position' % callee_fq
    memo = (callee_fq, pname, tk)
    if memo in self._param_memo:
      return self._param_memo[memo]
    self._param_memo[memo] = ('ok', 'recursive')
    ch = chain + ['passed to %s(%s)' % (callee_fq, pname)]
    res = ('ok', 'callee uses it order-insensitively')
    for x in walk_local(callee.node):
      if isinstance(x, ast.Name) and x.id == pname and isinstance(x.ctx, ast.Load):
        v = self._flow(callee, x, tk, ch, depth)
        if v[0] == 'leak':
          res = ('leak', 'in %s: %s' % (callee_fq, v[1]))
          break
    # nested functions of the callee may read the parameter as a closure var
    if res[0] == 'ok':
      for sub in callee.nested.values():
        for x in walk_local(sub.node):
          if isinstance(x, ast.Name) and x.id == pname and isinstance(x.ctx, ast.Load) \
              and pname not in sub.params:
            v = self._flow(sub, x, tk, ch, depth)
            if v[0] == 'leak':
              res = ('leak', 'in %s: %s' % (sub.fq, v[1]))
    self._param_memo[memo] = res
    return res

  # -- loops over an unordered / order-tainted source --------------------------
  def _probe_loop(self, fi, loop, source, chain):
    leaks = []
    loopvars = {n.id for n in ast.walk(loop.target) if isinstance(n, ast.Name)}
    self._body(fi, loop, loop.body + loop.orelse, loopvars, leaks, chain)
    return leaks[0][1] if leaks else None

  def _loop(self, fi, loop, source, chain):
    leaks = []
    loopvars = {n.id for n in ast.walk(loop.target) if isinstance(n, ast.Name)}
    self._body(fi, loop, loop.body + loop.orelse, loopvars, leaks, chain)
    if leaks:
      for node, why in leaks:
        self.site(fi, node, source, 'for', 'leak', why, chain)
    else:
      self.site(fi, loop, source, 'for', 'ok',
                'loop body has only order-insensitive effects', chain)

  def _body(self, fi, loop, stmts, loopvars, leaks, chain):
    for st in stmts:
      self._stmt(fi, loop, st, loopvars, leaks, chain)

  def _stmt(self, fi, loop, st, loopvars, leaks, chain):
    ctx = self.ctx(fi)
    if isinstance(st, ast.Expr):
      if isinstance(st.value, (ast.Yield, ast.YieldFrom)):
        self._mark_returned(fi, 'seq', chain + ['%s yields inside the loop' % fi.fq])
      else:
        self._expr_calls(fi, loop, st.value, leaks, chain)
      return
    if isinstance(st, (ast.If, ast.While)):
      self._expr_calls(fi, loop, st.test, leaks, chain)
      self._body(fi, loop, st.body + st.orelse, loopvars, leaks, chain)
      return
    if isinstance(st, ast.For):
      self._expr_calls(fi, loop, st.iter, leaks, chain)
      self._body(fi, loop, st.body + st.orelse, loopvars, leaks, chain)
      return
    if isinstance(st, ast.With):
      self._body(fi, loop, st.body, loopvars, leaks, chain)
      return
    if isinstance(st, ast.Try):
      self._body(fi, loop, st.body + st.orelse + st.finalbody, loopvars, leaks, chain)
      for h in st.handlers:
        self._body(fi, loop, h.body, loopvars, leaks, chain)
      return
    if isinstance(st, (ast.Raise, ast.Assert, ast.Pass, ast.Continue, ast.Break,
                       ast.Global, ast.Nonlocal, ast.FunctionDef, ast.ClassDef,
                       ast.Import, ast.ImportFrom, ast.Delete)):
      return
    if isinstance(st, ast.Return):
      # `for a in S: if p(a): return X` with X independent of the element is an
      # existential test (any(..)): the same X whichever element matched first
      mentions = set()
      if st.value is not None:
        for n_ in ast.walk(st.value):
          if isinstance(n_, ast.Name):
            mentions.add(n_.id)
        # names bound by comprehensions inside the returned expression are its own
        for n_ in ast.walk(st.value):
          if isinstance(n_, ast.comprehension):
            for t_ in ast.walk(n_.target):
              if isinstance(t_, ast.Name):
                mentions.discard(t_.id)
      independent = not (mentions & set(loopvars))
      if not _const_like(st.value) and not independent and \
          not self._in_diag(self.par(fi), st.value):
        leaks.append((st, 'returns a value chosen by iteration order (first match)'))
      return
    if isinstance(st, (ast.Assign, ast.AnnAssign)):
      val = st.value
      targets = st.targets if isinstance(st, ast.Assign) else [st.target]
      if val is not None:
        self._expr_calls(fi, loop, val, leaks, chain)
      for t in targets:
        for tt in (t.elts if isinstance(t, (ast.Tuple, ast.List)) else [t]):
          self._store_in_loop(fi, loop, st, tt, val, leaks, chain)
      return
    if isinstance(st, ast.AugAssign):
      self._expr_calls(fi, loop, st.value, leaks, chain)
      t = st.target
      if isinstance(st.op, SET_OPS):
        if isinstance(t, ast.Subscript) and dotted(t.value):
          self._taint(self._key(fi, dotted(t.value)), 'dict', chain + [
              '%s inserts into %s in that order' % (fi.fq, dotted(t.value))])
        return
      if isinstance(st.op, ast.Add):
        if isinstance(t, ast.Subscript):
          return
        if self._numeric(fi, t, st.value):
          return
        v, why = self._grown(fi, t, st, chain)
        if v == 'leak':
          leaks.append((st, why))
        return
      return
    leaks.append((st, 'statement %s inside an unordered loop is not understood' %
                  type(st).__name__))

  def _numeric(self, fi, target, value):
    if isinstance(value, ast.Constant) and isinstance(value.value, (int, float)):
      return True
    if isinstance(value, (ast.List, ast.ListComp, ast.JoinedStr)) or \
        (isinstance(value, ast.Constant) and isinstance(value.value, str)):
      return False
    if isinstance(target, ast.Name):
      for d in self.ctx(fi).name_defs().get(target.id, []):
        if isinstance(d, ast.Constant) and isinstance(d.value, (int, float)) \
            and not isinstance(d.value, bool):
          return True
    return False

  def _store_in_loop(self, fi, loop, st, t, val, leaks, chain):
    ctx = self.ctx(fi)
    if isinstance(t, ast.Subscript):
      b = dotted(t.value)
      if b:
        self._taint(self._key(fi, b), 'dict', chain + [
            '%s inserts into %s in that order' % (fi.fq, b)])
      return
    if isinstance(t, ast.Name):
      if _const_like(val) or ctx.kind(val) == 'set':
        return
      end = getattr(loop, 'end_lineno', loop.lineno)
      for x in walk_local(fi.node):
        if isinstance(x, ast.Name) and x.id == t.id and isinstance(x.ctx, ast.Load) \
            and x.lineno > end:
          leaks.append((st, '`%s` keeps the value of the last iteration and is '
                        'read after the loop' % t.id))
          return
      return
    if isinstance(t, ast.Attribute):
      if _const_like(val):
        return
      blk = self._block_of(fi, loop)
      if blk is not None:
        after = blk[blk.index(loop) + 1:]
        for s2 in after:
          if isinstance(s2, ast.Assign) and any(norm(x) == norm(t) for x in s2.targets):
            return      # unconditionally overwritten after the loop
      leaks.append((st, '`%s` keeps the value of the last iteration' % norm(t, 40)))

  def _block_of(self, fi, stmt):
    for x in ast.walk(fi.node):
      for fld in ('body', 'orelse', 'finalbody'):
        b = getattr(x, fld, None)
        if isinstance(b, list) and stmt in b:
          return b
    return None

  def _expr_calls(self, fi, loop, e, leaks, chain):
    for c in walk_local(e):
      if isinstance(c, ast.Call):
        self._call_in_loop(fi, loop, c, leaks, chain)
      elif isinstance(c, (ast.Yield, ast.YieldFrom)):
        self._mark_returned(fi, 'seq', chain + ['%s yields inside the loop' % fi.fq])

  def _call_in_loop(self, fi, loop, c, leaks, chain):
    ctx = self.ctx(fi)
    t = call_tail(c)
    f = c.func
    if isinstance(f, ast.Attribute):
      recv = f.value
      rk = ctx.kind(recv)
      if t in SETGROW_METHODS and rk == 'set':
        return
      if t in ('update', 'setdefault') and rk != 'set':
        if dotted(recv):
          self._taint(self._key(fi, dotted(recv)), 'dict', chain + [
              '%s inserts into %s in that order' % (fi.fq, dotted(recv))])
        return
      if t in GROW_METHODS and rk != 'set':
        v, why = self._grown(fi, recv, c, chain)
        if v == 'leak':
          leaks.append((c, why))
        return
    if isinstance(f, ast.Name) and t in SANITISERS | MATERIALISERS | {
        'print', 'range', 'int', 'float', 'getattr', 'hasattr', 'abs', 'round'}:
      return
    if _is_diag_call(c):
      return
    tg = [self.an._ctor(x) for x in self.an.repo.resolve(fi, c)]
    tg = [x for x in tg if x in self.an.funcs]
    if not tg:
      self.unknown_calls += 1
      return
    for callee in tg:
      if callee in self.an.rename_walkers:
        continue
      bad = []
      for e in sorted(self.an.effects.get(callee, ())):
        if e == 'ALLOCATES':
          bad.append('numbers fresh names')
        elif e == 'EMITS':
          bad.append('emits statements')
        elif e.startswith('GROWS:'):
          bad.append('grows ' + e[len('GROWS:'):])
      if bad:
        leaks.append((c, 'calls %s, which in iteration order %s' % (
            callee, ', '.join(bad[:4]) + (' ...' if len(bad) > 4 else ''))))
        continue      # already a finding: do not propagate further taint
      for e in sorted(self._class_local_inserts(callee)):
        self._taint('attr:' + e, 'dict', chain + [
            '%s calls %s, which inserts into %s in that order' % (fi.fq, callee, e)])

  def _class_local_inserts(self, callee, seen=None):
    """Dict attributes of the callee's own class that the callee (or methods
    of the same class it calls) inserts into."""
    seen = seen if seen is not None else set()
    if callee in seen:
      return set()
    seen.add(callee)
    fi = self.an.funcs[callee]
    cls = fi_class(fi)
    out = set()
    for e in self.an.direct_effects.get(callee, ()):
      if e.startswith('INSERTS:') and cls and e[len('INSERTS:'):].startswith(cls + '.'):
        out.add(e[len('INSERTS:'):])
    if cls:
      for c in walk_local(fi.node):
        if isinstance(c, ast.Call):
          for t in self.an.repo.resolve(fi, c):
            if t in self.an.funcs and fi_class(self.an.funcs[t]) == cls:
              out |= self._class_local_inserts(t, seen)
    return out

  # -- phase 2 -----------------------------------------------------------------
  def _container_uses(self, key, tk, chain):
    kind, _, rest = key.partition(':')
    elem = tk.startswith('elem:')
    if kind == 'local':
      fq, _, name = rest.rpartition(':')
      fi = self.an.funcs.get(fq)
      if fi is None:
        return
      if name in fi.params and not tk.startswith('elem:'):
        self._propagate_param(fi, name, tk, chain)
      fns = [fi] + self._nested_closure(fi)
      for g in fns:
        for x in walk_local(g.node):
          if isinstance(x, ast.Name) and x.id == name and isinstance(x.ctx, ast.Load):
            if g is not fi and name in g.params:
              continue
            self._use(g, x, tk, chain, key)
      return
    if kind in ('global', 'unknown'):
      return
    attr = rest.split('.')[-1]
    cls = rest.split('.')[0]
    unique = self.an.attr_owner(attr) == cls
    for fi in self.an.funcs.values():
      for x in walk_local(fi.node):
        if isinstance(x, ast.Attribute) and x.attr == attr and isinstance(x.ctx, ast.Load):
          d = dotted(x)
          if d is None:
            continue
          if d.startswith('self.') and d.count('.') == 1:
            if fi_class(fi) != cls:
              continue
          elif not unique:
            continue
          self._use(fi, x, tk, chain, key)

  def _propagate_param(self, callee, pname, tk, chain):
    """A container received as parameter was grown in a tainted order: the
    caller's argument is tainted."""
    params = callee.params
    for fi in self.an.funcs.values():
      for c in walk_local(fi.node):
        if not isinstance(c, ast.Call):
          continue
        if callee.fq not in [self.an._ctor(x) for x in self.an.repo.resolve(fi, c)]:
          continue
        ps = params
        if callee.cls is not None and ps and ps[0] in ('self', 'cls') and \
            isinstance(c.func, ast.Attribute):
          ps = ps[1:]
        arg = None
        if pname in ps and ps.index(pname) < len(c.args):
          arg = c.args[ps.index(pname)]
        for k in c.keywords:
          if k.arg == pname:
            arg = k.value
        d = dotted(arg) if arg is not None else None
        if d:
          self._taint(self._key(fi, d), tk, chain + [
              '%s passes %s to it as `%s`' % (fi.fq, d, pname)])

  def _nested_closure(self, fi):
    out = []
    for s in fi.nested.values():
      out.append(s)
      out += self._nested_closure(s)
    return out

  def _use(self, fi, node, tk, chain, key):
    par = self.par(fi)
    if self.exempted(fi, node, key, 'use', chain):
      return
    if tk.startswith('elem:'):
      # a container whose *values* are tainted sequences: reading a value
      # yields a tainted sequence
      p = par.get(node)
      inner = tk[len('elem:'):]
      if isinstance(p, ast.Subscript) and p.value is node:
        if isinstance(p.ctx, ast.Store):
          return
        v, why = self._flow(fi, p, inner, chain, 0)
      elif isinstance(p, ast.Attribute) and p.attr in ('values', 'items', 'get'):
        v, why = self._flow(fi, par.get(p), 'seq', chain, 0) \
            if isinstance(par.get(p), ast.Call) else ('ok', '')
        if v == 'ok':
          return
      else:
        v, why = self._flow(fi, node, 'dict', chain + ['(container of tainted values)'], 0)
        # passing the container on: callee subscripting handled by param flow
      if v == 'leak':
        self.site(fi, node, key, 'use', 'leak', why, chain)
      return
    v, why = self._flow(fi, node, tk, chain, 0)
    if v == 'leak':
      self.site(fi, node, key, 'use', 'leak', why, chain)
    else:
      self.site(fi, node, key, 'use', 'ok', why, chain)

  def _call_sites_of(self, fqpos, tk, chain):
    fq, _, pos = fqpos.partition('#')
    pos = int(pos) if pos else None
    n = 0
    for fi in self.an.funcs.values():
      for c in walk_local(fi.node):
        if isinstance(c, ast.Call):
          tg = [self.an._ctor(x) for x in self.an.repo.resolve(fi, c)]
          if fq in tg:
            n += 1
            if self.exempted(fi, c, 'result of ' + fq, 'call-result', chain):
              continue
            p = self.par(fi).get(c)
            if pos is not None and isinstance(p, ast.Assign) and len(p.targets) == 1 \
                and isinstance(p.targets[0], ast.Tuple) and pos < len(p.targets[0].elts) \
                and isinstance(p.targets[0].elts[pos], ast.Name):
              v, why = self._uses_of(fi, p.targets[0].elts[pos].id, p, tk, chain, 1)
              if v == 'ok':
                why = 'every use of tuple element %d is order-insensitive' % pos
            else:
              v, why = self._flow(fi, c, tk, chain, 0)
            self.site(fi, c, 'result of ' + fq, 'call-result', v, why, chain)
    if n == 0:
      fi = self.an.funcs[fq]
      if self.exempted(fi, fi.node, 'result of ' + fq, 'call-result', chain):
        return
      self.site(fi, fi.node, 'result of ' + fq, 'call-result', 'leak',
                'returned from a function with no caller in the analysed '
                'modules (API surface)', chain)
