"""E2 - statement-level control-flow graph for one Python function.

Nodes are integers.  Every simple statement and every compound-statement
header (`if` test, loop header, `with` items) is one node; each branch of an
`if`/`while` gets a pseudo node (`branch`) so that "control dependent on the
test being true/false" is plain dominance by that pseudo node.

Exceptions: a statement inside a `try` body has an edge to every handler of
the innermost enclosing `try`; `raise`/failed `assert` outside any `try` go to
the RAISE exit.  Implicit exceptions of statements outside `try` are not
modelled (the rules reason about normal control flow and explicit raises).
`finally` bodies are sequenced after the try/handlers; a `return` inside a
`try` with `finally` goes straight to EXIT (approximation, recorded).
"""

import ast

from .model import AnalysisError, walk_local


class CFG(object):

  def __init__(self, fn):
    self.fn = fn
    self.succ = {}
    self.pred = {}
    self.kind = {}
    self.stmt = {}
    self.exprs = {}
    self.label = {}
    self.branch_of = {}      # pseudo node -> (header node, True/False)
    self._n = 0
    self.entry = self._new('entry')
    self.exit = self._new('exit')
    self.raise_exit = self._new('raise')
    self._loops = []
    self._tries = []
    outs = self._block(fn.body, [self.entry])
    for o in outs:
      self._edge(o, self.exit)
    self._dom = None
    self._pdom = None

  # -- construction ----------------------------------------------------------
  def _new(self, kind, stmt=None, exprs=None, label=None):
    i = self._n
    self._n += 1
    self.succ[i] = []
    self.pred[i] = []
    self.kind[i] = kind
    self.stmt[i] = stmt
    self.exprs[i] = exprs or []
    self.label[i] = label or kind
    return i

  def _edge(self, a, b):
    if b not in self.succ[a]:
      self.succ[a].append(b)
      self.pred[b].append(a)

  def _exc_edges(self, n):
    if self._tries:
      for h in self._tries[-1]:
        self._edge(n, h)

  def _block(self, stmts, preds):
    for st in stmts:
      preds = self._stmt(st, preds)
    return preds

  def _stmt(self, st, preds):
    if isinstance(st, ast.If):
      n = self._new('stmt', st, [st.test], 'if')
      for p in preds:
        self._edge(p, n)
      self._exc_edges(n)
      t = self._new('branch', st, label='if-true')
      f = self._new('branch', st, label='if-false')
      self.branch_of[t] = (n, True)
      self.branch_of[f] = (n, False)
      self._edge(n, t)
      self._edge(n, f)
      return self._block(st.body, [t]) + self._block(st.orelse, [f])
    if isinstance(st, (ast.For, ast.AsyncFor, ast.While)):
      if isinstance(st, ast.While):
        n = self._new('stmt', st, [st.test], 'while')
        const_true = (isinstance(st.test, ast.Constant) and bool(st.test.value))
      else:
        n = self._new('stmt', st, [st.iter, st.target], 'for')
        const_true = False
      for p in preds:
        self._edge(p, n)
      self._exc_edges(n)
      t = self._new('branch', st, label='loop-body')
      self.branch_of[t] = (n, True)
      self._edge(n, t)
      brk = []
      self._loops.append((n, brk))
      outs = self._block(st.body, [t])
      self._loops.pop()
      for o in outs:
        self._edge(o, n)
      after = []
      if not const_true:
        f = self._new('branch', st, label='loop-exit')
        self.branch_of[f] = (n, False)
        self._edge(n, f)
        after = self._block(st.orelse, [f])
      return after + brk
    if isinstance(st, (ast.With, ast.AsyncWith)):
      n = self._new('stmt', st, [i.context_expr for i in st.items], 'with')
      for p in preds:
        self._edge(p, n)
      self._exc_edges(n)
      return self._block(st.body, [n])
    if isinstance(st, ast.Try) or st.__class__.__name__ == 'TryStar':
      hs = [self._new('branch', h, label='except') for h in st.handlers]
      n = self._new('stmt', st, [], 'try')
      for p in preds:
        self._edge(p, n)
      self._tries.append(hs)
      body_out = self._block(st.body, [n])
      self._tries.pop()
      for h in hs:
        self._edge(n, h)   # conservatively: handler reachable from try entry
      else_out = self._block(st.orelse, body_out) if st.orelse else body_out
      outs = list(else_out)
      for h, hn in zip(st.handlers, hs):
        outs += self._block(h.body, [hn])
      if st.finalbody:
        outs = self._block(st.finalbody, outs)
      return outs
    if isinstance(st, ast.Return):
      n = self._new('stmt', st, [st.value] if st.value else [], 'return')
      for p in preds:
        self._edge(p, n)
      self._exc_edges(n)
      self._edge(n, self.exit)
      return []
    if isinstance(st, ast.Raise):
      n = self._new('stmt', st, [x for x in (st.exc, st.cause) if x], 'raise')
      for p in preds:
        self._edge(p, n)
      if self._tries:
        self._exc_edges(n)
      else:
        self._edge(n, self.raise_exit)
      return []
    if isinstance(st, ast.Break):
      n = self._new('stmt', st, [], 'break')
      for p in preds:
        self._edge(p, n)
      if not self._loops:
        raise AnalysisError('break outside loop')
      self._loops[-1][1].append(n)
      return []
    if isinstance(st, ast.Continue):
      n = self._new('stmt', st, [], 'continue')
      for p in preds:
        self._edge(p, n)
      self._edge(n, self._loops[-1][0])
      return []
    if isinstance(st, ast.Assert):
      n = self._new('stmt', st, [x for x in (st.test, st.msg) if x], 'assert')
      for p in preds:
        self._edge(p, n)
      if self._tries:
        self._exc_edges(n)
      else:
        self._edge(n, self.raise_exit)
      return [n]
    if st.__class__.__name__ == 'Match':
      raise AnalysisError('match statement not supported by the CFG builder')
    # simple statement (incl. nested def/class, which only bind a name)
    if isinstance(st, (ast.FunctionDef, ast.AsyncFunctionDef, ast.ClassDef)):
      n = self._new('stmt', st, [], 'def')
    else:
      n = self._new('stmt', st, [st], st.__class__.__name__.lower())
    for p in preds:
      self._edge(p, n)
    self._exc_edges(n)
    return [n]

  # -- queries ---------------------------------------------------------------
  def nodes(self):
    return list(self.succ)

  def stmt_nodes(self):
    return [i for i in self.succ if self.kind[i] == 'stmt']

  def sub_nodes(self, n, into_lambda=False):
    """AST nodes evaluated at CFG node n (not entering nested defs)."""
    for e in self.exprs[n]:
      for x in walk_local(e, into_lambda=into_lambda):
        yield x

  def nodes_where(self, pred, into_lambda=False):
    out = []
    for n in self.stmt_nodes():
      if any(pred(x) for x in self.sub_nodes(n, into_lambda)):
        out.append(n)
    return out

  def reachable(self, src=None, avoid=()):
    """Nodes reachable from src (default entry) on paths that never enter a
    node in `avoid` (src itself is allowed)."""
    src = self.entry if src is None else src
    avoid = set(avoid)
    seen = {src}
    stack = [src]
    while stack:
      a = stack.pop()
      for b in self.succ[a]:
        if b in seen or b in avoid:
          continue
        seen.add(b)
        stack.append(b)
    return seen

  def must_pass_before(self, target, through):
    """Every entry->target path passes through a node of `through`."""
    through = set(through) - {target}
    if target not in self.reachable():
      return True
    return target not in self.reachable(avoid=through)

  def must_pass_after(self, src, through, exits=None):
    """Every path src->normal exit passes through a node of `through`."""
    exits = [self.exit] if exits is None else exits
    through = set(through) - {src}
    r = self.reachable(src, avoid=through)
    return not any(e in r for e in exits)

  def dominators(self):
    if self._dom is None:
      self._dom = _dominators(self.succ, self.pred, self.entry)
    return self._dom

  def dominates(self, a, b):
    return a in self.dominators().get(b, ())

  def guarded_by(self, site, header, polarity):
    """site executes only after `header`'s test evaluated to `polarity`
    (on the most recent evaluation on every path)."""
    for b, (h, pol) in self.branch_of.items():
      if h == header and pol == polarity and self.dominates(b, site):
        return True
    return False

  def header_of(self, site):
    """All (header, polarity) pairs whose branch pseudo node dominates site."""
    out = []
    dom = self.dominators().get(site, ())
    for b, (h, pol) in self.branch_of.items():
      if b in dom:
        out.append((h, pol))
    return out

  def line(self, n):
    s = self.stmt[n]
    return getattr(s, 'lineno', 0) if s is not None else 0


def _dominators(succ, pred, entry):
  order = []
  seen = {entry}
  stack = [entry]
  while stack:
    a = stack.pop()
    order.append(a)
    for b in succ[a]:
      if b not in seen:
        seen.add(b)
        stack.append(b)
  allnodes = set(order)
  dom = {n: set(allnodes) for n in order}
  dom[entry] = {entry}
  changed = True
  while changed:
    changed = False
    for n in order:
      if n == entry:
        continue
      ps = [p for p in pred[n] if p in allnodes]
      new = set.intersection(*[dom[p] for p in ps]) if ps else set()
      new = new | {n}
      if new != dom[n]:
        dom[n] = new
        changed = True
  return dom


# ---------------------------------------------------------------------------
# boolean structure of tests


def implied_true(test):
  """Expressions that are necessarily truthy when `test` is truthy."""
  out = []
  if isinstance(test, ast.BoolOp) and isinstance(test.op, ast.And):
    for v in test.values:
      out += implied_true(v)
  elif isinstance(test, ast.UnaryOp) and isinstance(test.op, ast.Not):
    out += [('not', x) for x in _plain(implied_false(test.operand))]
    return out
  else:
    out.append(test)
  return out


def implied_false(test):
  """Expressions that are necessarily falsy when `test` is falsy."""
  out = []
  if isinstance(test, ast.BoolOp) and isinstance(test.op, ast.Or):
    for v in test.values:
      out += implied_false(v)
  elif isinstance(test, ast.UnaryOp) and isinstance(test.op, ast.Not):
    return [('not', x) for x in _plain(implied_true(test.operand))]
  else:
    out.append(test)
  return out


def _plain(xs):
  return [x for x in xs if not isinstance(x, tuple)]


def truthy_facts(test, polarity):
  """(expr, value) facts established by test evaluating to `polarity`."""
  facts = []
  src = implied_true(test) if polarity else implied_false(test)
  for x in src:
    if isinstance(x, tuple):
      facts.append((x[1], not polarity))
    else:
      facts.append((x, polarity))
  return facts
