"""Obligation bookkeeping, evidence / replay writers, known-findings matching."""

import json
import os
import time

from .model import AnalysisError, Repo, norm

VERIF = os.path.dirname(os.path.dirname(os.path.abspath(__file__)))
EVIDENCE_DIR = os.environ.get('VERIF_EVIDENCE_DIR') or os.path.join(VERIF, 'evidence')
REPLAY_DIR = os.path.join(EVIDENCE_DIR, 'replay')
KNOWN = os.path.join(VERIF, 'known_findings.json')


def load_known():
  if not os.path.exists(KNOWN):
    return []
  with open(KNOWN) as f:
    return json.load(f).get('findings', [])


class Check(object):
  """One run of one property's rules."""

  def __init__(self, pid, tier='quick', root='/repo', seed=0):
    self.pid = pid
    self.tier = tier
    self.seed = seed
    self.repo = Repo(root, tier)
    self.t0 = time.time()
    self.obligations = []     # dicts
    self.infos = []
    self.rules = {}           # rule id -> description
    self.assumptions = []
    self.extra = {}
    self.more_evaluations = 0   # cases enumerated inside single obligations
    self.min_instances = {}   # rule id -> minimal obligation count
    self.known = [k for k in load_known() if k.get('property') == pid]

  # -- recording ---------------------------------------------------------------
  def rule(self, rid, text, min_instances=1):
    self.rules[rid] = text
    self.min_instances[rid] = min_instances

  def assume(self, text):
    if text not in self.assumptions:
      self.assumptions.append(text)

  def ob(self, rid, ok, where, construct, why='', fi=None, node=None,
         nontrivial=True):
    """Record one obligation.

    where: 'file:qualname' string or FuncInfo; construct: short normalised
    text identifying the construct (no line numbers)."""
    if fi is not None:
      file, qual = fi.module.relpath, fi.qualname
      line = getattr(node if node is not None else fi.node, 'lineno', 0)
    else:
      file, _, qual = where.partition(':')
      line = getattr(node, 'lineno', 0) if node is not None else 0
    if not isinstance(construct, str):
      construct = norm(construct)
    self.obligations.append(dict(
        rule=rid, ok=bool(ok), file=file, qualname=qual, line=line,
        construct=construct, why=why, nontrivial=nontrivial))
    return bool(ok)

  def info(self, text):
    self.infos.append(text)

  # -- finishing -------------------------------------------------------------
  def _is_known(self, o):
    for k in self.known:
      if (k.get('rule') == o['rule'] and k.get('file') == o['file'] and
          k.get('qualname') == o['qualname'] and
          k.get('construct') == o['construct']):
        return k
    return None

  def finish(self):
    for n in getattr(self.repo, 'role_notes', [])[:30]:
      self.info('variable identified by role: ' + n)
    # vacuity guard
    counts = {}
    for o in self.obligations:
      counts[o['rule']] = counts.get(o['rule'], 0) + 1
    for rid, need in self.min_instances.items():
      if counts.get(rid, 0) < need:
        raise AnalysisError(
            'rule %s matched %d constructs, fewer than the %d confirmed by '
            'hand: the anchor pattern is no longer recognised' %
            (rid, counts.get(rid, 0), need))
    failed = [o for o in self.obligations if not o['ok']]
    known_lines = []
    violations = []
    for o in failed:
      k = self._is_known(o)
      if k is not None:
        known_lines.append(
            'KNOWN-FINDING: property=%s %s %s:%s `%s` -- %s' %
            (self.pid, o['rule'], o['file'], o['qualname'], o['construct'],
             k.get('what', o['why'])))
      else:
        violations.append(o)
    os.makedirs(EVIDENCE_DIR, exist_ok=True)
    replay_paths = []
    if violations:
      os.makedirs(REPLAY_DIR, exist_ok=True)
      for i, o in enumerate(violations):
        p = os.path.join(REPLAY_DIR, '%s-%d.json' % (self.pid, i))
        with open(p, 'w') as f:
          json.dump(dict(property=self.pid, rule=o['rule'],
                         rule_text=self.rules.get(o['rule'], ''),
                         construct=dict(file=o['file'], qualname=o['qualname'],
                                        line=o['line'], text=o['construct']),
                         explanation=o['why']), f, indent=1)
        replay_paths.append(p)
    distinct = set()
    for o in self.obligations:
      if o['nontrivial']:
        distinct.add((o['rule'], o['file'], o['qualname'], o['construct']))
    samples = []
    seen_rules = {}
    for o in self.obligations:
      c = seen_rules.get(o['rule'], 0)
      if c < 3:
        seen_rules[o['rule']] = c + 1
        samples.append('%s %s:%s `%s` -> %s' % (
            o['rule'], o['file'], o['qualname'], o['construct'],
            'discharged' if o['ok'] else 'FAILED: ' + o['why']))
    for o in failed:
      s = '%s %s:%s `%s` -> FAILED: %s' % (
          o['rule'], o['file'], o['qualname'], o['construct'], o['why'])
      if s not in samples:
        samples.append(s)
    coverage = dict(
        explanation=' | '.join('%s: %s' % (r, t)
                               for r, t in sorted(self.rules.items())),
        rule=('one evaluation = one rule instance applied to one construct '
              '(function, call site, table entry, abstract input) found in '
              "/repo's current source; distinct+nontrivial = distinct "
              '(rule, file, function, construct) keys that matched a real '
              'construct'),
        evaluations=len(self.obligations) + self.more_evaluations,
        distinct_nontrivial=len(distinct),
        obligations=len(self.obligations),
        discharged=len(self.obligations) - len(failed),
        per_rule=counts,
        samples=samples[:60],
        known_findings=len(known_lines),
        information=self.infos[:40],
    )
    coverage.update(self.extra)
    ev = dict(property_id=self.pid, tier=self.tier, seed=self.seed,
              level='other', coverage=coverage,
              assumptions=self.assumptions,
              wall_s=round(time.time() - self.t0, 3),
              violations=len(violations))
    with open(os.path.join(EVIDENCE_DIR, self.pid + '.json'), 'w') as f:
      json.dump(ev, f, indent=1, ensure_ascii=False)
      f.write('\n')
    for l in known_lines:
      print(l)
    for o, p in zip(violations, replay_paths):
      print('%s %s:%s:%d `%s`: %s' % (o['rule'], o['file'], o['qualname'],
                                      o['line'], o['construct'], o['why']))
      print('VIOLATION property=%s replay=%s' % (self.pid, p))
    if violations:
      return 1
    print('OK property=%s obligations=%d rules=%d wall=%.2fs' % (
        self.pid, len(self.obligations), len(self.rules),
        time.time() - self.t0))
    return 0
