"""Shape-independent view of list-building functions.

`result = []; for a in X: for b in Y: result.append(a + b); return result`
and `return [a + b for a in X for b in Y]` build the same list.  productions()
gives both as the same description, so that a rule about what is built does
not depend on which spelling the code uses."""

import ast

from .model import call_tail, walk_local


class Production(object):
  """One contribution to the list a function returns: `elt` is appended
  (kind 'append') or its elements are (kind 'extend'), once for every binding
  of the generators `gens` = [(target, iter)] that satisfies `conds`."""

  def __init__(self, kind, elt, gens, conds, node):
    self.kind, self.elt, self.gens, self.conds, self.node = kind, elt, gens, conds, node


def _returned_names(fn):
  out = set()
  for x in walk_local(fn):
    if isinstance(x, ast.Return) and isinstance(x.value, ast.Name):
      out.add(x.value.id)
  return out


def productions(fn):
  out = []
  # comprehensions returned directly (or through a local returned as is)
  direct = []
  for x in walk_local(fn):
    if isinstance(x, ast.Return) and isinstance(x.value, ast.ListComp):
      direct.append(x.value)
  res = _returned_names(fn)
  for x in walk_local(fn):
    if isinstance(x, ast.Assign) and isinstance(x.value, ast.ListComp) and \
        any(isinstance(t, ast.Name) and t.id in res for t in x.targets):
      direct.append(x.value)
  for c in direct:
    out.append(Production('append', c.elt, [(g.target, g.iter) for g in c.generators],
                          [i for g in c.generators for i in g.ifs], c))

  # accumulation into a returned local inside loops
  def visit(stmts, gens, conds):
    for st in stmts:
      if isinstance(st, (ast.For, ast.AsyncFor)):
        visit(st.body, gens + [(st.target, st.iter)], conds)
        visit(st.orelse, gens, conds)
      elif isinstance(st, ast.While):
        visit(st.body, gens + [(None, st.test)], conds)
      elif isinstance(st, ast.If):
        visit(st.body, gens, conds + [st.test])
        visit(st.orelse, gens, conds + [ast.UnaryOp(op=ast.Not(), operand=st.test)])
      elif isinstance(st, (ast.With, ast.AsyncWith)):
        visit(st.body, gens, conds)
      elif isinstance(st, ast.Try):
        visit(st.body, gens, conds)
        for h in st.handlers:
          visit(h.body, gens, conds)
        visit(st.orelse, gens, conds)
        visit(st.finalbody, gens, conds)
      elif isinstance(st, ast.Expr) and isinstance(st.value, ast.Call) and \
          isinstance(st.value.func, ast.Attribute) and isinstance(st.value.func.value, ast.Name) \
          and st.value.func.value.id in res and st.value.args:
        t = call_tail(st.value)
        if t == 'append':
          out.append(Production('append', st.value.args[0], gens, conds, st))
        elif t == 'extend':
          out.append(Production('extend', st.value.args[0], gens, conds, st))
      elif isinstance(st, ast.AugAssign) and isinstance(st.op, ast.Add) and \
          isinstance(st.target, ast.Name) and st.target.id in res:
        out.append(Production('extend', st.value, gens, conds, st))
  visit(fn.body, [], [])
  return out


def target_names(t):
  return [x.id for x in ast.walk(t) if isinstance(x, ast.Name)] if t is not None else []
