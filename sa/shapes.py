"""Shape-independent view of list-building functions.

`result = []; for a in X: for b in Y: result.append(a + b); return result`
and `return [a + b for a in X for b in Y]` build the same list.  productions()
gives both as the same description, so that a rule about what is built does
not depend on which spelling the code uses."""

import ast

from .model import call_tail, walk_local


class Production(object):
  """One contribution to the list a function returns: `elt` is appended
  (kind 'append') or its elements are (kind 'extend'), once for every binding
  of the generators `gens` = [(target, iter)] that satisfies `conds`."""

  def __init__(self, kind, elt, gens, conds, node):
    self.kind, self.elt, self.gens, self.conds, self.node = kind, elt, gens, conds, node


def _returned_names(fn):
  out = set()
  for x in walk_local(fn):
    if isinstance(x, ast.Return) and isinstance(x.value, ast.Name):
      out.add(x.value.id)
  return out


def productions(fn, extra=()):
  """extra: names of further local lists to describe (besides returned ones)."""
  out = []
  # comprehensions returned directly (or through a local returned as is)
  direct = []
  for x in walk_local(fn):
    if isinstance(x, ast.Return) and isinstance(x.value, ast.ListComp):
      direct.append(x.value)
  res = _returned_names(fn) | set(extra)
  for x in walk_local(fn):
    if isinstance(x, ast.Assign) and isinstance(x.value, ast.ListComp) and \
        any(isinstance(t, ast.Name) and t.id in res for t in x.targets):
      direct.append(x.value)
  for c in direct:
    out.append(Production('append', c.elt, [(g.target, g.iter) for g in c.generators],
                          [i for g in c.generators for i in g.ifs], c))
  # list(itertools.chain.from_iterable(X)) / list(chain(*X)): every element of
  # every member of X, i.e. `for d in X: result.extend(d)`
  for x in walk_local(fn):
    v = None
    if isinstance(x, ast.Return):
      v = x.value
    elif isinstance(x, ast.Assign) and any(isinstance(t, ast.Name) and t.id in res for t in x.targets):
      v = x.value
    if isinstance(v, ast.Call) and call_tail(v) in ('list', 'tuple') and len(v.args) == 1:
      v = v.args[0]
    if isinstance(v, ast.Call):
      src = None
      if call_tail(v) == 'from_iterable' and len(v.args) == 1:
        src = v.args[0]
      elif call_tail(v) == 'chain' and len(v.args) == 1 and isinstance(v.args[0], ast.Starred):
        src = v.args[0].value
      if src is not None:
        d = ast.Name(id='_member', ctx=ast.Load())
        out.append(Production('extend', d, [(ast.Name(id='_member', ctx=ast.Store()), src)], [], x))

  # accumulation into a returned local inside loops
  def visit(stmts, gens, conds):
    for st in stmts:
      if isinstance(st, (ast.For, ast.AsyncFor)):
        visit(st.body, gens + [(st.target, st.iter)], conds)
        visit(st.orelse, gens, conds)
      elif isinstance(st, ast.While):
        visit(st.body, gens + [(None, st.test)], conds)
      elif isinstance(st, ast.If):
        visit(st.body, gens, conds + [st.test])
        visit(st.orelse, gens, conds + [ast.UnaryOp(op=ast.Not(), operand=st.test)])
      elif isinstance(st, (ast.With, ast.AsyncWith)):
        visit(st.body, gens, conds)
      elif isinstance(st, ast.Try):
        visit(st.body, gens, conds)
        for h in st.handlers:
          visit(h.body, gens, conds)
        visit(st.orelse, gens, conds)
        visit(st.finalbody, gens, conds)
      elif isinstance(st, ast.Expr) and isinstance(st.value, ast.Call) and \
          isinstance(st.value.func, ast.Attribute) and isinstance(st.value.func.value, ast.Name) \
          and st.value.func.value.id in res and st.value.args:
        t = call_tail(st.value)
        if t == 'append':
          out.append(Production('append', st.value.args[0], gens, conds, st))
        elif t == 'extend':
          out.append(Production('extend', st.value.args[0], gens, conds, st))
      elif isinstance(st, ast.AugAssign) and isinstance(st.op, ast.Add) and \
          isinstance(st.target, ast.Name) and st.target.id in res:
        out.append(Production('extend', st.value, gens, conds, st))
  visit(fn.body, [], [])
  return out


def target_names(t):
  return [x.id for x in ast.walk(t) if isinstance(x, ast.Name)] if t is not None else []


# ---------------------------------------------------------------------------
# stores into trees a function was handed


MUTATORS = {'append', 'extend', 'insert', 'pop', 'remove', 'clear', 'update',
            'setdefault', 'sort', 'reverse', 'popitem', 'add', 'discard'}
SHALLOW = {'dict', 'list', 'tuple', 'set', 'sorted', 'reversed', 'copy', 'items',
           'values', 'keys', 'get', 'enumerate', 'zip', 'filter', 'map', 'iter', 'next'}


def stores_into_arguments(fn, params, shared=()):
  """[(node, text)] places where the function writes into an object it was
  handed (or into anything reachable from it): x[k] = v, del x[k], x.append(..)
  where x is a parameter, part of one, or an element obtained by iterating one.
  Levels: 0 = the very object is shared with the caller; 1 = a fresh container
  (dict(p), list(p), a comprehension over p, p.copy()) whose ELEMENTS are
  shared - storing into the container itself is fine, into x[k][j] is not.
  copy.deepcopy(..) gives an unshared object."""
  level = {p: 0 for p in params}

  shared = set(shared)

  def lvl(e):
    """sharing level of the value of e: 0, 1 or None (not shared)."""
    if shared and isinstance(e, ast.Attribute) and _text(e) in shared:
      return 0             # an attribute that holds an object of the caller
    if isinstance(e, ast.Name):
      return level.get(e.id)
    if isinstance(e, (ast.Subscript, ast.Attribute)):
      b = lvl(e.value)
      return 0 if b is not None else None
    if isinstance(e, ast.Call):
      t = call_tail(e)
      if t == 'deepcopy':
        return None
      args = list(e.args)
      if isinstance(e.func, ast.Attribute):
        args.append(e.func.value)
      if t in SHALLOW and any(lvl(a) is not None for a in args):
        return 1
      return None
    if isinstance(e, (ast.ListComp, ast.SetComp, ast.GeneratorExp, ast.DictComp)):
      if any(lvl(g.iter) is not None for g in e.generators):
        return 1
      return None
    if isinstance(e, (ast.List, ast.Tuple, ast.Set)):
      return 1 if any(lvl(x) is not None for x in e.elts) else None
    if isinstance(e, ast.Dict):
      return 1 if any(lvl(x) is not None for x in e.values if x is not None) else None
    if isinstance(e, ast.IfExp):
      ls = [lvl(e.body), lvl(e.orelse)]
      ls = [x for x in ls if x is not None]
      return min(ls) if ls else None
    if isinstance(e, ast.BoolOp):
      ls = [lvl(v) for v in e.values]
      ls = [x for x in ls if x is not None]
      return min(ls) if ls else None
    return None
  nodes = list(walk_local(fn))
  changed = True
  rounds = 0
  while changed and rounds < 10:
    changed = False
    rounds += 1
    for x in nodes:
      pairs = []
      if isinstance(x, ast.Assign):
        for t in x.targets:
          pairs.append((t, x.value, False))
      elif isinstance(x, ast.For):
        # (variables of comprehensions live in their own scope: a name reused
        # by a later statement-level loop is a different variable)
        pairs.append((x.target, x.iter, True))
      elif isinstance(x, ast.NamedExpr):
        pairs.append((x.target, x.value, False))
      for t, v, element in pairs:
        l = lvl(v)
        if l is None:
          continue
        if element:
          l = 0                      # elements of a shared or shallow container are shared
        for n in ast.walk(t):
          if isinstance(n, ast.Name) and isinstance(n.ctx, ast.Store):
            # tuple unpacking of a shared value gives shared parts
            nl = 0 if isinstance(t, (ast.Tuple, ast.List)) else l
            if level.get(n.id, 9) > nl:
              level[n.id] = nl
              changed = True
  bad = []
  for x in nodes:
    tg = []
    if isinstance(x, ast.Assign):
      tg = x.targets
    elif isinstance(x, ast.AugAssign):
      tg = [x.target]
    elif isinstance(x, ast.Delete):
      tg = x.targets
    for t in tg:
      for s in ([t] if not isinstance(t, (ast.Tuple, ast.List)) else t.elts):
        if isinstance(s, (ast.Subscript, ast.Attribute)) and lvl(s.value) == 0:
          bad.append((x, _text(s)))
    if isinstance(x, ast.Call) and isinstance(x.func, ast.Attribute) and \
        x.func.attr in MUTATORS and lvl(x.func.value) == 0:
      bad.append((x, _text(x.func)))
  return bad


def _text(e):
  try:
    return ast.unparse(e)[:60]
  except Exception:
    return '?'
