"""Static-analysis engines for the logica verification battery (see DESIGN.md section 2)."""
