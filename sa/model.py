"""E1 - program model: modules, classes, functions, imports, call resolution.

Pure `ast`; nothing under the analysed repository is imported or executed.
"""

import ast
import os


class AnalysisError(Exception):
  """An anchor vanished / a pattern is no longer recognisable (exit code 2)."""


PIPELINE = [
    'parser_py/parse.py',
    'parser_cpp/logica_parse_cpp.py',
    'compiler/universe.py',
    'compiler/rule_translate.py',
    'compiler/expr_translate.py',
    'compiler/functors.py',
    'compiler/dialects.py',
    'compiler/dialect_libraries/bq_library.py',
    'compiler/dialect_libraries/clickhouse_library.py',
    'compiler/dialect_libraries/databricks_library.py',
    'compiler/dialect_libraries/duckdb_library.py',
    'compiler/dialect_libraries/presto_library.py',
    'compiler/dialect_libraries/psql_library.py',
    'compiler/dialect_libraries/recursion_library.py',
    'compiler/dialect_libraries/sqlite_library.py',
    'compiler/dialect_libraries/trino_library.py',
    'type_inference/research/infer.py',
    'type_inference/research/reference_algebra.py',
    'type_inference/research/types_of_builtins.py',
    'common/sqlite3_logica.py',
    'common/concertina_lib.py',
    'common/color.py',
    'tools/run_in_terminal.py',
    'logica.py',
]


class FuncInfo(object):

  def __init__(self, module, qualname, node, cls, parent):
    self.module = module
    self.qualname = qualname          # relative to module, e.g. 'QL.StrLiteral'
    self.node = node
    self.cls = cls                    # enclosing class name or None
    self.parent = parent              # enclosing FuncInfo or None
    self.nested = {}                  # name -> FuncInfo

  @property
  def fq(self):
    return '%s.%s' % (self.module.name, self.qualname)

  @property
  def name(self):
    return self.node.name

  @property
  def params(self):
    a = self.node.args
    return [x.arg for x in a.posonlyargs + a.args + a.kwonlyargs]

  def where(self, node=None):
    n = node if node is not None else self.node
    return '%s:%s:%d' % (self.module.relpath, self.qualname,
                         getattr(n, 'lineno', 0))

  def __repr__(self):
    return '<Func %s>' % self.fq


class ClassInfo(object):

  def __init__(self, module, name, node):
    self.module = module
    self.name = name
    self.node = node
    self.methods = {}                 # name -> FuncInfo
    self.bases = [dotted(b) for b in node.bases]

  @property
  def fq(self):
    return '%s.%s' % (self.module.name, self.name)


class Module(object):

  def __init__(self, repo, relpath):
    self.repo = repo
    self.relpath = relpath
    self.path = os.path.join(repo.root, relpath)
    self.name = os.path.splitext(os.path.basename(relpath))[0]
    try:
      with open(self.path, encoding='utf-8') as f:
        self.source = f.read()
    except OSError as e:
      raise AnalysisError('module missing: %s (%s)' % (relpath, e))
    try:
      self.tree = ast.parse(self.source, filename=self.path)
    except SyntaxError as e:
      raise AnalysisError('cannot parse %s: %s' % (relpath, e))
    # variables are identified by role, not by name (sa/roles.py)
    from sa import inline, roles
    inline.undo_callable_aliases(relpath, self.tree, repo.role_notes)
    inline.undo_extract_method(relpath, self.tree, repo.role_notes,
                               lambda name: repo.mentioned_outside(relpath, name))
    roles.align(relpath, self.tree, repo.role_notes)
    self.funcs = {}
    self.classes = {}
    self.imports = {}                 # alias -> module short name
    self.imported_names = {}          # alias -> (module short name, name)
    self._index()
    # names know where they stand (used to read a named constant as its
    # definition: sa/tables.py)
    for x in ast.walk(self.tree):
      if isinstance(x, ast.Name):
        x._mod = self
    for fi in self.funcs.values():
      for x in walk_local(fi.node):
        if isinstance(x, ast.Name):
          x._fi = fi

  def _index(self):
    for node in ast.walk(self.tree):
      if isinstance(node, ast.ImportFrom):
        for a in node.names:
          # `from compiler import dialects` / `from ..compiler import dialects`
          self.imports[a.asname or a.name] = a.name
          if node.module:
            self.imported_names[a.asname or a.name] = (
                node.module.split('.')[-1], a.name)
      elif isinstance(node, ast.Import):
        for a in node.names:
          self.imports[a.asname or a.name.split('.')[0]] = a.name

    def visit(body, prefix, cls, parent):
      for st in body:
        if isinstance(st, (ast.FunctionDef, ast.AsyncFunctionDef)):
          q = prefix + st.name
          fi = FuncInfo(self, q, st, cls.name if cls else None, parent)
          self.funcs[q] = fi
          if parent is not None:
            parent.nested[st.name] = fi
          if cls is not None and parent is None:
            cls.methods[st.name] = fi
          visit_nested(st, q + '.', cls if parent is None else None, fi)
        elif isinstance(st, ast.ClassDef):
          ci = ClassInfo(self, prefix + st.name, st)
          self.classes[prefix + st.name] = ci
          visit(st.body, prefix + st.name + '.', ci, parent)
        else:
          # function definitions nested in if/for/try/with blocks
          for fld in ('body', 'orelse', 'finalbody', 'handlers'):
            sub = getattr(st, fld, None)
            if isinstance(sub, list):
              stmts = []
              for s in sub:
                if isinstance(s, ast.ExceptHandler):
                  stmts.extend(s.body)
                elif isinstance(s, ast.stmt):
                  stmts.append(s)
              if stmts:
                visit(stmts, prefix, cls, parent)

    def visit_nested(fn, prefix, cls_unused, fi):
      visit(fn.body, prefix, None, fi)

    visit(self.tree.body, '', None, None)

  def func(self, qualname):
    if qualname not in self.funcs:
      # a nested function moved to module level (or back), or a method moved
      # between a class and the module: the same function when exactly one
      # function of the module has that name
      mv = getattr(self.tree, '_moved', {}).get(qualname)
      if mv in self.funcs:
        self.funcs[qualname] = self.funcs[mv]
        return self.funcs[mv]
      last = qualname.split('.')[-1]
      same = [q for q in self.funcs if q.split('.')[-1] == last]
      if len(same) == 1 and '.' in qualname + same[0]:
        self.repo.role_notes.append('%s: function %s is the one the rules call %s' % (
            self.relpath, same[0], qualname))
        self.funcs[qualname] = self.funcs[same[0]]
        return self.funcs[same[0]]
      raise AnalysisError('anchor missing: function %s in %s' %
                          (qualname, self.relpath))
    return self.funcs[qualname]

  def cls(self, name):
    if name not in self.classes:
      raise AnalysisError('anchor missing: class %s in %s' %
                          (name, self.relpath))
    return self.classes[name]

  def has_func(self, qualname):
    return qualname in self.funcs

  def module_assign(self, name):
    """Value node of the last top-level assignment `name = ...`."""
    val = None
    for st in self.tree.body:
      if isinstance(st, ast.Assign):
        for t in st.targets:
          if isinstance(t, ast.Name) and t.id == name:
            val = st.value
    if val is None:
      raise AnalysisError('anchor missing: module-level %s in %s' %
                          (name, self.relpath))
    return val

  def class_assign(self, cls, name):
    ci = self.cls(cls)
    val = None
    for st in ci.node.body:
      if isinstance(st, ast.Assign):
        for t in st.targets:
          if isinstance(t, ast.Name) and t.id == name:
            val = st.value
    if val is None:
      raise AnalysisError('anchor missing: %s.%s in %s' %
                          (cls, name, self.relpath))
    return val

  def line(self, node):
    return getattr(node, 'lineno', 0)


class Repo(object):

  def __init__(self, root='/repo', tier='quick'):
    self.root = root
    self.tier = tier
    self._mods = {}
    self._method_index = None
    self._resolve_cache = {}
    self.role_notes = []

  def mentioned_outside(self, relpath, name):
    """does any other Python file of the pipeline mention `name`?"""
    import re
    pat = re.compile(r'\b%s\b' % re.escape(name))
    cache = self.__dict__.setdefault('_texts', {})
    for rel in PIPELINE:
      if rel == relpath:
        continue
      if rel not in cache:
        try:
          with open(os.path.join(self.root, rel), encoding='utf-8') as f:
            cache[rel] = f.read()
        except OSError:
          cache[rel] = ''
      if pat.search(cache[rel]):
        return True
    return False

  def mod(self, relpath):
    if relpath not in self._mods:
      self._mods[relpath] = Module(self, relpath)
    return self._mods[relpath]

  def by_name(self, name):
    for rel in PIPELINE:
      if os.path.splitext(os.path.basename(rel))[0] == name:
        return self.mod(rel)
    # a module added next to the known ones (a new dialect library ...)
    for d in sorted({os.path.dirname(rel) for rel in PIPELINE}):
      rel = os.path.join(d, name + '.py')
      if os.path.exists(os.path.join(self.root, rel)):
        return self.mod(rel)
    raise AnalysisError('unknown module name: %s' % name)

  def pipeline(self, only=None):
    out = []
    for rel in PIPELINE:
      if only and rel not in only:
        continue
      if os.path.exists(os.path.join(self.root, rel)):
        out.append(self.mod(rel))
    return out

  def all_python(self):
    """Every *.py of the repository (thorough tier)."""
    out = []
    for d, dirs, files in os.walk(self.root):
      dirs[:] = [x for x in dirs if x not in ('.git', '__pycache__')]
      for f in sorted(files):
        if f.endswith('.py'):
          rel = os.path.relpath(os.path.join(d, f), self.root)
          try:
            out.append(self.mod(rel))
          except AnalysisError:
            pass
    return out

  def func(self, fq):
    """'universe.LogicaProgram.SingleRuleSql' -> FuncInfo."""
    modname, _, qual = fq.partition('.')
    return self.by_name(modname).func(qual)

  # -- method index for class-hierarchy-by-name resolution -------------------
  def method_index(self):
    if self._method_index is None:
      idx = {}
      for m in self.pipeline():
        for ci in m.classes.values():
          for name, fi in ci.methods.items():
            idx.setdefault(name, []).append(fi)
      self._method_index = idx
    return self._method_index

  def resolve(self, fi, call):
    # keyed by identity; the node is kept alive with its entry so that the id
    # of a temporary (cloned) node can never be taken over by another node
    key = id(call)
    ent = self._resolve_cache.get(key)
    if ent is None or ent[0] is not call:
      ent = (call, self._resolve(fi, call))
      self._resolve_cache[key] = ent
    return ent[1]

  def _resolve(self, fi, call):
    """Resolve a Call node inside function `fi` to a list of fq names.

    Returns [] when the callee is a builtin/stdlib/unknown name and
    ['?name'] style entries are never produced: unresolved is [].
    """
    f = call.func
    m = fi.module
    if isinstance(f, ast.Name):
      p = fi
      while p is not None:
        if f.id in p.nested:
          return [p.nested[f.id].fq]
        p = p.parent
      if f.id in m.funcs:
        return [m.funcs[f.id].fq]
      if f.id in m.classes:
        return [m.classes[f.id].fq]
      return []
    if isinstance(f, ast.Attribute):
      base = dotted(f.value)
      meth = f.attr
      if base in ('self', 'cls') and fi_class(fi) is not None:
        got = self._lookup_method(m, fi_class(fi), meth)
        if got:
          return [got.fq]
      if base is not None and '.' not in base:
        if base in m.imports and base not in ('self', 'cls'):
          target = m.imports[base]
          try:
            tm = self.by_name(target.split('.')[-1])
          except AnalysisError:
            tm = None
          if tm is not None:
            if meth in tm.funcs:
              return [tm.funcs[meth].fq]
            if meth in tm.classes:
              return [tm.classes[meth].fq]
            return []
          return []
        if base in m.classes:
          got = self._lookup_method(m, base, meth)
          if got:
            return [got.fq]
      if base is not None and base.count('.') == 1:
        b0, b1 = base.split('.')
        if b0 in m.imports:
          try:
            tm = self.by_name(m.imports[b0].split('.')[-1])
          except AnalysisError:
            tm = None
          if tm is not None and b1 in tm.classes:
            got = self._lookup_method(tm, b1, meth)
            if got:
              return [got.fq]
      # receiver of unknown type: every pipeline class defining the method
      # (class-hierarchy analysis by name).  Dunder methods and super()
      # receivers are not resolved this way: they would connect everything.
      if meth.startswith('__') or (
          isinstance(f.value, ast.Call) and dotted(f.value.func) == 'super'):
        return []
      if isinstance(f.value, ast.Constant):
        return []
      return sorted(x.fq for x in self.method_index().get(meth, []))
    return []

  def _lookup_method(self, m, clsname, meth, depth=0):
    ci = m.classes.get(clsname)
    if ci is None or depth > 8:
      return None
    if meth in ci.methods:
      return ci.methods[meth]
    for b in ci.bases:
      if b and b in m.classes:
        got = self._lookup_method(m, b, meth, depth + 1)
        if got:
          return got
    return None

  def lookup_method(self, m, clsname, meth):
    return self._lookup_method(m, clsname, meth)

  def flat_class(self, m, clsname):
    """The class as its instances behave: every method it defines or inherits
    (from classes of the same module), with calls of its own helper methods
    (`self._hook(..)`, resolved for THIS class) read in place.  A template
    method in a base class with hooks overridden per subclass is thereby the
    same as the spelled-out method the rules were written against."""
    key = (m.relpath, clsname)
    cache = self.__dict__.setdefault('_flat', {})
    if key in cache:
      return cache[key]
    ci = m.classes.get(clsname)
    if ci is None:
      raise AnalysisError('anchor missing: class %s in %s' % (clsname, m.relpath))
    # effective methods along the inheritance chain (own first)
    eff, order, seen = {}, [ci], {clsname}
    i = 0
    while i < len(order):
      c = order[i]
      i += 1
      for name, fi in c.methods.items():
        eff.setdefault(name, fi)
      for b in c.bases:
        if b in m.classes and b not in seen:
          seen.add(b)
          order.append(m.classes[b])
    if len(order) == 1:
      cache[key] = ci
      return ci
    from . import inline
    body = [clone(fi.node) for fi in eff.values()]
    cd = ast.ClassDef(name=clsname, bases=[], keywords=[], body=body, decorator_list=[])
    tree = ast.Module(body=[cd], type_ignores=[])
    ast.fix_missing_locations(tree)
    public = {n for n in eff if not n.startswith('_') or n.startswith('__')}
    helpers = {'%s.%s' % (clsname, n) for n in eff if n not in public}
    inl = inline.Inliner(tree, helpers, set())
    inl.run()
    flat = ClassInfo(m, clsname, cd)
    for st in cd.body:
      if isinstance(st, (ast.FunctionDef, ast.AsyncFunctionDef)):
        f2 = FuncInfo(m, '%s.%s' % (clsname, st.name), st, clsname, None)
        flat.methods[st.name] = f2
        for x in walk_local(st):
          if isinstance(x, ast.Name):
            x._mod = m
            x._fi = f2
    cache[key] = flat
    return flat


def fi_class(fi):
  p = fi
  while p is not None:
    if p.cls is not None:
      return p.cls
    p = p.parent
  return None


# ---------------------------------------------------------------------------
# small AST helpers


def dotted(e):
  """'a.b.c' for Name/Attribute chains, else None."""
  parts = []
  while isinstance(e, ast.Attribute):
    parts.append(e.attr)
    e = e.value
  if isinstance(e, ast.Name):
    parts.append(e.id)
    return '.'.join(reversed(parts))
  return None


def call_name(call):
  return dotted(call.func) if isinstance(call, ast.Call) else None


def call_tail(call):
  f = call.func
  if isinstance(f, ast.Attribute):
    return f.attr
  if isinstance(f, ast.Name):
    return f.id
  return None


_SCOPE = (ast.FunctionDef, ast.AsyncFunctionDef, ast.Lambda, ast.ClassDef)


def walk_local(node, into_lambda=True, include_root=True):
  """Pre-order, source-order walk that does not enter nested def/class.
  Results for function / module nodes are memoised on the node."""
  if isinstance(node, (ast.FunctionDef, ast.AsyncFunctionDef, ast.Module)):
    cache = node.__dict__.setdefault('_wl_cache', {})
    key = (into_lambda, include_root)
    if key not in cache:
      cache[key] = list(_walk_local(node, into_lambda, include_root))
    return cache[key]
  return _walk_local(node, into_lambda, include_root)


def _walk_local(node, into_lambda=True, include_root=True):
  stack = [(node, True)]
  while stack:
    n, is_root = stack.pop()
    if not is_root or include_root:
      yield n
    if not is_root:
      if isinstance(n, (ast.FunctionDef, ast.AsyncFunctionDef, ast.ClassDef)):
        continue
      if isinstance(n, ast.Lambda) and not into_lambda:
        continue
    stack.extend((c, False) for c in reversed(list(ast.iter_child_nodes(n))))


def calls_in(node, into_lambda=True):
  return [n for n in walk_local(node, into_lambda) if isinstance(n, ast.Call)]


def const_str(e):
  if isinstance(e, ast.Constant) and isinstance(e.value, str):
    return e.value
  return None


def kwarg(call, name, pos=None):
  for k in call.keywords:
    if k.arg == name:
      return k.value
  if pos is not None and pos < len(call.args):
    return call.args[pos]
  return None


def unparse(n):
  try:
    return ast.unparse(n)
  except Exception:  # pragma: no cover
    return '<%s>' % type(n).__name__


def norm(n, limit=160):
  s = ' '.join(unparse(n).split())
  return s if len(s) <= limit else s[:limit] + '...'


def literal(node):
  """ast.literal_eval with AnalysisError."""
  try:
    return ast.literal_eval(node)
  except Exception as e:
    raise AnalysisError('not a literal: %s (%s)' % (norm(node, 60), e))


def str_constants(node):
  return [n.value for n in ast.walk(node)
          if isinstance(n, ast.Constant) and isinstance(n.value, str)]


def names_read(node):
  return {n.id for n in ast.walk(node)
          if isinstance(n, ast.Name) and isinstance(n.ctx, ast.Load)}


def tables_const_strings(c):
  """constant string(s) denoted by a comparator: 'x' -> ['x'] (for ==) or the
  characters (for `in 'xyz'`), ('a', 'b') -> ['a', 'b']; None when not constant."""
  if isinstance(c, ast.Constant) and isinstance(c.value, str):
    return [c.value] if len(c.value) <= 1 else [c.value] + list(c.value)
  if isinstance(c, (ast.Tuple, ast.List, ast.Set)) and all(
      isinstance(e, ast.Constant) and isinstance(e.value, str) for e in c.elts):
    return [e.value for e in c.elts]
  return None


def clone(node):
  """Deep copy of an AST subtree that keeps the back references the model
  attaches to names (`_mod`, `_fi`) shared instead of copying what they point
  to (copy.deepcopy would copy the whole repository model)."""
  if isinstance(node, list):
    return [clone(x) for x in node]
  if not isinstance(node, ast.AST):
    return node
  new = node.__class__()
  for f in node._fields:
    if hasattr(node, f):
      setattr(new, f, clone(getattr(node, f)))
  for a in ('lineno', 'col_offset', 'end_lineno', 'end_col_offset', '_mod', '_fi'):
    if hasattr(node, a):
      setattr(new, a, getattr(node, a))
  return new
