"""E9 - facts about parser_cpp/logica_parse.cpp from clang's resolved JSON AST.

clang is used as a front end only (-fsyntax-only); nothing is compiled or run.
"""

import ast as pyast
import json
import os
import shutil
import subprocess

from .model import AnalysisError

CPP = 'parser_cpp/logica_parse.cpp'


def _decode_literal(src):
  """C string literal source form -> Python str."""
  s = src
  for pre in ('u8', 'u', 'U', 'L'):
    if s.startswith(pre + '"') or s.startswith(pre + "'"):
      s = s[len(pre):]
  if s.startswith('R"'):
    # raw literal R"delim( ... )delim"
    i = s.index('(')
    delim = s[2:i]
    return s[i + 1:len(s) - len(delim) - 2]
  try:
    v = pyast.literal_eval(s)
    if isinstance(v, bytes):
      v = v.decode('utf-8', 'replace')
    return v
  except Exception:
    return s.strip('"')


class CppFunc(object):

  def __init__(self, name, decl):
    self.name = name
    self.decls = [decl]
    self.line = decl.get('loc', {}).get('line') or decl.get('loc', {}).get(
        'expansionLoc', {}).get('line', 0)
    self._facts = None

  def facts(self):
    if self._facts is None:
      f = dict(strings=[], chars=[], calls=[], keys=set(), throws=0,
               call_args=[], compared=set(), assigns=[], events=[])
      for d in self.decls:
        _walk(d, f, [], in_throw=False)
      self._facts = f
    return self._facts


def _callee_name(node):
  """Name of the function / method a call expression resolves to."""
  inner = node.get('inner') or []
  if not inner:
    return None
  stack = [inner[0]]
  while stack:
    n = stack.pop(0)
    k = n.get('kind')
    if k == 'DeclRefExpr':
      rd = n.get('referencedDecl') or {}
      return rd.get('name')
    if k == 'MemberExpr':
      return n.get('name')
    if k in ('UnresolvedLookupExpr', 'UnresolvedMemberExpr'):
      return n.get('name')
    stack = list(n.get('inner') or []) + stack
  return None


def _string_of(node):
  """The string literal directly denoted by an argument expression (through
  implicit casts / temporaries), else None."""
  n = node
  hops = 0
  while n is not None and hops < 12:
    hops += 1
    k = n.get('kind')
    if k == 'StringLiteral':
      return _decode_literal(n.get('value', '""'))
    inner = n.get('inner') or []
    if len(inner) != 1 and k not in ('CXXConstructExpr', 'CXXFunctionalCastExpr',
                                      'CXXTemporaryObjectExpr', 'MaterializeTemporaryExpr',
                                      'CXXBindTemporaryExpr', 'ImplicitCastExpr',
                                      'ExprWithCleanups', 'CXXDefaultArgExpr'):
      return None
    if not inner:
      return None
    n = inner[0]
  return None


# namespace-level variables of the translation unit (id -> VarDecl): a
# reference to one of them from a function body stands for its initialiser, so
# that moving a literal table out of a function into a named constant is not a
# difference
_NSVARS = {}


def _walk(n, f, path, in_throw):
  k = n.get('kind')
  if k == 'DeclRefExpr':
    rd = n.get('referencedDecl') or {}
    if rd.get('kind') == 'FunctionDecl' and id(n) not in f.setdefault('_callees', set()):
      # a function named without being called (a dispatch table entry, a
      # callback): an alternative that is tried through the table
      f['calls'].append(rd.get('name'))
      f['events'].append(('call', rd.get('name'), in_throw))
    d = _NSVARS.get(rd.get('id'))
    if d is not None and rd.get('id') not in path:
      for c in d.get('inner') or []:
        if isinstance(c, dict) and c:
          _walk(c, f, path + [rd.get('id')], in_throw)
    return
  if k == 'CXXThrowExpr':
    f['throws'] += 1 if 'ParsingException' in json.dumps(n.get('inner', []))[:4000] or True else 0
    in_throw = True
  if k == 'StringLiteral':
    v = _decode_literal(n.get('value', '""'))
    f['strings'].append((v, in_throw, 'CXXForRangeStmt' in path))
    f['events'].append(('str', v, in_throw))
  elif k == 'CharacterLiteral':
    try:
      f['chars'].append((chr(n.get('value', 0)), in_throw))
    except (ValueError, TypeError):
      pass
  elif k in ('CallExpr', 'CXXMemberCallExpr', 'CXXOperatorCallExpr'):
    name = _callee_name(n)
    # the callee expression itself is not a table entry
    stack_ = list((n.get('inner') or [])[:1])
    while stack_:
      q_ = stack_.pop()
      if q_.get('kind') == 'DeclRefExpr':
        f.setdefault('_callees', set()).add(id(q_))
        break
      stack_ = list(q_.get('inner') or [])[:1] + stack_
    if name:
      f['calls'].append(name)
      f['events'].append(('call', name, in_throw))
      args = (n.get('inner') or [])[1:]
      strs = [_string_of(a) for a in args]
      f['call_args'].append((name, strs, in_throw))
      if name == 'operator[]' and len(strs) >= 2 and strs[1] is not None:
        f['keys'].add(strs[1])
      if name == 'operator[]' and len(strs) == 1 and strs[0] is not None:
        f['keys'].add(strs[0])
      if name in ('at', 'count', 'contains', 'find', 'erase', 'HasKey'):
        for s in strs:
          if s is not None:
            f['keys'].add(s)
      if name in ('operator==', 'operator!='):
        for s in strs:
          if s is not None:
            f['compared'].add(s)
        for a in (n.get('inner') or [])[1:]:
          s = _string_of(a)
          if s is not None:
            f['compared'].add(s)
  elif k == 'InitListExpr':
    # JsonObject{{"key", value}, ...}: first element of an inner pair
    inner = n.get('inner') or []
    if len(inner) == 2:
      s = _string_of(inner[0])
      if s is not None and 'Json' in json.dumps(n.get('type', {})) + json.dumps(
          inner[1].get('type', {}))[:200]:
        f['keys'].add(s)
  elif k == 'CXXConstructExpr' and 'pair' in json.dumps(n.get('type', {})):
    inner = n.get('inner') or []
    if len(inner) == 2:
      s = _string_of(inner[0])
      if s is not None:
        f['keys'].add(s)
  # std::string_view("@_.").find(c): the literal is a character class, like
  # the range of `for (char c : std::string("@_."))`
  class_find = False
  if k == 'CXXMemberCallExpr' and _callee_name(n) in ('find', 'find_first_of') :
    args = (n.get('inner') or [])[1:]
    if args and all(_string_of(a) is None for a in args):
      class_find = True
  for i_, c in enumerate(n.get('inner') or []):
    if isinstance(c, dict) and c:
      _walk(c, f, path + [k] + (['CXXForRangeStmt'] if class_find and i_ == 0 else []), in_throw)


class CppModel(object):

  def __init__(self, root):
    self.root = root
    src = os.path.join(root, CPP)
    if not os.path.exists(src):
      raise AnalysisError('module missing: %s' % CPP)
    clang = shutil.which('clang++') or shutil.which('clang++-14')
    if not clang:
      raise AnalysisError('clang++ not available: the C++ parser cannot be analysed')
    cmd = [clang, '-std=c++20', '-fsyntax-only', '-Xclang', '-ast-dump=json',
           '-Xclang', '-ast-dump-filter=logica::parser::', '-DLOGICA_PARSE_LIBRARY', CPP]
    p = subprocess.run(cmd, cwd=root, capture_output=True, text=True, timeout=1200)
    if p.returncode != 0 or not p.stdout.strip():
      raise AnalysisError('clang could not parse %s: %s' % (CPP, p.stderr[-400:]))
    self.decls = []
    dec = json.JSONDecoder()
    s = p.stdout
    i = 0
    n = len(s)
    while i < n:
      while i < n and s[i].isspace():
        i += 1
      if i >= n:
        break
      obj, i = dec.raw_decode(s, i)
      self.decls.append(obj)
    self.funcs = {}
    self.vars = {}
    _NSVARS.clear()
    for d in self.decls:
      self._index(d, '')
    if len(self.funcs) < 60:
      raise AnalysisError('only %d C++ parser functions found' % len(self.funcs))

  def _index(self, d, prefix):
    k = d.get('kind')
    if k in ('FunctionDecl', 'CXXMethodDecl', 'CXXConstructorDecl'):
      if not any(c.get('kind') == 'CompoundStmt' for c in d.get('inner') or []):
        return
      name = prefix + d.get('name', '?')
      if name in self.funcs:
        self.funcs[name].decls.append(d)
      else:
        self.funcs[name] = CppFunc(name, d)
    elif k == 'CXXRecordDecl':
      for c in d.get('inner') or []:
        if isinstance(c, dict):
          self._index(c, d.get('name', '?') + '::')
    elif k == 'VarDecl':
      self.vars[d.get('name')] = d
      qt = (d.get('type') or {}).get('qualType', '')
      if prefix == '' and (d.get('constexpr') or qt.startswith('const ') or ' const' in qt):
        _NSVARS[d.get('id')] = d      # constants only: a mutable global is state, not a table

  def func(self, name):
    if name not in self.funcs:
      raise AnalysisError('anchor missing: C++ function %s' % name)
    return self.funcs[name]

  def var_strings(self, name):
    """String / char literals in the initialiser of a namespace-level var."""
    d = self.vars.get(name)
    if d is None:
      return None
    f = dict(strings=[], chars=[], calls=[], keys=set(), throws=0,
             call_args=[], compared=set(), assigns=[], events=[])
    _walk(d, f, [], False)
    return f

  def ordered_strings(self, name, helpers=(), _seen=None):
    """non-diagnostic string literals of a function in source order, with the
    strings of helper functions inserted where they are called."""
    seen = set(_seen or ()) | {name}
    out = []
    for kind, v, thr in self.func(name).facts()['events']:
      if kind == 'str':
        if not thr:
          out.append(v)
      elif v in helpers and v in self.funcs and v not in seen:
        out += self.ordered_strings(v, helpers, seen)
    return out

  def writers_of(self, varname):
    """Functions that assign the namespace-level variable."""
    out = []
    for name, fn in self.funcs.items():
      for d in fn.decls:
        if _assigns(d, varname):
          out.append(name)
    return sorted(set(out))


def _assigns(n, varname):
  k = n.get('kind')
  if k in ('BinaryOperator', 'CXXOperatorCallExpr', 'CompoundAssignOperator'):
    inner = n.get('inner') or []
    is_assign = n.get('opcode') == '=' or (k == 'CXXOperatorCallExpr' and
                                           _callee_name(n) == 'operator=')
    if is_assign:
      lhs = inner[0] if k != 'CXXOperatorCallExpr' else (inner[1] if len(inner) > 1 else {})
      stack = [lhs]
      while stack:
        x = stack.pop()
        if x.get('kind') == 'DeclRefExpr' and (x.get('referencedDecl') or {}).get('name') == varname:
          return True
        stack += [c for c in (x.get('inner') or []) if isinstance(c, dict)]
  for c in n.get('inner') or []:
    if isinstance(c, dict) and c and _assigns(c, varname):
      return True
  return False


def assign_paths(fn_decl, varname):
  """('all' | 'some' | 'none'): does the function assign varname on every path
  (looks at if/else structure of the top-level statements)."""
  body = None
  for c in fn_decl.get('inner') or []:
    if c.get('kind') == 'CompoundStmt':
      body = c
  if body is None:
    return 'none'

  def stmt_assigns(st):
    k = st.get('kind')
    if k == 'IfStmt':
      inner = [c for c in st.get('inner') or [] if isinstance(c, dict)]
      # cond, then, [else]
      branches = inner[1:]
      has_else = st.get('hasElse', len(branches) >= 2)
      res = [block_assigns(b) for b in branches]
      if has_else and len(res) >= 2 and all(r == 'all' for r in res[:2]):
        return 'all'
      if any(r != 'none' for r in res):
        return 'some'
      return 'none'
    if k == 'CompoundStmt':
      return block_assigns(st)
    if _assigns(st, varname):
      return 'all'
    return 'none'

  def block_assigns(b):
    if b.get('kind') != 'CompoundStmt':
      return stmt_assigns(b)
    some = False
    for st in b.get('inner') or []:
      if not isinstance(st, dict):
        continue
      r = stmt_assigns(st)
      if r == 'all':
        return 'all'
      if r == 'some':
        some = True
    return 'some' if some else 'none'
  return block_assigns(body)
