"""String-literal lexers of the eight SQL dialects (the trusted base of C10-R1)
and a SQL-aware bracket / quote scanner (C09-R3).

decode(dialect, text) reads ONE string literal token starting at text[0] and
returns (decoded value, index after the token) or raises LexError.
"""


class LexError(Exception):
  pass


# dialect name (as returned by <Dialect>.Name()) -> lexical family
FAMILY = {
    'SqLite': 'standard',         # '...' with '' ; backslash is an ordinary char
    'PostgreSQL': 'standard',     # standard_conforming_strings = on (default)
    'Presto': 'standard',
    'Trino': 'standard',
    'ClickHouse': 'backslash',    # '...' with '' AND backslash escapes
    'DuckDB': 'e-string',         # the compiler emits E'...' literals
    'BigQuery': 'double',         # "..." with backslash escapes
    'Databricks': 'double',
}

_SIMPLE = {'n': '\n', 't': '\t', 'r': '\r', 'b': '\b', 'f': '\f', '0': '\0',
           'a': '\a', 'v': '\v', '\\': '\\', "'": "'", '"': '"', '`': '`',
           '/': '/', '?': '?'}


def _escape(text, i, what):
  """Decode the escape starting at text[i] == '\\'; returns (chars, next i)."""
  if i + 1 >= len(text):
    raise LexError('%s: backslash at end of input' % what)
  c = text[i + 1]
  if c in _SIMPLE:
    return _SIMPLE[c], i + 2
  if c == 'x' and i + 3 < len(text) + 0 and all(
      ch in '0123456789abcdefABCDEF' for ch in text[i + 2:i + 4]) and len(text[i + 2:i + 4]) == 2:
    return chr(int(text[i + 2:i + 4], 16)), i + 4
  if c == 'u' and len(text[i + 2:i + 6]) == 4 and all(
      ch in '0123456789abcdefABCDEF' for ch in text[i + 2:i + 6]):
    return chr(int(text[i + 2:i + 6], 16)), i + 6
  # unknown escape: engines either keep the backslash or drop it; both differ
  # from the data unless the original had exactly that, so report literally
  return '\\' + c, i + 2


def decode(dialect, text):
  fam = FAMILY.get(dialect)
  if fam is None:
    raise LexError('no lexical rules for dialect %r' % dialect)
  if fam == 'standard':
    return _quoted(text, 0, "'", backslash=False, doubling=True, newline_ok=True)
  if fam == 'backslash':
    return _quoted(text, 0, "'", backslash=True, doubling=True, newline_ok=True)
  if fam == 'e-string':
    if not text.startswith("E'"):
      raise LexError("expected E'...' literal")
    v, end = _quoted(text, 1, "'", backslash=True, doubling=True, newline_ok=True)
    return v, end
  if fam == 'double':
    return _quoted(text, 0, '"', backslash=True, doubling=False, newline_ok=False)
  raise LexError('unknown family')


def _quoted(text, start, q, backslash, doubling, newline_ok):
  if start >= len(text) or text[start] != q:
    raise LexError('expected opening %s' % q)
  i = start + 1
  out = []
  while True:
    if i >= len(text):
      raise LexError('unterminated string literal')
    c = text[i]
    if c == q:
      if doubling and i + 1 < len(text) and text[i + 1] == q:
        out.append(q)
        i += 2
        continue
      return ''.join(out), i + 1
    if backslash and c == '\\':
      chars, i = _escape(text, i, 'string')
      out.append(chars)
      continue
    if c == '\n' and not newline_ok:
      raise LexError('raw newline inside a %s-quoted literal' % q)
    out.append(c)
    i += 1


# ---------------------------------------------------------------------------
# SQL-aware balance scanner

OPEN = {'(': ')', '[': ']', '{': '}'}
CLOSE = {v: k for k, v in OPEN.items()}


class ScanState(object):

  def __init__(self):
    self.stack = []
    self.quote = None      # None | "'" | '"' | '`' | '--' | '/*' | '$$'
    self.estring = False
    self.error = None

  def copy(self):
    s = ScanState()
    s.stack = list(self.stack)
    s.quote = self.quote
    s.estring = self.estring
    s.error = self.error
    return s

  def balanced(self):
    return not self.stack and self.quote in (None, '--') and self.error is None

  def describe(self):
    if self.error:
      return self.error
    if self.quote not in (None, '--'):
      return 'inside %s' % self.quote
    if self.stack:
      return 'unclosed %s' % ''.join(self.stack)
    return 'balanced'


def scan(text, st=None, braces=True):
  """Advance the scanner over literal SQL text."""
  st = st or ScanState()
  i = 0
  n = len(text)
  while i < n:
    c = text[i]
    if st.quote == "'":
      if c == '\\' and st.estring and i + 1 < n:
        i += 2
        continue
      if c == "'":
        if i + 1 < n and text[i + 1] == "'":
          i += 2
          continue
        st.quote = None
        st.estring = False
      i += 1
      continue
    if st.quote == '"':
      if c == '\\' and i + 1 < n:
        i += 2
        continue
      if c == '"':
        st.quote = None
      i += 1
      continue
    if st.quote == '`':
      if c == '`':
        st.quote = None
      i += 1
      continue
    if st.quote == '--':
      if c == '\n':
        st.quote = None
      i += 1
      continue
    if st.quote == '/*':
      if text.startswith('*/', i):
        st.quote = None
        i += 2
        continue
      i += 1
      continue
    if st.quote == '$$':
      if text.startswith('$$', i):
        st.quote = None
        i += 2
        continue
      i += 1
      continue
    # not inside anything
    if c == "'":
      st.quote = "'"
      st.estring = i > 0 and text[i - 1] in 'Ee' and (i < 2 or not text[i - 2].isalnum())
    elif c == '"':
      st.quote = '"'
    elif c == '`':
      st.quote = '`'
    elif text.startswith('--', i):
      st.quote = '--'
      i += 2
      continue
    elif text.startswith('/*', i):
      st.quote = '/*'
      i += 2
      continue
    elif text.startswith('$$', i):
      st.quote = '$$'
      i += 2
      continue
    elif c in OPEN and (braces or c != '{'):
      st.stack.append(c)
    elif c in CLOSE and (braces or c != '}'):
      if st.stack and st.stack[-1] == CLOSE[c]:
        st.stack.pop()
      else:
        st.error = 'closing %s matches nothing' % c
        return st
    i += 1
  return st
