"""Identification of local variables by role rather than by name.

The rules of this checker talk about variables of /repo's functions ("the list
the per-rule SQL is appended to", "the flag set from 'distinct_denoted' in
rule").  They were written against the names the pinned tree uses.  Renaming a
local variable or a parameter is the most common behaviour-preserving edit, so
before any rule runs every function of the current tree is aligned with the
reference recorded from the pinned tree (sa/roles_ref.json, produced by
tools/gen_roles.py):

  * a local that has the reference name is that variable (fast path, nothing
    is computed);
  * for reference names that no longer exist, and current locals the reference
    does not know, a fingerprint is computed for each: the multiset of the
    statements (headers for compound statements) the variable occurs in, with
    the variable itself, the other locals and the parameters (by position)
    made anonymous.  Each vanished reference name is identified with the
    unknown local whose fingerprint is closest (weighted Jaccard, greedy,
    threshold), and the in-memory AST is renamed back to the reference name;
  * parameters are aligned by position.

Only the in-memory AST the rules read is renamed (positions are untouched, so
reports still point at the right line); each identification is reported in the
evidence.  The verdict never depends on the reference: it only says which
variable a rule is talking about.  When no candidate is close enough nothing is
renamed and the rule that needs the variable reports the vanished anchor as
before.
"""

import ast
import collections
import copy
import hashlib
import json
import os

REF = os.path.join(os.path.dirname(os.path.abspath(__file__)), 'roles_ref.json')
THRESHOLD = 0.3

FUNC = (ast.FunctionDef, ast.AsyncFunctionDef)
COMP = (ast.ListComp, ast.SetComp, ast.DictComp, ast.GeneratorExp)


def params(fn):
  a = fn.args
  ps = [p.arg for p in a.posonlyargs + a.args]
  if a.vararg:
    ps.append(a.vararg.arg)
  ps += [p.arg for p in a.kwonlyargs]
  if a.kwarg:
    ps.append(a.kwarg.arg)
  return ps


def bound_names(fn):
  """names bound in fn's own scope, in order of first binding; excludes
  parameters, nested def names, global / nonlocal declared names and except
  handler names (the latter are strings in the AST)."""
  out, declared, skip = [], set(), set()

  def add(n):
    if n not in out:
      out.append(n)

  def targets(t):
    if isinstance(t, ast.Name):
      add(t.id)
    elif isinstance(t, (ast.Tuple, ast.List)):
      for e in t.elts:
        targets(e)
    elif isinstance(t, ast.Starred):
      targets(t.value)

  def walk(node):
    for ch in ast.iter_child_nodes(node):
      if isinstance(ch, FUNC + (ast.ClassDef,)):
        skip.add(ch.name)
        continue
      if isinstance(ch, ast.Lambda):
        continue
      if isinstance(ch, (ast.Global, ast.Nonlocal)):
        declared.update(ch.names)
      elif isinstance(ch, ast.Assign):
        for t in ch.targets:
          targets(t)
      elif isinstance(ch, (ast.AugAssign, ast.AnnAssign)):
        targets(ch.target)
      elif isinstance(ch, (ast.For, ast.AsyncFor)):
        targets(ch.target)
      elif isinstance(ch, (ast.With, ast.AsyncWith)):
        for it in ch.items:
          if it.optional_vars is not None:
            targets(it.optional_vars)
      elif isinstance(ch, ast.ExceptHandler) and ch.name:
        skip.add(ch.name)
      elif isinstance(ch, ast.NamedExpr):
        targets(ch.target)
      if isinstance(ch, COMP):
        # targets of comprehensions live in their own scope
        for g in ch.generators:
          walk(g.iter)
          for c in g.ifs:
            walk(c)
        for f in ('elt', 'key', 'value'):
          if hasattr(ch, f):
            walk(getattr(ch, f))
        continue
      walk(ch)
  walk(fn)
  ps = set(params(fn))
  return [n for n in out if n not in declared and n not in ps and n not in skip]


def functions(tree):
  """qualified name (Class.method, func.nested) -> node, as sa/model.py names them."""
  out = {}

  def visit(body, prefix):
    for st in body:
      if isinstance(st, FUNC):
        out[prefix + st.name] = st
        visit_nested(st, prefix + st.name + '.')
      elif isinstance(st, ast.ClassDef):
        visit(st.body, prefix + st.name + '.')
      elif isinstance(st, (ast.If, ast.Try, ast.With, ast.For, ast.While)):
        for f in ('body', 'orelse', 'finalbody'):
          visit(getattr(st, f, []) or [], prefix)
        for h in getattr(st, 'handlers', []):
          visit(h.body, prefix)

  def visit_nested(fn, prefix):
    for x in ast.walk(fn):
      if x is fn:
        continue
    # direct nesting only, at any statement depth
    stack = list(fn.body)
    while stack:
      st = stack.pop()
      if isinstance(st, FUNC):
        if prefix + st.name not in out:
          out[prefix + st.name] = st
          visit_nested(st, prefix + st.name + '.')
        continue
      if isinstance(st, ast.ClassDef):
        visit(st.body, prefix + st.name + '.')
        continue
      for f in ('body', 'orelse', 'finalbody'):
        stack.extend(getattr(st, f, []) or [])
      for h in getattr(st, 'handlers', []):
        stack.extend(h.body)
  visit(tree.body, '')
  return out


# ---------------------------------------------------------------------------
# fingerprints


def _headers(fn):
  """the statements of fn (nested functions included: free uses count), each as
  the node whose text characterises it: simple statements whole, compound
  statements by their header."""
  out = []

  def body(stmts):
    for st in stmts:
      if isinstance(st, FUNC):
        body(st.body)
      elif isinstance(st, ast.ClassDef):
        body(st.body)
      elif isinstance(st, (ast.If, ast.While)):
        out.append(('if', st.test))
        body(st.body)
        body(st.orelse)
      elif isinstance(st, (ast.For, ast.AsyncFor)):
        out.append(('for', ast.Tuple(elts=[st.target, st.iter], ctx=ast.Load())))
        body(st.body)
        body(st.orelse)
      elif isinstance(st, (ast.With, ast.AsyncWith)):
        for it in st.items:
          out.append(('with', it.context_expr))
          if it.optional_vars is not None:
            out.append(('as', it.optional_vars))
        body(st.body)
      elif isinstance(st, ast.Try):
        body(st.body)
        for h in st.handlers:
          body(h.body)
        body(st.orelse)
        body(st.finalbody)
      elif hasattr(ast, 'Match') and isinstance(st, ast.Match):
        out.append(('match', st.subject))
        for c in st.cases:
          body(c.body)
      elif isinstance(st, (ast.Nonlocal, ast.Global)):
        continue       # a declaration, it names variables as strings
      else:
        out.append(('s', st))
  body(fn.body)
  return out


def _names(node):
  """(Name nodes that refer to the function's scope, Name nodes bound by a
  comprehension or lambda inside `node`)."""
  free, bound = [], []

  def walk(n, shadow):
    if isinstance(n, ast.Name):
      (bound if n.id in shadow else free).append(n)
      return
    if isinstance(n, COMP):
      sh = set(shadow)
      for g in n.generators:
        for x in ast.walk(g.target):
          if isinstance(x, ast.Name):
            sh.add(x.id)
      walk(n.generators[0].iter, shadow)
      for i, g in enumerate(n.generators):
        if i:
          walk(g.iter, sh)
        walk(g.target, sh)
        for c in g.ifs:
          walk(c, sh)
      for f in ('elt', 'key', 'value'):
        if hasattr(n, f):
          walk(getattr(n, f), sh)
      return
    if isinstance(n, ast.Lambda):
      sh = set(shadow) | set(params(n))
      walk(n.body, sh)
      return
    for ch in ast.iter_child_nodes(n):
      walk(ch, shadow)
  walk(node, frozenset())
  return free, bound


def _h(s):
  return hashlib.sha1(s.encode('utf-8')).hexdigest()[:10]


def nested_names(fn):
  """names bound (as locals or parameters) by functions nested in fn."""
  out = set()
  for x in ast.walk(fn):
    if isinstance(x, FUNC) and x is not fn:
      out |= set(bound_names(x)) | set(params(x))
  return out


def fingerprints(fn, wanted=None):
  """{local name: sorted list of context hashes}."""
  ps = params(fn)
  pidx = {p: i for i, p in enumerate(ps)}
  locs = set(bound_names(fn))
  inner = nested_names(fn) - locs - set(ps)
  fp = collections.defaultdict(list)
  for kind, node in _headers(fn):
    names, shadowed = _names(node)
    mentioned = {x.id for x in names if x.id in locs}
    if wanted is not None:
      mentioned &= wanted
    if not mentioned and not shadowed:
      continue
    saved = [(x, x.id) for x in names] + [(x, x.id) for x in shadowed]
    sh = set(map(id, shadowed))
    try:
      for v in mentioned:
        for x, orig in saved:
          if id(x) in sh:
            x.id = 'C__'          # comprehension / lambda variable: its own scope
          elif orig == v:
            x.id = 'V__'
          elif orig in locs:
            x.id = 'L__'
          elif orig in pidx:
            x.id = 'P%d__' % pidx[orig]
          elif orig in inner:
            x.id = 'N__'
          else:
            x.id = orig
        try:
          text = kind + ':' + ast.unparse(node)
        except Exception:       # synthetic nodes without positions still unparse; be safe
          text = kind + ':' + ast.dump(node)
        fp[v].append(_h(text))
    finally:
      for x, orig in saved:
        x.id = orig
  return {k: sorted(v) for k, v in fp.items()}


def outer_names_of(q, fns):
  """variables of the functions enclosing the nested function q."""
  out = set()
  while '.' in q:
    q = q.rsplit('.', 1)[0]
    if q in fns:
      out |= set(bound_names(fns[q])) | set(params(fns[q]))
  return out


def body_fingerprint(fn, outer=()):
  """statements of the function with every variable (local, parameter,
  variable of an enclosing function) and the function's own name anonymous:
  the same for a function that was renamed or moved (nested <-> module level,
  closure variables <-> explicit parameters)."""
  ps = params(fn)
  pidx = {p: i for i, p in enumerate(ps)}
  locs = set(bound_names(fn)) | set(outer)
  inner = nested_names(fn) - locs - set(ps)
  out = []
  for kind, node in _headers(fn):
    names, shadowed = _names(node)
    saved = [(x, x.id) for x in names] + [(x, x.id) for x in shadowed]
    sh = set(map(id, shadowed))
    try:
      for x, orig in saved:
        if id(x) in sh:
          x.id = 'C__'
        elif orig in locs or orig in pidx:
          x.id = 'V__'
        elif orig in inner:
          x.id = 'N__'
        elif orig == fn.name:
          x.id = 'SELF__'
      try:
        text = kind + ':' + ast.unparse(node)
      except Exception:
        text = kind + ':' + ast.dump(node)
      out.append(_h(text))
    finally:
      for x, orig in saved:
        x.id = orig
  return sorted(out)


def similarity(a, b):
  ca, cb = collections.Counter(a), collections.Counter(b)
  inter = sum((ca & cb).values())
  union = sum((ca | cb).values())
  return inter / union if union else 0.0


# ---------------------------------------------------------------------------
# renaming inside one function scope


def _rename(fn, mapping):
  """rename Name nodes (and nonlocal declarations) of fn's scope, following
  Python's scoping: a nested function or comprehension that binds the name
  itself shadows it."""
  def apply(node, m):
    if not m:
      return
    if isinstance(node, ast.Name):
      if node.id in m:
        node.id = m[node.id]
      return
    if isinstance(node, ast.Nonlocal):
      node.names = [m.get(n, n) for n in node.names]
      return
    if isinstance(node, FUNC):
      for d in node.decorator_list + node.args.defaults + [k for k in node.args.kw_defaults if k]:
        apply(d, m)
      shadow = set(params(node)) | set(bound_names(node))
      inner = {k: v for k, v in m.items() if k not in shadow}
      for st in node.body:
        apply(st, inner)
      return
    if isinstance(node, ast.Lambda):
      inner = {k: v for k, v in m.items() if k not in set(params(node))}
      apply(node.body, inner)
      return
    if isinstance(node, COMP):
      shadow = set()
      for g in node.generators:
        for x in ast.walk(g.target):
          if isinstance(x, ast.Name):
            shadow.add(x.id)
      inner = {k: v for k, v in m.items() if k not in shadow}
      apply(node.generators[0].iter, m)
      for i, g in enumerate(node.generators):
        if i:
          apply(g.iter, inner)
        apply(g.target, inner)
        for c in g.ifs:
          apply(c, inner)
      for f in ('elt', 'key', 'value'):
        if hasattr(node, f):
          apply(getattr(node, f), inner)
      return
    for ch in ast.iter_child_nodes(node):
      apply(ch, m)
  for st in fn.body:
    apply(st, mapping)


def _rename_params(fn, mapping):
  a = fn.args
  for p in a.posonlyargs + a.args + a.kwonlyargs + [x for x in (a.vararg, a.kwarg) if x]:
    if p.arg in mapping:
      p.arg = mapping[p.arg]


# ---------------------------------------------------------------------------
# alignment with the reference

_ref_cache = None


def reference():
  global _ref_cache
  if _ref_cache is None:
    try:
      with open(REF) as f:
        _ref_cache = json.load(f)
    except OSError:
      _ref_cache = {}
  return _ref_cache


def moved_functions(relpath, tree, notes=None):
  """{reference name: present name} for functions of the reference that are
  gone, matched with functions the reference does not know by what their
  bodies do (rename / move between nesting levels).  Cached on the tree."""
  if getattr(tree, '_moved', None) is not None:
    return tree._moved
  ref = reference().get(relpath) or {}
  fns = functions(tree)
  moved = {}
  gone = [q for q in ref if q not in fns and ref[q].get('body')]
  fresh = [q for q in fns if q not in ref]
  if gone and fresh:
    fps = {q: body_fingerprint(fns[q], outer_names_of(q, fns)) for q in fresh}
    pairs = []
    for g in gone:
      for f in fresh:
        sim = similarity(ref[g]['body'], fps[f])
        if sim >= 0.5:
          pairs.append((-sim, g, f))
    pairs.sort()
    used = set()
    for _, g, f in pairs:
      if g in moved or f in used:
        continue
      moved[g] = f
      used.add(f)
      if notes is not None:
        notes.append('%s: function %s is the one the rules call %s' % (relpath, f, g))
  tree._moved = moved
  return moved


def align(relpath, tree, notes=None):
  """rename locals / parameters of the functions of `tree` back to the names of
  the reference where they can be identified.  Returns the identifications."""
  ref = reference().get(relpath)
  done = []
  if not ref:
    return done
  fns = functions(tree)
  moved = moved_functions(relpath, tree, done)
  for q, r in ref.items():
    fn = fns.get(moved.get(q, q))
    if fn is None:
      continue
    cur_params = params(fn)
    ref_params = r['params']
    cur_locals = bound_names(fn)
    ref_locals = r['locals']
    mapping = {}
    # parameters by position (`self` and equal names need nothing)
    if cur_params != ref_params and len(cur_params) == len(ref_params):
      taken = set(cur_params) | set(cur_locals)
      for c, p in zip(cur_params, ref_params):
        if c != p and p not in taken:
          mapping[c] = p
    missing = [n for n in ref_locals if n not in cur_locals and n not in cur_params]
    unknown = [n for n in cur_locals if n not in ref_locals]
    if missing and unknown:
      fp = fingerprints(fn, set(unknown))
      pairs = []
      for mi, m in enumerate(missing):
        for ui, u in enumerate(unknown):
          s = similarity(ref_locals[m], fp.get(u, []))
          if s >= THRESHOLD:
            # ties are broken by relative position among the bindings
            pairs.append((-s, abs(mi - ui), m, u))
      pairs.sort()
      used_m, used_u = set(), set()
      for negs, _, m, u in pairs:
        if m in used_m or u in used_u:
          continue
        used_m.add(m)
        used_u.add(u)
        mapping[u] = m
    if mapping:
      _rename_params(fn, mapping)
      _rename(fn, mapping)
      for k, v in sorted(mapping.items()):
        done.append('%s:%s local `%s` is the variable the rules call `%s`' % (relpath, q, k, v))
  if notes is not None:
    notes.extend(done)
  return done


def build_reference(root, relpaths):
  out = {}
  for rel in relpaths:
    p = os.path.join(root, rel)
    try:
      tree = ast.parse(open(p, encoding='utf-8').read())
    except (OSError, SyntaxError):
      continue
    per = {}
    fns_ = functions(tree)
    for q, fn in fns_.items():
      locs = bound_names(fn)
      fp = fingerprints(fn)
      per[q] = dict(params=params(fn), locals={n: fp.get(n, []) for n in locs},
                    body=body_fingerprint(fn, outer_names_of(q, fns_)))
    out[rel] = per
  return out
