"""E4 - tables and tree shapes carried by the code."""

import ast

from .model import AnalysisError, call_tail, const_str, dotted, norm, walk_local


def returned_dict_keys(fi, nested=False):
  """Constant keys of dict literals directly returned by the function."""
  keys = {}
  for x in walk_local(fi.node):
    if isinstance(x, ast.Return) and isinstance(x.value, ast.Dict):
      for k in x.value.keys:
        s = const_str(k)
        if s is not None:
          keys.setdefault(s, x)
        elif isinstance(k, ast.Name):
          # `for kind, parser in <constant table>: ... return {kind: value}`
          excluded = _excluded_before(fi.node, x, k.id)
          for v in loop_constants(fi, k.id):
            if v not in excluded:
              keys.setdefault(v, x)
  return keys


def _excluded_before(fn, stmt, name):
  """constants that `name` cannot have at `stmt`: earlier statements of the
  same block of the form `if name == C: return / continue / raise`."""
  out = set()
  for holder in ast.walk(fn):
    for f in ('body', 'orelse', 'finalbody'):
      block = getattr(holder, f, None)
      if isinstance(block, list) and stmt in block:
        for st in block[:block.index(stmt)]:
          if isinstance(st, ast.If) and not st.orelse and st.body and \
              isinstance(st.body[-1], (ast.Return, ast.Continue, ast.Raise, ast.Break)) and \
              isinstance(st.test, ast.Compare) and len(st.test.ops) == 1 and \
              isinstance(st.test.ops[0], (ast.Eq, ast.Is)) and dotted(st.test.left) == name and \
              isinstance(st.test.comparators[0], ast.Constant):
            out.add(st.test.comparators[0].value)
  return out


def loop_constants(fi, name):
  """String constants a loop variable ranges over when the loop iterates a
  literal table (directly, or through a local / module-level name)."""
  return [const_str(c) for c in loop_cells(fi, name) if const_str(c) is not None]


def loop_functions(fi, name):
  """Names of functions a loop variable ranges over (dispatch tables)."""
  return [c.id for c in loop_cells(fi, name) if isinstance(c, ast.Name)]


def resolve_table(fi, e, depth=0):
  """The literal list / tuple an iterable expression denotes: the literal
  itself, or a local / module-level name bound to one."""
  if isinstance(e, (ast.Tuple, ast.List)):
    return e
  if isinstance(e, ast.Name) and depth < 3:
    for y in walk_local(fi.node):
      if isinstance(y, ast.Assign) and any(isinstance(t, ast.Name) and t.id == e.id for t in y.targets):
        return resolve_table(fi, y.value, depth + 1)
    for y in fi.module.tree.body:
      if isinstance(y, ast.Assign) and any(isinstance(t, ast.Name) and t.id == e.id for t in y.targets):
        return resolve_table(fi, y.value, depth + 1)
  # a generator function that only yields rows, called without arguments: the
  # table is the sequence of its yields
  if isinstance(e, ast.Call) and isinstance(e.func, ast.Name) and not e.args and not e.keywords:
    g = fi.nested.get(e.func.id)
    if g is None:
      g = fi.module.funcs.get(e.func.id)
    if g is not None:
      rows = []
      for st in g.node.body:
        if isinstance(st, ast.Expr) and isinstance(st.value, ast.Constant) and \
            isinstance(st.value.value, str):
          continue          # docstring
        if isinstance(st, ast.Expr) and isinstance(st.value, ast.Yield) and st.value.value is not None:
          rows.append(st.value.value)
        else:
          return None
      if rows:
        t = ast.List(elts=rows, ctx=ast.Load())
        ast.copy_location(t, g.node)
        return t
  return None


def loop_cells(fi, name):
  out = []

  def table(e, depth=0):
    if isinstance(e, (ast.Tuple, ast.List)):
      return e
    if isinstance(e, ast.Name) and depth < 3:
      for y in walk_local(fi.node):
        if isinstance(y, ast.Assign) and any(isinstance(t, ast.Name) and t.id == e.id for t in y.targets):
          return table(y.value, depth + 1)
      for y in fi.module.tree.body:
        if isinstance(y, ast.Assign) and any(isinstance(t, ast.Name) and t.id == e.id for t in y.targets):
          return table(y.value, depth + 1)
    return None
  for x in walk_local(fi.node):
    if not isinstance(x, ast.For):
      continue
    tg = x.target
    idx = None
    if isinstance(tg, ast.Name) and tg.id == name:
      idx = -1
    elif isinstance(tg, (ast.Tuple, ast.List)):
      for i, e in enumerate(tg.elts):
        if isinstance(e, ast.Name) and e.id == name:
          idx = i
    if idx is None:
      continue
    t = table(x.iter)
    if t is None:
      continue
    for row in t.elts:
      cell = row if idx == -1 else (row.elts[idx] if isinstance(row, (ast.Tuple, ast.List))
                                    and idx < len(row.elts) else None)
      if cell is not None:
        out.append(cell)
  return out


def tested_keys(fi, subject=None):
  """Constant strings K occurring as `K in <subject>` / `K not in <subject>`
  anywhere in the function (subject = dotted name or None for any)."""
  out = {}
  for x in walk_local(fi.node):
    if isinstance(x, ast.Compare) and len(x.ops) == 1 and isinstance(
        x.ops[0], (ast.In, ast.NotIn)):
      if subject is not None and dotted(x.comparators[0]) != subject:
        continue
      s = const_str(x.left)
      if s is None:
        # `kind in c` with kind ranging over a literal dispatch table
        if isinstance(x.left, ast.Name):
          for v in loop_constants(fi, x.left.id):
            out.setdefault(v, x)
        continue
      out.setdefault(s, x)
  return out


def definition(name_node):
  """The expression a Name stands for when it is a constant of the code: a
  local assigned exactly once in its function (and not otherwise rebound), a
  class-level attribute of the enclosing class, or a module-level name assigned
  exactly once and never declared `global`.  None when it is not one."""
  n = name_node.id
  fi = getattr(name_node, '_fi', None)
  q = fi
  while q is not None:
    vals, rebound = [], n in q.params
    for x in walk_local(q.node):
      if isinstance(x, ast.Assign):
        for t in x.targets:
          if isinstance(t, ast.Name) and t.id == n:
            vals.append(x.value)
          elif any(isinstance(e, ast.Name) and e.id == n for e in ast.walk(t)) and \
              not isinstance(t, (ast.Subscript, ast.Attribute)):
            rebound = True
      elif isinstance(x, (ast.AugAssign, ast.AnnAssign)) and isinstance(x.target, ast.Name) \
          and x.target.id == n:
        rebound = True
      elif isinstance(x, (ast.For, ast.comprehension)) and any(
          isinstance(e, ast.Name) and e.id == n for e in ast.walk(x.target)):
        rebound = True
      elif isinstance(x, (ast.Global, ast.Nonlocal)) and n in x.names:
        rebound = True
    if rebound or len(vals) > 1:
      return None
    if vals:
      return vals[0]
    q = q.parent
  mod = getattr(name_node, '_mod', None)
  if mod is None:
    return None
  if fi is not None:
    cls = fi.cls
    p = fi
    while cls is None and p is not None:
      cls, p = p.cls, p.parent
    if cls and cls in mod.classes:
      for st in mod.classes[cls].node.body:
        if isinstance(st, ast.Assign) and any(isinstance(t, ast.Name) and t.id == n for t in st.targets):
          return st.value
  return module_constant(mod, n)


def module_constant(mod, n):
  vals = []
  for st in mod.tree.body:
    if isinstance(st, ast.Assign):
      for t in st.targets:
        if isinstance(t, ast.Name) and t.id == n:
          vals.append(st.value)
    elif isinstance(st, (ast.AugAssign, ast.AnnAssign)) and isinstance(st.target, ast.Name) \
        and st.target.id == n:
      return None
  if len(vals) != 1:
    return None
  cache = getattr(mod, '_globals_declared', None)
  if cache is None:
    cache = set()
    for x in ast.walk(mod.tree):
      if isinstance(x, ast.Global):
        cache.update(x.names)
    mod._globals_declared = cache
  if n in cache:
    return None           # module state, not a constant
  return vals[0]


def resolve(node, depth=6):
  """`node` with named constants read as their definitions (one level of
  naming at a time, up to `depth`)."""
  while depth > 0:
    depth -= 1
    if isinstance(node, ast.Name):
      d = definition(node)
      if d is None:
        return node
      node = d
      continue
    if isinstance(node, ast.Attribute) and isinstance(node.value, ast.Name):
      mod = getattr(node.value, '_mod', None)
      fi = getattr(node.value, '_fi', None)
      d = None
      if node.value.id in ('self', 'cls') and fi is not None and mod is not None:
        cls = fi.cls or (fi.parent.cls if fi.parent else None)
        if cls and cls in mod.classes:
          for st in mod.classes[cls].node.body:
            if isinstance(st, ast.Assign) and any(
                isinstance(t, ast.Name) and t.id == node.attr for t in st.targets):
              d = st.value
      elif mod is not None and node.value.id in mod.imports:
        try:
          other = mod.repo.by_name(mod.imports[node.value.id].split('.')[-1])
          d = module_constant(other, node.attr)
        except AnalysisError:
          d = None
      elif mod is not None and node.value.id in mod.classes:
        for st in mod.classes[node.value.id].node.body:
          if isinstance(st, ast.Assign) and any(
              isinstance(t, ast.Name) and t.id == node.attr for t in st.targets):
            d = st.value
      if d is None:
        return node
      node = d
      continue
    return node
  return node


def dict_entries(node, what='dict'):
  """[(constant key, value node)] of a dict-valued expression: a dict
  literal (with ** expansion), dict(base, k=v), a named constant, `a | b`."""
  node = resolve(node)
  out = []
  if isinstance(node, ast.Dict):
    for k, v in zip(node.keys, node.values):
      if k is None:
        out += dict_entries(v, what)
        continue
      k = resolve(k)
      if not isinstance(k, ast.Constant):
        raise AnalysisError('%s has a non-constant key %s' % (what, norm(k, 40)))
      out.append((k.value, v))
    return out
  if isinstance(node, (ast.Tuple, ast.List)) and all(
      isinstance(e, (ast.Tuple, ast.List)) and len(e.elts) == 2 for e in node.elts):
    # a sequence of (key, value) pairs, as accepted by dict(...)
    for e in node.elts:
      k = resolve(e.elts[0])
      if not isinstance(k, ast.Constant):
        raise AnalysisError('%s has a non-constant key %s' % (what, norm(k, 40)))
      out.append((k.value, e.elts[1]))
    return out
  if isinstance(node, ast.Call) and call_tail(node) == 'dict' and isinstance(node.func, ast.Name):
    for a in node.args:
      out += dict_entries(a, what)
    for k in node.keywords:
      if k.arg is None:
        out += dict_entries(k.value, what)
      else:
        out.append((k.arg, k.value))
    return out
  if isinstance(node, ast.Call) and isinstance(node.func, ast.Attribute) and \
      isinstance(node.func.value, ast.Call) and dotted(node.func.value.func) == 'super':
    # super().Method(): the table the base class returns
    sup = node.func.value.func
    fi = getattr(sup, '_fi', None)
    mod = getattr(sup, '_mod', None)
    if fi is not None and mod is not None and fi.cls in mod.classes:
      for b in mod.classes[fi.cls].bases:
        base_m = mod.repo.lookup_method(mod, b, node.func.attr) if b in mod.classes else None
        if base_m is not None:
          return list(returned_dict_of_method(base_m).items())
    raise AnalysisError('%s: base class method of %s not found' % (what, norm(node, 40)))
  if isinstance(node, ast.Call) and call_tail(node) in ('copy', 'deepcopy') and node.args:
    return dict_entries(node.args[0], what)
  if isinstance(node, ast.Call) and call_tail(node) == 'copy' and isinstance(node.func, ast.Attribute) \
      and not node.args:
    return dict_entries(node.func.value, what)
  if isinstance(node, ast.BinOp) and isinstance(node.op, ast.BitOr):
    return dict_entries(node.left, what) + dict_entries(node.right, what)
  raise AnalysisError('%s is not a dict literal: %s' % (what, norm(node, 50)))


def dict_literal(node, what='dict'):
  """{const key: value node} of a dict-valued constant expression (later
  entries override earlier ones, as in Python)."""
  out = {}
  for k, v in dict_entries(node, what):
    out[k] = v
  return out


def const_value(node):
  """Python value of a constant expression: constants, tuples / lists / sets /
  dicts of them, `+` of constants, named constants of the code (read as their
  definitions), dict(...), set(...), tuple(...), list(...), frozenset(...)."""
  node = resolve(node)
  if isinstance(node, ast.Constant):
    return node.value
  if isinstance(node, ast.BinOp) and isinstance(node.op, ast.Add):
    return const_value(node.left) + const_value(node.right)
  if isinstance(node, ast.BinOp) and isinstance(node.op, ast.Mod):
    l, r = const_value(node.left), const_value(node.right)
    if isinstance(l, str) and isinstance(r, (str, int, float, list)):
      try:
        return l % (tuple(r) if isinstance(r, list) else r)
      except (TypeError, ValueError) as e:
        raise AnalysisError('constant %%-format does not apply: %s (%s)' % (norm(node, 60), e))
  if isinstance(node, ast.BinOp) and isinstance(node.op, ast.Mult):
    l, r = const_value(node.left), const_value(node.right)
    if isinstance(l, (str, list)) and isinstance(r, int) or isinstance(r, (str, list)) and isinstance(l, int):
      return l * r
  if isinstance(node, ast.Call) and call_tail(node) == 'format' and isinstance(node.func, ast.Attribute) \
      and not any(k.arg is None for k in node.keywords):
    recv = const_value(node.func.value)
    if isinstance(recv, str):
      try:
        return recv.format(*[const_value(a) for a in node.args],
                           **{k.arg: const_value(k.value) for k in node.keywords})
      except (IndexError, KeyError, ValueError) as e:
        raise AnalysisError('constant format does not apply: %s (%s)' % (norm(node, 60), e))
  if isinstance(node, ast.BinOp) and isinstance(node.op, ast.BitOr):
    l, r = const_value(node.left), const_value(node.right)
    if isinstance(l, (set, frozenset)) and isinstance(r, (set, frozenset)):
      return set(l) | set(r)
    if isinstance(l, dict) and isinstance(r, dict):
      return dict(l, **r)
  if isinstance(node, (ast.Tuple, ast.List)):
    return [const_value(e) for e in node.elts]
  if isinstance(node, ast.Set):
    return set(const_value(e) for e in node.elts)
  if isinstance(node, ast.Dict) or (isinstance(node, ast.Call) and call_tail(node) == 'dict'):
    return {k: const_value(v) for k, v in dict_entries(node)}
  if isinstance(node, ast.Call) and isinstance(node.func, ast.Name) and \
      node.func.id in ('set', 'frozenset', 'tuple', 'list', 'sorted') and len(node.args) == 1 \
      and not node.keywords:
    v = const_value(node.args[0])
    if node.func.id in ('set', 'frozenset'):
      return set(v)
    if node.func.id == 'sorted':
      return sorted(v)
    return list(v)
  if isinstance(node, ast.JoinedStr) and all(isinstance(v, ast.Constant) for v in node.values):
    return ''.join(v.value for v in node.values)
  if isinstance(node, ast.Call) and call_tail(node) == 'join' and isinstance(node.func, ast.Attribute) \
      and len(node.args) == 1 and not node.keywords:
    sep = const_value(node.func.value)
    parts = const_value(node.args[0])
    if isinstance(sep, str) and isinstance(parts, list) and all(isinstance(x, str) for x in parts):
      return sep.join(parts)
  raise AnalysisError('not a constant expression: %s' % norm(node, 60))


def returned_dict_of_method(fi):
  """The dict literal returned by a method whose body is `return {..}`."""
  rets = [x for x in walk_local(fi.node) if isinstance(x, ast.Return)]
  if len(rets) != 1 or rets[0].value is None:
    raise AnalysisError('%s does not return a single dict literal' % fi.fq)
  out = dict_literal(rets[0].value, fi.fq)
  if isinstance(rets[0].value, ast.Name):
    # `t = <table>; t[k] = v; ...; return t`: later stores extend the table
    n = rets[0].value.id
    for x in walk_local(fi.node):
      if isinstance(x, ast.Assign) and len(x.targets) == 1 and \
          isinstance(x.targets[0], ast.Subscript) and dotted(x.targets[0].value) == n:
        k = resolve(x.targets[0].slice)
        if not isinstance(k, ast.Constant):
          raise AnalysisError('%s stores under a non-constant key' % fi.fq)
        out[k.value] = x.value
      elif isinstance(x, ast.Call) and call_tail(x) == 'update' and receiver_name(x) == n and x.args:
        out.update(dict_literal(x.args[0], fi.fq))
  return out


def receiver_name(call):
  f = call.func
  return f.value.id if isinstance(f, ast.Attribute) and isinstance(f.value, ast.Name) else None


def returned_const(fi):
  """Constant returned by a method whose every return is the same constant;
  None if there is no return; AnalysisError if not constant."""
  vals = []
  for x in walk_local(fi.node):
    if isinstance(x, ast.Return):
      if x.value is None:
        vals.append(None)
      else:
        vals.append(const_value(x.value))
  if not vals:
    return None
  if any(v != vals[0] for v in vals):
    raise AnalysisError('%s returns different constants' % fi.fq)
  return vals[0]


def shape(node, depth=8):
  """Nested key structure of a dict/list literal: dict -> {key: shape},
  list -> [shape of first element] ; anything else -> '?'.  Non-constant
  keys are recorded as '?key'."""
  if depth <= 0:
    return '?'
  if isinstance(node, ast.Dict):
    out = {}
    for k, v in zip(node.keys, node.values):
      ks = const_str(k) if k is not None else None
      if ks is None and isinstance(k, ast.Constant):
        ks = repr(k.value)
      out[ks if ks is not None else '?key'] = shape(v, depth - 1)
    return out
  if isinstance(node, ast.List):
    if node.elts:
      return [shape(node.elts[0], depth - 1)]
    return []
  return '?'


def find_dicts_with(node, key, value=None):
  """Dict literals under `node` having constant key `key` (and constant
  value `value` if given)."""
  out = []
  for x in ast.walk(node):
    if isinstance(x, ast.Dict):
      for k, v in zip(x.keys, x.values):
        if const_str(k) == key and (value is None or const_str(v) == value):
          out.append(x)
  return out


def expand_calls(fi, tails):
  """Calls `x.<tail>(...)` of the function, with table-driven loops unrolled:
  `for name, n, impl in TABLE: con.create_function(name, n, impl)` yields one
  call per row of the literal table with the row's cells as arguments."""
  out = []

  def visit(stmts, loops):
    for st in stmts:
      if isinstance(st, (ast.For, ast.AsyncFor)):
        visit(st.body, loops + [st])
        visit(st.orelse, loops)
        continue
      for f in ('body', 'orelse', 'finalbody'):
        sub = getattr(st, f, None)
        if isinstance(sub, list) and sub and isinstance(sub[0], ast.stmt) and \
            not isinstance(st, (ast.FunctionDef, ast.AsyncFunctionDef, ast.ClassDef)):
          visit(sub, loops)
      for h in getattr(st, 'handlers', []) or []:
        visit(h.body, loops)
      if isinstance(st, (ast.FunctionDef, ast.AsyncFunctionDef, ast.ClassDef)):
        continue
      header = [st] if not hasattr(st, 'body') else [
          getattr(st, 'test', None), getattr(st, 'iter', None)] + [
              i.context_expr for i in getattr(st, 'items', [])]
      for hnode in header:
        if hnode is None:
          continue
        for c in ast.walk(hnode):
          if isinstance(c, ast.Call) and call_tail(c) in tails:
            emit(c, loops)

  def emit(c, loops):
    names = {a.id for a in c.args if isinstance(a, ast.Name)}
    for lp in reversed(loops):
      tg = lp.target
      tnames = [e.id for e in (tg.elts if isinstance(tg, (ast.Tuple, ast.List)) else [tg])
                if isinstance(e, ast.Name)]
      if not names & set(tnames):
        continue
      tbl = resolve_table(fi, lp.iter)
      if tbl is None:
        break
      for row in tbl.elts:
        cells = row.elts if isinstance(tg, (ast.Tuple, ast.List)) and \
            isinstance(row, (ast.Tuple, ast.List)) else [row]
        if len(cells) != len(tnames):
          continue
        bind = dict(zip(tnames, cells))
        new = ast.Call(func=c.func, args=[bind.get(a.id, a) if isinstance(a, ast.Name) else a
                                          for a in c.args], keywords=c.keywords)
        ast.copy_location(new, row)
        out.append(new)
      return
    out.append(c)
  visit(fi.node.body, [])
  return out


def table_bindings(fi, node):
  """[{loop variable: cell}] for every row of the literal table(s) driving the
  for loops that enclose `node` ([{}] when none does)."""
  loops = []

  def find(stmts, stack):
    for st in stmts:
      if st is node or any(x is node for x in ast.walk(st)) and not hasattr(st, 'body'):
        loops.extend(stack)
        return True
      if isinstance(st, (ast.FunctionDef, ast.AsyncFunctionDef, ast.ClassDef)):
        continue
      inner = stack + [st] if isinstance(st, (ast.For, ast.AsyncFor)) else stack
      if st is node:
        loops.extend(stack)
        return True
      for f in ('body', 'orelse', 'finalbody'):
        sub = getattr(st, f, None)
        if isinstance(sub, list) and sub and isinstance(sub[0], ast.stmt):
          if find(sub, inner if f == 'body' else stack):
            return True
      for h in getattr(st, 'handlers', []) or []:
        if find(h.body, stack):
          return True
      # the node may sit in the header of a compound statement
      for hn in (getattr(st, 'test', None), getattr(st, 'iter', None)):
        if hn is not None and any(x is node for x in ast.walk(hn)):
          loops.extend(stack)
          return True
    return False
  find(fi.node.body, [])
  out = [{}]
  for lp in loops:
    tbl = resolve_table(fi, lp.iter)
    if tbl is None:
      continue
    tg = lp.target
    tnames = [e.id if isinstance(e, ast.Name) else None
              for e in (tg.elts if isinstance(tg, (ast.Tuple, ast.List)) else [tg])]
    new = []
    for b in out:
      for row in tbl.elts:
        cells = row.elts if isinstance(tg, (ast.Tuple, ast.List)) and \
            isinstance(row, (ast.Tuple, ast.List)) else [row]
        if len(cells) != len(tnames):
          continue
        b2 = dict(b)
        b2.update({n: c for n, c in zip(tnames, cells) if n})
        new.append(b2)
    out = new or out
  return out


def bound(e, binding):
  return binding.get(e.id, e) if isinstance(e, ast.Name) else e
