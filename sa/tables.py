"""E4 - tables and tree shapes carried by the code."""

import ast

from .model import AnalysisError, const_str, dotted, norm, walk_local


def returned_dict_keys(fi, nested=False):
  """Constant keys of dict literals directly returned by the function."""
  keys = {}
  for x in walk_local(fi.node):
    if isinstance(x, ast.Return) and isinstance(x.value, ast.Dict):
      for k in x.value.keys:
        s = const_str(k)
        if s is not None:
          keys.setdefault(s, x)
  return keys


def tested_keys(fi, subject=None):
  """Constant strings K occurring as `K in <subject>` / `K not in <subject>`
  anywhere in the function (subject = dotted name or None for any)."""
  out = {}
  for x in walk_local(fi.node):
    if isinstance(x, ast.Compare) and len(x.ops) == 1 and isinstance(
        x.ops[0], (ast.In, ast.NotIn)):
      s = const_str(x.left)
      if s is None:
        continue
      if subject is not None and dotted(x.comparators[0]) != subject:
        continue
      out.setdefault(s, x)
  return out


def dict_literal(node, what='dict'):
  """{const key: value node} of a Dict literal (keys must be constants)."""
  if not isinstance(node, ast.Dict):
    raise AnalysisError('%s is not a dict literal: %s' % (what, norm(node, 50)))
  out = {}
  for k, v in zip(node.keys, node.values):
    if k is None:
      raise AnalysisError('%s uses ** expansion' % what)
    if not isinstance(k, ast.Constant):
      raise AnalysisError('%s has a non-constant key %s' % (what, norm(k, 40)))
    out[k.value] = v
  return out


def const_value(node):
  """Python value of a constant expression: constants, implicit string
  concatenation (already folded by the parser), tuples/lists of them,
  parenthesised `+` of constants."""
  if isinstance(node, ast.Constant):
    return node.value
  if isinstance(node, ast.BinOp) and isinstance(node.op, ast.Add):
    return const_value(node.left) + const_value(node.right)
  if isinstance(node, (ast.Tuple, ast.List)):
    return [const_value(e) for e in node.elts]
  if isinstance(node, ast.Set):
    return set(const_value(e) for e in node.elts)
  raise AnalysisError('not a constant expression: %s' % norm(node, 60))


def returned_dict_of_method(fi):
  """The dict literal returned by a method whose body is `return {..}`."""
  rets = [x for x in walk_local(fi.node) if isinstance(x, ast.Return)]
  if len(rets) != 1 or not isinstance(rets[0].value, ast.Dict):
    raise AnalysisError('%s does not return a single dict literal' % fi.fq)
  return dict_literal(rets[0].value, fi.fq)


def returned_const(fi):
  """Constant returned by a method whose every return is the same constant;
  None if there is no return; AnalysisError if not constant."""
  vals = []
  for x in walk_local(fi.node):
    if isinstance(x, ast.Return):
      if x.value is None:
        vals.append(None)
      else:
        vals.append(const_value(x.value))
  if not vals:
    return None
  if any(v != vals[0] for v in vals):
    raise AnalysisError('%s returns different constants' % fi.fq)
  return vals[0]


def shape(node, depth=8):
  """Nested key structure of a dict/list literal: dict -> {key: shape},
  list -> [shape of first element] ; anything else -> '?'.  Non-constant
  keys are recorded as '?key'."""
  if depth <= 0:
    return '?'
  if isinstance(node, ast.Dict):
    out = {}
    for k, v in zip(node.keys, node.values):
      ks = const_str(k) if k is not None else None
      if ks is None and isinstance(k, ast.Constant):
        ks = repr(k.value)
      out[ks if ks is not None else '?key'] = shape(v, depth - 1)
    return out
  if isinstance(node, ast.List):
    if node.elts:
      return [shape(node.elts[0], depth - 1)]
    return []
  return '?'


def find_dicts_with(node, key, value=None):
  """Dict literals under `node` having constant key `key` (and constant
  value `value` if given)."""
  out = []
  for x in ast.walk(node):
    if isinstance(x, ast.Dict):
      for k, v in zip(x.keys, x.values):
        if const_str(k) == key and (value is None or const_str(v) == value):
          out.append(x)
  return out
