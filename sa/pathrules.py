"""E3 - path-rule helpers over the program model and the CFG."""

import ast

from .cfg import CFG, truthy_facts
from .model import (AnalysisError, call_tail, dotted, kwarg, norm, unparse,
                    walk_local)


class FnView(object):
  """A function with its CFG and resolved call sites."""

  def __init__(self, repo, fq):
    self.repo = repo
    self.fi = repo.func(fq)
    self.cfg = CFG(self.fi.node)
    self._calls = None

  def all_calls(self):
    """[(cfg node, Call)] in source order; lambdas are entered, nested defs
    are not."""
    if self._calls is None:
      out = []
      for n in self.cfg.stmt_nodes():
        for x in self.cfg.sub_nodes(n, into_lambda=True):
          if isinstance(x, ast.Call):
            out.append((n, x))
      out.sort(key=lambda nc: (nc[1].lineno, nc[1].col_offset))
      self._calls = out
    return self._calls

  def calls(self, fq=None, tail=None):
    """Call sites resolving to `fq` (or whose attribute/name is `tail`)."""
    is_cls = fq is not None and _is_class(self.repo, fq)
    if fq is not None and not is_cls:
      self.repo.func(fq)       # AnalysisError when the callee itself vanished
    out = []
    for n, c in self.all_calls():
      if tail is not None and call_tail(c) != tail:
        continue
      if fq is not None:
        if call_tail(c) != fq.split('.')[-1]:
          continue
        if fq not in self.repo.resolve(self.fi, c):
          continue
      out.append((n, c))
    return out

  def need_calls(self, fq=None, tail=None, least=1):
    got = self.calls(fq=fq, tail=tail)
    if len(got) < least:
      raise AnalysisError(
          'anchor missing: %s no longer calls %s (found %d, need %d)' %
          (self.fi.fq, fq or tail, len(got), least))
    return got

  def nodes_of(self, calls):
    return {n for n, _ in calls}

  def before(self, a, b):
    """Call a is evaluated before call b when both sit in the same node."""
    return (a.lineno, a.col_offset) < (b.lineno, b.col_offset)

  def precedes(self, firsts, then):
    """Every path to call `then` evaluates one of the calls `firsts` first."""
    tn, tc = then
    same = [c for n, c in firsts if n == tn and self.before(c, tc)]
    if same:
      return True
    return self.cfg.must_pass_before(tn, {n for n, _ in firsts if n != tn})

  def follows(self, first, thens):
    """After call `first`, every path to the normal exit evaluates one of
    `thens`."""
    fn, fc = first
    same = [c for n, c in thens if n == fn and self.before(fc, c)]
    if same:
      return True
    return self.cfg.must_pass_after(fn, {n for n, _ in thens if n != fn})

  def guards(self, site_node):
    """[(test expr, value)] facts that hold whenever site_node executes."""
    facts = []
    for h, pol in self.cfg.header_of(site_node):
      st = self.cfg.stmt[h]
      if isinstance(st, (ast.If, ast.While)):
        facts += truthy_facts(st.test, pol)
    return facts

  def live(self, site_node):
    """False when a dominating test is a constant that never lets control
    reach the node (`if x and False:`)."""
    for e, val in self.guards(site_node):
      if isinstance(e, ast.Constant) and bool(e.value) != val:
        return False
    return True

  def assigned_from(self, name):
    """Value expressions assigned to local `name` (flow-insensitive)."""
    out = []
    for x in walk_local(self.fi.node):
      if isinstance(x, ast.Assign):
        for t in x.targets:
          if isinstance(t, ast.Name) and t.id == name:
            out.append(x.value)
          elif isinstance(t, ast.Tuple):
            for i, e in enumerate(t.elts):
              if isinstance(e, ast.Name) and e.id == name:
                out.append(('tuple', i, x.value))
      elif isinstance(x, (ast.AnnAssign, ast.AugAssign)):
        if isinstance(x.target, ast.Name) and x.target.id == name and x.value:
          out.append(x.value)
      elif isinstance(x, ast.NamedExpr):
        if x.target.id == name:
          out.append(x.value)
    return out

  def returns(self):
    return [(n, self.cfg.stmt[n]) for n in self.cfg.stmt_nodes()
            if isinstance(self.cfg.stmt[n], ast.Return)]

  def raises(self):
    return [(n, self.cfg.stmt[n]) for n in self.cfg.stmt_nodes()
            if isinstance(self.cfg.stmt[n], ast.Raise)]


def _is_class(repo, fq):
  modname, _, qual = fq.partition('.')
  try:
    return qual in repo.by_name(modname).classes
  except AnalysisError:
    return False


def receiver(call):
  f = call.func
  if isinstance(f, ast.Attribute):
    return dotted(f.value)
  return None


def arg_is_const(call, name, pos, value):
  v = kwarg(call, name, pos)
  return isinstance(v, ast.Constant) and v.value is value or (
      isinstance(v, ast.Constant) and v.value == value and
      type(v.value) is type(value))


def arg_name(call, pos, kw=None):
  v = kwarg(call, kw, pos) if kw else (call.args[pos] if pos < len(call.args)
                                       else None)
  return dotted(v) if v is not None else None


def expr_contains_call(expr, repo, fi, fq):
  for x in walk_local(expr):
    if isinstance(x, ast.Call) and fq in repo.resolve(fi, x):
      return True
  return False


def raised_type(repo, fi, raise_stmt):
  """Name of the exception class constructed by a raise statement, following
  one level of helper (`raise self.exception_maker(..)` -> '?exception_maker',
  `raise e` -> '?e')."""
  e = raise_stmt.exc
  if e is None:
    return '<reraise>'
  if isinstance(e, ast.Call):
    d = dotted(e.func)
    return d.split('.')[-1] if d else '?'
  d = dotted(e)
  return '?' + d if d else '?'
