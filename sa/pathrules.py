"""E3 - path-rule helpers over the program model and the CFG."""

import ast

from .cfg import CFG, truthy_facts
from .model import (AnalysisError, call_tail, dotted, kwarg, norm, unparse,
                    walk_local)


class FnView(object):
  """A function with its CFG and resolved call sites."""

  def __init__(self, repo, fq):
    self.repo = repo
    self.fi = repo.func(fq)
    self.cfg = CFG(self.fi.node)
    self._calls = None

  @classmethod
  def of(cls, repo, fi):
    """view of a function given as FuncInfo (e.g. a method of a flattened class)."""
    v = cls.__new__(cls)
    v.repo = repo
    v.fi = fi
    v.cfg = CFG(fi.node)
    v._calls = None
    return v

  def all_calls(self):
    """[(cfg node, Call)] in source order; lambdas are entered, nested defs
    are not."""
    if self._calls is None:
      out = []
      for n in self.cfg.stmt_nodes():
        for x in self.cfg.sub_nodes(n, into_lambda=True):
          if isinstance(x, ast.Call):
            out.append((n, x))
      out.sort(key=lambda nc: (nc[1].lineno, nc[1].col_offset))
      self._calls = out
    return self._calls

  def calls(self, fq=None, tail=None):
    """Call sites resolving to `fq` (or whose attribute/name is `tail`)."""
    is_cls = fq is not None and _is_class(self.repo, fq)
    if fq is not None and not is_cls:
      # AnalysisError when the callee itself vanished; its present name
      # otherwise (a nested function may have moved to module level)
      fq = self.repo.func(fq).fq
    out = []
    for n, c in self.all_calls():
      if tail is not None and call_tail(c) != tail:
        continue
      if fq is not None:
        if call_tail(c) != fq.split('.')[-1]:
          continue
        if fq not in self.repo.resolve(self.fi, c):
          continue
      out.append((n, c))
    return out

  def calls_reaching(self, fq, depth=3):
    """Call sites of this function that call `fq` directly or through helper
    functions (at most `depth` calls deep, never back through this function):
    extracting the statements around a call into a helper does not remove the
    call from the caller's paths."""
    fq = self.repo.func(fq).fq
    cg = _callgraph(self.repo)

    def reaches(t, d, seen):
      if t == fq:
        return True
      if d == 0 or t == self.fi.fq or t in seen:
        return False
      seen = seen | {t}
      return any(reaches(u, d - 1, seen) for u in cg.edges.get(t, ()))
    out = []
    for n, c in self.all_calls():
      tg = self.repo.resolve(self.fi, c)
      if fq in tg or any(reaches(t, depth - 1, frozenset()) for t in tg if t != self.fi.fq):
        out.append((n, c))
    return out

  def need_calls(self, fq=None, tail=None, least=1):
    got = self.calls(fq=fq, tail=tail)
    if len(got) < least:
      raise AnalysisError(
          'anchor missing: %s no longer calls %s (found %d, need %d)' %
          (self.fi.fq, fq or tail, len(got), least))
    return got

  def nodes_of(self, calls):
    return {n for n, _ in calls}

  def before(self, a, b):
    """Call a is evaluated before call b when both sit in the same node."""
    return (a.lineno, a.col_offset) < (b.lineno, b.col_offset)

  def precedes(self, firsts, then):
    """Every path to call `then` evaluates one of the calls `firsts` first."""
    tn, tc = then
    same = [c for n, c in firsts if n == tn and self.before(c, tc)]
    if same:
      return True
    return self.cfg.must_pass_before(tn, {n for n, _ in firsts if n != tn})

  def follows(self, first, thens):
    """After call `first`, every path to the normal exit evaluates one of
    `thens`."""
    fn, fc = first
    same = [c for n, c in thens if n == fn and self.before(fc, c)]
    if same:
      return True
    return self.cfg.must_pass_after(fn, {n for n, _ in thens if n != fn})

  def guards(self, site_node):
    """[(test expr, value)] facts that hold whenever site_node executes."""
    facts = []
    for h, pol in self.cfg.header_of(site_node):
      st = self.cfg.stmt[h]
      if isinstance(st, (ast.If, ast.While)):
        facts += truthy_facts(st.test, pol)
    return facts

  def live(self, site_node):
    """False when a dominating test is a constant that never lets control
    reach the node (`if x and False:`)."""
    for e, val in self.guards(site_node):
      if isinstance(e, ast.Constant) and bool(e.value) != val:
        return False
    return True

  def node_holding(self, expr):
    """cfg node whose own expressions contain `expr` (None if not found)."""
    for n in self.cfg.stmt_nodes():
      for x in self.cfg.sub_nodes(n, into_lambda=True):
        if x is expr:
          return n
    return None

  def reaching_value(self, name_node):
    """The value of the one plain assignment `<name> = value` that reaches this
    use on every path: it dominates the use and no other assignment to the
    name lies between (flow-sensitive; None when there is no such one)."""
    use = self.node_holding(name_node)
    if use is None:
      return None
    defs = []
    for n in self.cfg.stmt_nodes():
      st = self.cfg.stmt[n]
      tgts = []
      if isinstance(st, ast.Assign):
        tgts = st.targets
      elif isinstance(st, (ast.AugAssign, ast.AnnAssign)):
        tgts = [st.target]
      elif isinstance(st, (ast.For, ast.With)):
        tgts = [x for x in ast.walk(st.target)] if isinstance(st, ast.For) else []
      for t in tgts:
        for y in ast.walk(t):
          if isinstance(y, ast.Name) and y.id == name_node.id:
            defs.append((n, st))
    doms = [(n, st) for n, st in defs if n != use and self.cfg.dominates(n, use)]
    if not doms:
      return None
    # the latest dominating definition
    best = doms[0]
    for d in doms[1:]:
      if self.cfg.dominates(best[0], d[0]):
        best = d
    n, st = best
    parallel = None
    if isinstance(st, ast.Assign) and len(st.targets) == 1 and \
        isinstance(st.targets[0], (ast.Tuple, ast.List)) and \
        isinstance(st.value, (ast.Tuple, ast.List)) and \
        len(st.targets[0].elts) == len(st.value.elts):
      for t_, v_ in zip(st.targets[0].elts, st.value.elts):
        if isinstance(t_, ast.Name) and t_.id == name_node.id:
          parallel = v_
    if parallel is None and not (isinstance(st, ast.Assign) and len(st.targets) == 1 and
                                 isinstance(st.targets[0], ast.Name)):
      return None
    # no other definition can intervene between best and the use
    after = self.cfg.reachable(n)
    for o, ost in defs:
      if o == n:
        continue
      if o in after and use in self.cfg.reachable(o) and not self.cfg.dominates(use, o):
        # o lies on some path best -> o -> use
        if o != use:
          return None
    return parallel if parallel is not None else st.value

  def assigned_from(self, name):
    """Value expressions assigned to local `name` (flow-insensitive)."""
    out = []
    for x in walk_local(self.fi.node):
      if isinstance(x, ast.Assign):
        for t in x.targets:
          if isinstance(t, ast.Name) and t.id == name:
            out.append(x.value)
          elif isinstance(t, (ast.Tuple, ast.List)):
            for i, e in enumerate(t.elts):
              if isinstance(e, ast.Name) and e.id == name:
                out.append(('tuple', i, x.value))
      elif isinstance(x, (ast.AnnAssign, ast.AugAssign)):
        if isinstance(x.target, ast.Name) and x.target.id == name and x.value:
          out.append(x.value)
      elif isinstance(x, ast.NamedExpr):
        if x.target.id == name:
          out.append(x.value)
    return out

  def single_defs(self):
    """{name: value} for locals with exactly one plain assignment in the
    function (not a parameter, not augmented, not a loop / with / tuple
    target): a reference to such a name can be read as its definition."""
    if getattr(self, '_single', None) is None:
      count, val = {}, {}
      mutated = set()
      bad = set(self.fi.params)
      for x in walk_local(self.fi.node):
        if isinstance(x, ast.Assign):
          for t in x.targets:
            if isinstance(t, ast.Name):
              count[t.id] = count.get(t.id, 0) + 1
              val[t.id] = x.value
            elif isinstance(t, (ast.Tuple, ast.List)) and isinstance(x.value, (ast.Tuple, ast.List)) \
                and len(t.elts) == len(x.value.elts) and all(isinstance(e, ast.Name) for e in t.elts) \
                and not ({e.id for e in t.elts} & {y.id for y in ast.walk(x.value)
                                                   if isinstance(y, ast.Name)}):
              # first, last = s[0], s[-1]: two plain assignments written as one
              for e, v_ in zip(t.elts, x.value.elts):
                count[e.id] = count.get(e.id, 0) + 1
                val[e.id] = v_
            elif isinstance(t, (ast.Tuple, ast.List, ast.Starred)):
              for e in ast.walk(t):
                if isinstance(e, ast.Name) and isinstance(e.ctx, ast.Store):
                  bad.add(e.id)
        elif isinstance(x, (ast.AugAssign, ast.AnnAssign)):
          for e in ast.walk(x.target):
            if isinstance(e, ast.Name):
              bad.add(e.id)
        elif isinstance(x, (ast.For, ast.comprehension)):
          for e in ast.walk(x.target):
            if isinstance(e, ast.Name):
              bad.add(e.id)
        elif isinstance(x, ast.With):
          for it in x.items:
            if it.optional_vars is not None:
              for e in ast.walk(it.optional_vars):
                if isinstance(e, ast.Name):
                  bad.add(e.id)
        elif isinstance(x, ast.NamedExpr):
          bad.add(x.target.id)
        elif isinstance(x, (ast.Global, ast.Nonlocal)):
          bad.update(x.names)
        elif isinstance(x, ast.Call) and isinstance(x.func, ast.Attribute) and \
            isinstance(x.func.value, ast.Name) and x.func.attr in (
                'append', 'extend', 'add', 'update', 'insert', 'pop', 'remove', 'discard',
                'clear', 'setdefault', 'sort', 'reverse', 'appendleft', 'popleft'):
          mutated.add(x.func.value.id)  # grown in place: not its definition any more
      for x in walk_local(self.fi.node):
        tg = []
        if isinstance(x, ast.Assign):
          tg = x.targets
        elif isinstance(x, (ast.AugAssign, ast.Delete)):
          tg = [x.target] if isinstance(x, ast.AugAssign) else x.targets
        for t in tg:
          if isinstance(t, (ast.Subscript, ast.Attribute)) and isinstance(t.value, ast.Name):
            mutated.add(t.value.id)
      # a local that merely names an existing object (x = self.a.b) still is
      # that object after it was written through; a container built here
      # (x = [], x = dict(..)) is not its initial value any more
      def names_existing(v_):
        # self.a.b, x, self.a[k], d[k].c: an object that exists already
        while isinstance(v_, (ast.Attribute, ast.Subscript)):
          v_ = v_.value
        return isinstance(v_, ast.Name)
      for k in mutated:
        v_ = val.get(k)
        if v_ is None or not names_existing(v_):
          bad.add(k)
      self._single = {k: v for k, v in val.items() if count[k] == 1 and k not in bad}
    return self._single

  def expand(self, expr, depth=3, stop=()):
    """`expr` with every single-definition local replaced by its definition
    (hoisting a sub-expression into a local does not change what is computed)."""
    from .model import clone
    defs = self.single_defs()

    class Sub(ast.NodeTransformer):
      def __init__(self, d):
        self.d = d

      def visit_Name(self, node):
        if isinstance(node.ctx, ast.Load) and node.id in defs and self.d > 0 and node.id not in stop:
          return Sub(self.d - 1).visit(clone(defs[node.id]))
        return node
    return Sub(depth).visit(clone(expr))

  def expand_flow(self, expr, depth=3, stop=()):
    """like expand(), but a local assigned several times is read as the one
    definition that reaches this very use (flow-sensitive); `expr` must be a
    node of the function itself."""
    from .model import clone
    defs = self.single_defs()
    view = self

    def go(node, d):
      if isinstance(node, ast.Name) and isinstance(node.ctx, ast.Load) and d > 0 \
          and node.id not in stop:
        val = defs.get(node.id)
        if val is None and node.id not in view.fi.params:
          try:
            val = view.reaching_value(node)
          except Exception:
            val = None
        if val is not None:
          return go(val, d - 1)
        return clone(node)
      new = clone(node) if not any(True for _ in ast.iter_child_nodes(node)) else None
      if new is not None:
        return new
      # rebuild the node with expanded children (children of the ORIGINAL node
      # are looked at, so that reaching_value sees real nodes)
      new = type(node)()
      for f_, v_ in ast.iter_fields(node):
        if isinstance(v_, ast.AST):
          setattr(new, f_, go(v_, d))
        elif isinstance(v_, list):
          setattr(new, f_, [go(x_, d) if isinstance(x_, ast.AST) else x_ for x_ in v_])
        else:
          setattr(new, f_, v_)
      for a_ in ('lineno', 'col_offset', 'end_lineno', 'end_col_offset'):
        if hasattr(node, a_):
          setattr(new, a_, getattr(node, a_))
      return new
    return go(expr, depth)

  def deep_text(self, expr, depth=2):
    """source text of `expr` followed by the text of what the helper functions
    it calls return (a literal built by a helper is still that literal)."""
    out = [norm(expr, 100000)]
    if depth:
      for c in ast.walk(expr):
        if isinstance(c, ast.Call):
          for t in self.repo.resolve(self.fi, c):
            try:
              h = FnView(self.repo, t)
            except AnalysisError:
              continue
            if h.fi is self.fi:
              continue
            for _, r in h.returns():
              if r.value is not None:
                out.append(h.deep_text(r.value, depth - 1))
    return ' '.join(out)

  def returns(self):
    return [(n, self.cfg.stmt[n]) for n in self.cfg.stmt_nodes()
            if isinstance(self.cfg.stmt[n], ast.Return)]

  def raises(self):
    return [(n, self.cfg.stmt[n]) for n in self.cfg.stmt_nodes()
            if isinstance(self.cfg.stmt[n], ast.Raise)]


def _callgraph(repo):
  if getattr(repo, '_cg', None) is None:
    from .callgraph import CallGraph
    repo._cg = CallGraph(repo)
  return repo._cg


def _is_class(repo, fq):
  modname, _, qual = fq.partition('.')
  try:
    return qual in repo.by_name(modname).classes
  except AnalysisError:
    return False


def receiver(call):
  f = call.func
  if isinstance(f, ast.Attribute):
    return dotted(f.value)
  return None


def arg_is_const(call, name, pos, value):
  v = kwarg(call, name, pos)
  return isinstance(v, ast.Constant) and v.value is value or (
      isinstance(v, ast.Constant) and v.value == value and
      type(v.value) is type(value))


def arg_name(call, pos, kw=None):
  v = kwarg(call, kw, pos) if kw else (call.args[pos] if pos < len(call.args)
                                       else None)
  return dotted(v) if v is not None else None


def expr_contains_call(expr, repo, fi, fq):
  for x in walk_local(expr):
    if isinstance(x, ast.Call) and fq in repo.resolve(fi, x):
      return True
  return False


def raised_type(repo, fi, raise_stmt):
  """Name of the exception class constructed by a raise statement, following
  one level of helper (`raise self.exception_maker(..)` -> '?exception_maker',
  `raise e` -> '?e')."""
  e = raise_stmt.exc
  if e is None:
    return '<reraise>'
  if isinstance(e, ast.Call):
    d = dotted(e.func)
    return d.split('.')[-1] if d else '?'
  d = dotted(e)
  return '?' + d if d else '?'
